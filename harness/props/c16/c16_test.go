// Package c16 decides property C16 (JSON interchange preserves transactions
// and satoshi amounts exactly).
package c16

import (
	"bytes"
	"context"
	"encoding/hex"
	"encoding/json"
	"fmt"
	"testing"

	"github.com/libsv/go-bk/bec"
	"github.com/libsv/go-bt/v2"
	"github.com/libsv/go-bt/v2/bscript"
	"github.com/libsv/go-bt/v2/unlocker"
	"pgregory.net/rapid"

	"verif/harness/gen"
	"verif/harness/pbt"
	"verif/harness/ref"
)

func TestMain(m *testing.M) { pbt.Main(m) }

// MaxSats is the top of the amount domain of the statement (21e14 satoshis).
const MaxSats uint64 = 2_100_000_000_000_000

func sameBytes(a, b []byte) bool { return bytes.Equal(a, b) } // nil == empty

func scriptBytes(s *bscript.Script) []byte {
	if s == nil {
		return nil
	}
	return []byte(*s)
}

// ---------------------------------------------------------------------------
// round trips of the single object kinds; each returns (marshalError, violation)
// ---------------------------------------------------------------------------

func rtOutputLib(o *bt.Output) (error, error) {
	b, err := json.Marshal(o)
	if err != nil {
		return err, nil
	}
	var g bt.Output
	if err := json.Unmarshal(b, &g); err != nil {
		return nil, fmt.Errorf("output library JSON %s does not unmarshal: %v", b, err)
	}
	return nil, cmpOutput("output library JSON", b, o, &g)
}

func rtOutputNode(o *bt.Output) (error, error) {
	b, err := json.Marshal(o.NodeJSON())
	if err != nil {
		return err, nil
	}
	g := &bt.Output{}
	if err := json.Unmarshal(b, g.NodeJSON()); err != nil {
		return nil, fmt.Errorf("output node JSON %s does not unmarshal: %v", b, err)
	}
	return nil, cmpOutput("output node JSON", b, o, g)
}

func cmpOutput(what string, b []byte, o, g *bt.Output) error {
	if g.Satoshis != o.Satoshis {
		return fmt.Errorf("%s: %d satoshis came back as %d (JSON %s)", what, o.Satoshis, g.Satoshis, clip(b))
	}
	if g.LockingScript == nil || !sameBytes(scriptBytes(g.LockingScript), scriptBytes(o.LockingScript)) {
		return fmt.Errorf("%s: locking script %x came back as %x (JSON %s)", what, scriptBytes(o.LockingScript), scriptBytes(g.LockingScript), clip(b))
	}
	if !bytes.Equal(g.Bytes(), o.Bytes()) {
		return fmt.Errorf("%s: serialisation %x came back as %x", what, o.Bytes(), g.Bytes())
	}
	return nil
}

func rtUTXOLib(u *bt.UTXO) (error, error) {
	b, err := json.Marshal(u)
	if err != nil {
		return err, nil
	}
	var g bt.UTXO
	if err := json.Unmarshal(b, &g); err != nil {
		return nil, fmt.Errorf("utxo library JSON %s does not unmarshal: %v", b, err)
	}
	return nil, cmpUTXO("utxo library JSON", b, u, &g)
}

func rtUTXONode(u *bt.UTXO) (error, error) {
	b, err := json.Marshal(u.NodeJSON())
	if err != nil {
		return err, nil
	}
	g := &bt.UTXO{}
	if err := json.Unmarshal(b, g.NodeJSON()); err != nil {
		return nil, fmt.Errorf("utxo node JSON %s does not unmarshal: %v", b, err)
	}
	return nil, cmpUTXO("utxo node JSON", b, u, g)
}

func cmpUTXO(what string, b []byte, u, g *bt.UTXO) error {
	if g.Satoshis != u.Satoshis {
		return fmt.Errorf("%s: %d satoshis came back as %d (JSON %s)", what, u.Satoshis, g.Satoshis, clip(b))
	}
	if g.Vout != u.Vout {
		return fmt.Errorf("%s: vout %d came back as %d (JSON %s)", what, u.Vout, g.Vout, clip(b))
	}
	if !bytes.Equal(g.TxID, u.TxID) {
		return fmt.Errorf("%s: txid %x came back as %x (JSON %s)", what, u.TxID, g.TxID, clip(b))
	}
	if !sameBytes(scriptBytes(g.LockingScript), scriptBytes(u.LockingScript)) {
		return fmt.Errorf("%s: locking script %x came back as %x (JSON %s)", what, scriptBytes(u.LockingScript), scriptBytes(g.LockingScript), clip(b))
	}
	return nil
}

func rtUTXOsLib(uu bt.UTXOs) (error, error) {
	b, err := json.Marshal(uu)
	if err != nil {
		return err, nil
	}
	var g bt.UTXOs
	if err := json.Unmarshal(b, &g); err != nil {
		return nil, fmt.Errorf("utxo list library JSON does not unmarshal: %v (JSON %s)", err, clip(b))
	}
	return nil, cmpUTXOs("utxo list library JSON", b, uu, g)
}

func rtUTXOsNode(uu bt.UTXOs) (error, error) {
	b, err := json.Marshal(uu.NodeJSON())
	if err != nil {
		return err, nil
	}
	var g bt.UTXOs
	if err := json.Unmarshal(b, g.NodeJSON()); err != nil {
		return nil, fmt.Errorf("utxo list node JSON does not unmarshal: %v (JSON %s)", err, clip(b))
	}
	return nil, cmpUTXOs("utxo list node JSON", b, uu, g)
}

func cmpUTXOs(what string, b []byte, uu, g bt.UTXOs) error {
	if len(g) != len(uu) {
		return fmt.Errorf("%s: %d utxos came back as %d (JSON %s)", what, len(uu), len(g), clip(b))
	}
	for i := range uu {
		if g[i] == nil {
			return fmt.Errorf("%s: element %d came back nil", what, i)
		}
		if err := cmpUTXO(fmt.Sprintf("%s[%d]", what, i), b, uu[i], g[i]); err != nil {
			return err
		}
	}
	return nil
}

func rtInputLib(in *bt.Input) (error, error) {
	b, err := json.Marshal(in)
	if err != nil {
		return err, nil
	}
	var g bt.Input
	if err := json.Unmarshal(b, &g); err != nil {
		return nil, fmt.Errorf("input library JSON %s does not unmarshal: %v", clip(b), err)
	}
	if !bytes.Equal(g.PreviousTxID(), in.PreviousTxID()) || g.PreviousTxOutIndex != in.PreviousTxOutIndex || g.SequenceNumber != in.SequenceNumber {
		return nil, fmt.Errorf("input library JSON: outpoint/sequence %x:%d/%d came back as %x:%d/%d", in.PreviousTxID(), in.PreviousTxOutIndex, in.SequenceNumber, g.PreviousTxID(), g.PreviousTxOutIndex, g.SequenceNumber)
	}
	if !sameBytes(scriptBytes(g.UnlockingScript), scriptBytes(in.UnlockingScript)) {
		return nil, fmt.Errorf("input library JSON: unlocking script %x came back as %x", scriptBytes(in.UnlockingScript), scriptBytes(g.UnlockingScript))
	}
	if !bytes.Equal(g.Bytes(false), in.Bytes(false)) {
		return nil, fmt.Errorf("input library JSON: serialisation %x came back as %x", in.Bytes(false), g.Bytes(false))
	}
	return nil, nil
}

func cmpTx(what string, b []byte, tx, g *bt.Tx) error {
	if !bytes.Equal(g.Bytes(), tx.Bytes()) {
		return fmt.Errorf("%s: serialisation %x came back as %x (JSON %s)", what, tx.Bytes(), g.Bytes(), clip(b))
	}
	if g.TxID() != tx.TxID() {
		return fmt.Errorf("%s: txid %s came back as %s", what, tx.TxID(), g.TxID())
	}
	// field by field through the independent model (does not rely on Bytes())
	a, c := ref.FromLib(tx), ref.FromLib(g)
	if !ref.SameWire(a, c, false) {
		return fmt.Errorf("%s: fields differ after the round trip: %+v became %+v", what, a, c)
	}
	for i, o := range g.Outputs {
		if o.LockingScript == nil {
			return fmt.Errorf("%s: output %d came back without a locking script", what, i)
		}
	}
	return nil
}

func rtTxLib(tx *bt.Tx) (error, error) {
	b, err := json.Marshal(tx)
	if err != nil {
		return err, nil
	}
	g := bt.NewTx()
	if err := json.Unmarshal(b, g); err != nil {
		return nil, fmt.Errorf("tx library JSON does not unmarshal: %v (JSON %s)", err, clip(b))
	}
	return nil, cmpTx("tx library JSON", b, tx, g)
}

func rtTxNode(tx *bt.Tx) (error, error) {
	b, err := json.Marshal(tx.NodeJSON())
	if err != nil {
		return err, nil
	}
	g := bt.NewTx()
	if err := json.Unmarshal(b, g.NodeJSON()); err != nil {
		return nil, fmt.Errorf("tx node JSON does not unmarshal: %v (JSON %s)", err, clip(b))
	}
	return nil, cmpTx("tx node JSON", b, tx, g)
}

func rtTxsLib(txs bt.Txs) (error, error) {
	b, err := json.Marshal(txs)
	if err != nil {
		return err, nil
	}
	var g bt.Txs
	if err := json.Unmarshal(b, &g); err != nil {
		return nil, fmt.Errorf("tx list library JSON does not unmarshal: %v (JSON %s)", err, clip(b))
	}
	return nil, cmpTxs("tx list library JSON", b, txs, g)
}

func rtTxsNode(txs bt.Txs) (error, error) {
	b, err := json.Marshal(txs.NodeJSON())
	if err != nil {
		return err, nil
	}
	var g bt.Txs
	if err := json.Unmarshal(b, g.NodeJSON()); err != nil {
		return nil, fmt.Errorf("tx list node JSON does not unmarshal: %v (JSON %s)", err, clip(b))
	}
	return nil, cmpTxs("tx list node JSON", b, txs, g)
}

func cmpTxs(what string, b []byte, txs, g bt.Txs) error {
	if len(g) != len(txs) {
		return fmt.Errorf("%s: %d transactions came back as %d", what, len(txs), len(g))
	}
	for i := range txs {
		if g[i] == nil {
			return fmt.Errorf("%s: element %d came back nil", what, i)
		}
		if err := cmpTx(fmt.Sprintf("%s[%d]", what, i), b, txs[i], g[i]); err != nil {
			return err
		}
	}
	return nil
}

func clip(b []byte) string {
	if len(b) > 400 {
		return string(b[:400]) + "..."
	}
	return string(b)
}

// ---------------------------------------------------------------------------
// sub-check 1: amounts
// ---------------------------------------------------------------------------

// Amounts is a run of consecutive satoshi amounts Lo, Lo+1, ..., Lo+N-1
// (values above 21e14 are skipped) carried by an output and a UTXO.
type Amounts struct {
	Lo     uint64  `json:"lo"`
	N      int     `json:"n"`
	Script pbt.Hex `json:"script"`
	// LibEvery > 1: only every LibEvery-th amount of the run also goes through the
	// (integer-valued) library dialect; the node dialect always sees every amount.
	LibEvery int `json:"lib_every,omitempty"`
}

var amountTxID = bytes.Repeat([]byte{0xc1, 0x6e}, 16)

func checkAmounts(ctx *pbt.Ctx, c Amounts) error {
	script := bscript.Script(append([]byte{}, c.Script...))
	o := &bt.Output{LockingScript: &script}
	u := &bt.UTXO{TxID: amountTxID, LockingScript: &script}
	type rt struct {
		name string
		f    func() (error, error)
	}
	rts := []rt{
		{"output.node", func() (error, error) { return rtOutputNode(o) }},
		{"utxo.node", func() (error, error) { return rtUTXONode(u) }},
		{"output.lib", func() (error, error) { return rtOutputLib(o) }},
		{"utxo.lib", func() (error, error) { return rtUTXOLib(u) }},
	}
	done := 0
	var list bt.UTXOs
	for i := 0; i < c.N; i++ {
		a := c.Lo + uint64(i)
		if a > MaxSats || a < c.Lo {
			break
		}
		o.Satoshis, u.Satoshis, u.Vout = a, a, uint32(a%4294967291)
		for k, r := range rts {
			if k >= 2 && c.LibEvery > 1 && i%c.LibEvery != 0 {
				break
			}
			merr, v := r.f()
			if v != nil {
				return fmt.Errorf("amount %d: %v", a, v)
			}
			if merr != nil {
				ctx.Label("marshal_error:" + r.name)
			}
		}
		if len(list) < 24 {
			s2 := script
			list = append(list, &bt.UTXO{TxID: amountTxID, Vout: u.Vout, LockingScript: &s2, Satoshis: a})
		}
		done++
	}
	if len(list) > 0 {
		for _, f := range []func(bt.UTXOs) (error, error){rtUTXOsNode, rtUTXOsLib} {
			merr, v := f(list)
			if v != nil {
				return fmt.Errorf("amounts %d..: %v", c.Lo, v)
			}
			if merr != nil {
				ctx.Label("marshal_error:utxos")
			}
		}
	}
	if done == 0 {
		ctx.Discard("block above 21e14")
		return nil
	}
	ctx.Labelf("magnitude=1e%02d", digits(c.Lo))
	ctx.Labelf("block=%s", blockClass(done))
	if c.Lo+uint64(done) > 3 { // an amount that is not a trivially exact binary fraction of a coin
		ctx.NonTrivial()
	}
	pbt.SetExtra("amounts", "sum_amounts_checked", amountsSeen.add(int64(done)))
	return nil
}

type counter struct{ n int64 }

func (c *counter) add(d int64) int64 { c.n += d; return c.n }

var amountsSeen counter

func digits(v uint64) int {
	d := 0
	for v >= 10 {
		v /= 10
		d++
	}
	return d
}

func blockClass(n int) string {
	switch {
	case n == 1:
		return "1"
	case n <= 8:
		return "2-8"
	case n <= 64:
		return "9-64"
	}
	return ">64"
}

var amountScripts = [][]byte{
	ref.P2PKHScript(bytes.Repeat([]byte{0x42}, 20)),
	{0x51},
	{},
	{0x00, 0x6a, 0x02, 0xca, 0xfe},
}

func pow10(e int) uint64 {
	v := uint64(1)
	for i := 0; i < e; i++ {
		v *= 10
	}
	return v
}

// exhaustiveTop is the top of the completely enumerated low range.
func exhaustiveTop(tier string) uint64 {
	if tier == "thorough" {
		return 100_000_000
	}
	return 2_000_000
}

func enumAmounts(tier string, yield func(Amounts)) {
	top := exhaustiveTop(tier)
	const block = 2000
	i := 0
	for lo := uint64(0); lo <= top; lo += block {
		n := block
		if lo+uint64(n) > top+1 {
			n = int(top + 1 - lo)
		}
		c := Amounts{Lo: lo, N: n, Script: amountScripts[1]}
		if (i/12)%8 == 0 { // one block in eight carries a P2PKH script (asm + address rendering); spread evenly over 12 shards
			c.Script = amountScripts[0]
		}
		if lo >= 2_000_000 {
			c.LibEvery = 16
		}
		yield(c)
		i++
	}
	// every k*10^e -2..+2 up to 21e14
	for e := 0; e <= 15; e++ {
		p := pow10(e)
		for k := uint64(1); k <= 999; k++ {
			if k > MaxSats/p {
				break
			}
			v := k * p
			if v > MaxSats {
				break
			}
			lo := uint64(0)
			if v >= 2 {
				lo = v - 2
			}
			yield(Amounts{Lo: lo, N: int(v + 3 - lo), Script: amountScripts[(e+int(k))%len(amountScripts)]})
		}
	}
	// powers of two and the top of the range
	for sh := 1; sh <= 50; sh++ {
		yield(Amounts{Lo: uint64(1)<<uint(sh) - 2, N: 5, Script: amountScripts[1]})
	}
	yield(Amounts{Lo: MaxSats - 2000, N: 2001, Script: amountScripts[0]})
}

func genAmounts(t *rapid.T) Amounts {
	c := Amounts{N: rapid.IntRange(1, 12).Draw(t, "n")}
	switch rapid.IntRange(0, 4).Draw(t, "kind") {
	case 0: // uniform over the whole domain
		c.Lo = rapid.Uint64Range(0, MaxSats).Draw(t, "lo")
	case 1: // uniform mantissa at a drawn binary magnitude (up to 51 bits, clipped to the domain)
		bits := rapid.IntRange(1, 51).Draw(t, "bits")
		c.Lo = rapid.Uint64Range(0, uint64(1)<<uint(bits)-1).Draw(t, "lo")
	case 2: // decimal boundary: d digits times 10^e plus/minus a little
		e := rapid.IntRange(0, 15).Draw(t, "e")
		k := rapid.Uint64Range(1, 99999).Draw(t, "k")
		v := k * pow10(e)
		d := rapid.Uint64Range(0, 6).Draw(t, "delta")
		if v > d {
			v -= d
		}
		c.Lo = v
	case 3: // coin fractions: amounts that are short decimal coin values (x.xxxxxxxx with few digits)
		whole := rapid.Uint64Range(0, 20_999_999).Draw(t, "coins")
		frac := rapid.Uint64Range(0, 99_999_999).Draw(t, "frac")
		c.Lo = whole*100_000_000 + frac
	default: // just below the top
		c.Lo = MaxSats - rapid.Uint64Range(0, 1_000_000).Draw(t, "below")
	}
	if c.Lo > MaxSats {
		c.Lo = MaxSats
	}
	if rapid.IntRange(0, 3).Draw(t, "script_kind") == 0 {
		c.Script = gen.FillBytes(t, gen.EdgeLen(t, 300, "slen", 0, 1, 25, 75, 76, 255, 256), "script")
	} else {
		c.Script = amountScripts[rapid.IntRange(0, len(amountScripts)-1).Draw(t, "script")]
	}
	return c
}

func TestAmounts(t *testing.T) {
	pbt.Run(t, pbt.Sub[Amounts]{
		Name: "amounts", Quick: 120000, Thorough: 1500000,
		EnumDesc: fmt.Sprintf("every amount 0..%d (quick) / 0..%d (thorough; above 2e6 the library dialect sees every 16th amount, the node dialect all) in blocks of 2000; every k*10^e-2..k*10^e+2 for k=1..999, e=0..15 up to 21e14; 2^s-2..2^s+2 for s=1..50; 21e14-2000..21e14 - each through output.NodeJSON, utxo.NodeJSON, output and utxo library JSON, and (first 24 of a block) both UTXO list dialects", exhaustiveTop("quick"), exhaustiveTop("thorough")),
		Enum:     enumAmounts,
		Gen:      genAmounts,
		Check:    checkAmounts,
	})
}

// ---------------------------------------------------------------------------
// sub-check 2: objects at every build stage
// ---------------------------------------------------------------------------

// Obj is one to three transactions at one build stage.
//
//	model   : objects assembled field by field (ref.ToLib); unlocking scripts may be nil
//	decoded : NewTxFromBytes of the reference wire encoding of the model
//	built   : library-built: NewTx, From (inputs spend P2PKH outputs of Priv),
//	          AddOutput / AddP2PKHOutputFromPubKeyHashStr, then the first Signed[i]
//	          inputs of transaction i signed with unlocker.Simple
type Obj struct {
	Stage  string   `json:"stage"`
	Txs    []ref.Tx `json:"txs"`
	Priv   pbt.Hex  `json:"priv,omitempty"`
	Signed []int    `json:"signed,omitempty"`
}

func buildTx(c Obj, i int) (*bt.Tx, error) {
	m := c.Txs[i]
	switch c.Stage {
	case "model":
		return ref.ToLib(m), nil
	case "decoded":
		return bt.NewTxFromBytes(ref.Encode(m, false))
	case "built":
		priv, pub := bec.PrivKeyFromBytes(bec.S256(), c.Priv)
		lock := hex.EncodeToString(ref.P2PKHScript(ref.Hash160(pub.SerialiseCompressed())))
		tx := bt.NewTx()
		tx.Version, tx.LockTime = m.Version, m.LockTime
		for _, in := range m.In {
			if err := tx.From(hex.EncodeToString(in.TxID), in.Vout, lock, in.PrevSats); err != nil {
				return nil, err
			}
			tx.Inputs[len(tx.Inputs)-1].SequenceNumber = in.Seq
		}
		for _, o := range m.Out {
			if len(o.Script) == 25 && bytes.Equal(o.Script, ref.P2PKHScript(o.Script[3:23])) {
				if err := tx.AddP2PKHOutputFromPubKeyHashStr(hex.EncodeToString(o.Script[3:23]), o.Sats); err != nil {
					return nil, err
				}
				continue
			}
			tx.AddOutput(&bt.Output{Satoshis: o.Sats, LockingScript: bscript.NewFromBytes(append([]byte{}, o.Script...))})
		}
		n := 0
		if i < len(c.Signed) {
			n = c.Signed[i]
		}
		for k := 0; k < n && k < len(tx.Inputs); k++ {
			if err := tx.FillInput(context.Background(), &unlocker.Simple{PrivateKey: priv}, bt.UnlockerParams{InputIdx: uint32(k)}); err != nil {
				return nil, err
			}
		}
		return tx, nil
	}
	return nil, fmt.Errorf("unknown stage %q", c.Stage)
}

func checkObj(ctx *pbt.Ctx, c Obj) error {
	var txs bt.Txs
	for i := range c.Txs {
		if ref.Ambiguous(c.Txs[i]) {
			ctx.Discard("ambiguous empty shape (excluded by C01)")
			return nil
		}
		tx, err := buildTx(c, i)
		if err != nil {
			if c.Stage == "decoded" {
				// decoding is C01/C09's business; nothing to marshal
				ctx.Discard("reference encoding not decoded by the library")
				return nil
			}
			return fmt.Errorf("harness: cannot build case: %v", err)
		}
		txs = append(txs, tx)
	}
	merr := func(what string, err error) {
		if err != nil {
			ctx.Label("marshal_error:" + what)
		}
	}
	nilUnlock, signedIn, unsignedIn, nin, nout := 0, 0, 0, 0, 0
	for _, tx := range txs {
		// ---- the transaction itself, both dialects ----
		e, v := rtTxLib(tx)
		if v != nil {
			return v
		}
		merr("tx.lib", e)
		e, v = rtTxNode(tx)
		if v != nil {
			return v
		}
		merr("tx.node", e)
		// ---- its parts ----
		var utxos bt.UTXOs
		for _, in := range tx.Inputs {
			nin++
			if in.UnlockingScript == nil {
				nilUnlock++
			}
			if len(scriptBytes(in.UnlockingScript)) == 0 {
				unsignedIn++
			} else {
				signedIn++
			}
			e, v = rtInputLib(in)
			if v != nil {
				return v
			}
			merr("input.lib", e)
			// the output an input spends, as a UTXO (amount folded into the domain)
			ls := bscript.Script(append([]byte{}, scriptBytes(in.PreviousTxScript)...))
			u := &bt.UTXO{TxID: append([]byte{}, in.PreviousTxID()...), Vout: in.PreviousTxOutIndex, LockingScript: &ls, Satoshis: in.PreviousTxSatoshis % (MaxSats + 1), SequenceNumber: in.SequenceNumber}
			utxos = append(utxos, u)
			if len(utxos) <= 6 {
				e, v = rtUTXOLib(u)
				if v != nil {
					return v
				}
				merr("utxo.lib", e)
				e, v = rtUTXONode(u)
				if v != nil {
					return v
				}
				merr("utxo.node", e)
			}
		}
		e, v = rtUTXOsLib(utxos)
		if v != nil {
			return v
		}
		merr("utxos.lib", e)
		e, v = rtUTXOsNode(utxos)
		if v != nil {
			return v
		}
		merr("utxos.node", e)
		for k, out := range tx.Outputs {
			nout++
			if k >= 6 && k < len(tx.Outputs)-1 {
				continue // long lists: first six and the last one individually
			}
			o := &bt.Output{Satoshis: out.Satoshis % (MaxSats + 1), LockingScript: bscript.NewFromBytes(append([]byte{}, scriptBytes(out.LockingScript)...))}
			e, v = rtOutputLib(o)
			if v != nil {
				return v
			}
			merr("output.lib", e)
			e, v = rtOutputNode(o)
			if v != nil {
				return v
			}
			merr("output.node", e)
		}
	}
	// ---- lists of transactions ----
	e, v := rtTxsLib(txs)
	if v != nil {
		return v
	}
	merr("txs.lib", e)
	e, v = rtTxsNode(txs)
	if v != nil {
		return v
	}
	merr("txs.node", e)

	ctx.Labelf("txs=%d", len(txs))
	ctx.Labelf("inputs=%s", countClass(nin))
	ctx.Labelf("outputs=%s", countClass(nout))
	signing := "partially_signed"
	switch {
	case nin == 0:
		signing = "no_inputs"
	case signedIn == 0:
		signing = "unsigned"
	case unsignedIn == 0:
		signing = "fully_signed"
	}
	ctx.Label("stage=" + c.Stage + "/" + signing)
	if nilUnlock > 0 {
		ctx.Label("nil_unlocking_script")
	}
	if nin+nout > 0 {
		ctx.NonTrivial()
	}
	return nil
}

func countClass(n int) string {
	switch {
	case n == 0:
		return "0"
	case n <= 3:
		return "1-3"
	case n <= 20:
		return "4-20"
	}
	return ">20"
}

func genObj(t *rapid.T) Obj {
	c := Obj{Stage: rapid.SampledFrom([]string{"model", "model", "decoded", "built", "built"}).Draw(t, "stage")}
	ntx := rapid.SampledFrom([]int{1, 1, 1, 2, 3}).Draw(t, "ntx")
	opts := gen.DefaultTxOpts()
	if c.Stage == "built" {
		opts.BigCounts = nil
		opts.MinIn, opts.MaxIn = 0, 4
		c.Priv = gen.Bytes(t, 32, "priv")
		c.Priv[0] &= 0x7f
		c.Priv[31] |= 1
	}
	if ntx > 1 {
		opts.BigCounts = nil
	}
	for i := 0; i < ntx; i++ {
		m := gen.Tx(t, opts)
		for k := range m.Out {
			if rapid.IntRange(0, 3).Draw(t, "p2pkh_out") == 0 {
				m.Out[k].Script = ref.P2PKHScript(gen.Bytes(t, 20, "pkh"))
			}
			if rapid.IntRange(0, 7).Draw(t, "shaped_out") == 0 {
				m.Out[k].Script = shapedScript(t, "shaped") // template-shaped, numbers and parts disagreeing with what is there
			}
		}
		switch c.Stage {
		case "model":
			for k := range m.In {
				if rapid.IntRange(0, 2).Draw(t, "unlock_nil") == 0 {
					m.In[k].Unlock, m.In[k].UnlockNil = nil, true
				}
			}
		case "built":
			for k := range m.In {
				m.In[k].Unlock, m.In[k].PrevScript = nil, nil
			}
			s := 0
			switch rapid.IntRange(0, 2).Draw(t, "signing") {
			case 1:
				s = rapid.IntRange(0, len(m.In)).Draw(t, "signed")
			case 2:
				s = len(m.In)
			}
			c.Signed = append(c.Signed, s)
		}
		if ref.Ambiguous(m) {
			m.LockTime = 0
		}
		c.Txs = append(c.Txs, m)
	}
	return c
}

func TestObjects(t *testing.T) {
	pbt.Run(t, pbt.Sub[Obj]{
		Name: "objects", Quick: 36000, Thorough: 600000,
		Gen:   genObj,
		Check: checkObj,
	})
}
