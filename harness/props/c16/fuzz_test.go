package c16

import (
	"testing"

	"verif/harness/pbt"
)

// FuzzObjects (thorough tier): Go's native coverage-guided fuzzer drives the `objects` generator
// (rapid.MakeFuzz); same round-trip oracle as `objects`.
func FuzzObjects(f *testing.F) {
	pbt.FuzzSub(f, "C16", pbt.Sub[Obj]{Name: "objects", Gen: genObj, Check: checkObj})
}
