package c16

import (
	"encoding/json"
	"fmt"
	"sort"
	"testing"

	"github.com/libsv/go-bt/v2"
	"pgregory.net/rapid"

	"verif/harness/conc"
	"verif/harness/pbt"
	"verif/harness/ref"
)

// ConcCase: marshalling reads the object, so several goroutines may marshal one shared
// transaction (and its outputs, and a list holding it) in both dialects at once. Every text must be
// the one the same call gives alone on a private copy - which the other sub-checks judge by round
// trip - and must itself unmarshal to the model. Schedule dependent: listed in FLAKY_SUBS.txt.
type ConcCase struct {
	Tx         ref.Tx `json:"tx"`
	Goroutines int    `json:"goroutines"`
	Rounds     int    `json:"rounds"`
}

func checkConcurrent(ctx *pbt.Ctx, c ConcCase) error {
	m := c.Tx
	if c.Goroutines < 2 || c.Goroutines > 16 || c.Rounds < 1 || c.Rounds > 200 || ref.Ambiguous(m) {
		ctx.Discard("malformed case")
		return nil
	}
	for _, in := range m.In {
		if len(in.TxID) != 32 {
			ctx.Discard("txid length")
			return nil
		}
	}
	texts := func(tx *bt.Tx) (map[string][]byte, error) {
		o := map[string][]byte{}
		var err error
		if o["json.Marshal(tx)"], err = json.Marshal(tx); err != nil {
			return nil, err
		}
		if o["json.Marshal(tx.NodeJSON())"], err = json.Marshal(tx.NodeJSON()); err != nil {
			return nil, err
		}
		l := bt.Txs{tx, tx}
		if o["json.Marshal(txs)"], err = json.Marshal(l); err != nil {
			return nil, err
		}
		if o["json.Marshal(txs.NodeJSON())"], err = json.Marshal(l.NodeJSON()); err != nil {
			return nil, err
		}
		if len(tx.Outputs) > 0 {
			if o["json.Marshal(output)"], err = json.Marshal(tx.Outputs[0]); err != nil {
				return nil, err
			}
			if o["json.Marshal(output.NodeJSON())"], err = json.Marshal(tx.Outputs[0].NodeJSON()); err != nil {
				return nil, err
			}
		}
		return o, nil
	}
	want, err := texts(ref.ToLib(m))
	if err != nil {
		ctx.Label("marshal_error")
		return nil // allowed by the statement; counted
	}
	shared := ref.ToLib(m)
	ctx.After(ref.Intact(shared))
	var calls []conc.Call
	names := make([]string, 0, len(want))
	for name := range want {
		names = append(names, name)
	}
	sort.Strings(names)
	for _, name := range names {
		name := name
		calls = append(calls, conc.Call{Name: name, F: func() ([]byte, error) {
			t, err := texts(shared)
			if err != nil {
				return nil, err
			}
			return t[name], nil
		}, Want: want[name]})
	}
	if err := conc.Readers(calls, c.Goroutines, c.Rounds); err != nil {
		return err
	}
	var back bt.Tx
	if err := json.Unmarshal(want["json.Marshal(tx)"], &back); err != nil || !ref.SameWire(ref.FromLib(&back), m, false) {
		return fmt.Errorf("library JSON of the transaction does not unmarshal to it: %v", err)
	}
	if after := ref.FromLib(shared); !ref.SameWire(after, m, true) {
		return fmt.Errorf("the transaction changed while %d goroutines marshalled it", c.Goroutines)
	}
	ctx.Labelf("goroutines=%d", c.Goroutines)
	ctx.NonTrivial()
	return nil
}

func TestConcurrent(t *testing.T) {
	pbt.Run(t, pbt.Sub[ConcCase]{
		Name: "concurrent", Quick: 1200, Thorough: 24000,
		Gen: func(t *rapid.T) ConcCase {
			return ConcCase{Tx: genHistTxModel(t, "ctx"), Goroutines: rapid.SampledFrom([]int{2, 3, 4, 8}).Draw(t, "goroutines"), Rounds: rapid.SampledFrom([]int{3, 10, 30}).Draw(t, "rounds")}
		},
		Check: checkConcurrent,
	})
}
