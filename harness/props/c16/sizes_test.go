package c16

import (
	"bytes"
	"encoding/hex"
	"encoding/json"
	"fmt"
	"runtime/debug"
	"testing"

	"github.com/libsv/go-bt/v2"

	"verif/harness/pbt"
	"verif/harness/ref"
)

// ---------------------------------------------------------------------------
// sub-check 6: the size class of the document.
//
// A handful of ENUMERATED very large transactions - one input, one data output
// (OP_FALSE OP_RETURN + one push) of 1 MiB, 16 MiB, 32 MiB - 100, 32 MiB + 1,
// 40 MiB (thorough also 64 MiB) and a P2PKH output - go through the round trip
// of both transaction dialects: marshal, unmarshal into a new transaction,
// identical serialisation and txid (reference encoder / double SHA-256). The
// JSON of such a transaction is several times its size, so the cases run one
// after the other in shard 0 only, with the collector kept tight.
// ---------------------------------------------------------------------------

// Sized is one case.
type Sized struct {
	DataLen int    `json:"data_len"` // bytes pushed by the data output
	Dialect string `json:"dialect"`  // lib | node
}

func checkSized(ctx *pbt.Ctx, c Sized) error {
	if c.DataLen < 0 || c.DataLen > 80<<20 || (c.Dialect != "lib" && c.Dialect != "node") {
		ctx.Discard("outside domain")
		return nil
	}
	old := debug.SetGCPercent(100)
	defer func() {
		debug.SetGCPercent(old)
		debug.FreeOSMemory()
	}()
	script := make([]byte, 0, c.DataLen+8)
	script = append(script, 0x00, 0x6a, 0x4e, byte(c.DataLen), byte(c.DataLen>>8), byte(c.DataLen>>16), byte(c.DataLen>>24))
	for i := 0; i < c.DataLen; i++ {
		script = append(script, byte(i*31+i>>8))
	}
	m := ref.Tx{Version: 2, LockTime: 7,
		In:  []ref.In{{TxID: bytes.Repeat([]byte{0x5e}, 32), Vout: 1, Seq: 0xfffffffe, Unlock: pbt.Hex{0x51}}},
		Out: []ref.Out{{Sats: 0, Script: script}, {Sats: 12345, Script: ref.P2PKHScript(bytes.Repeat([]byte{0x42}, 20))}}}
	want := ref.Encode(m, false)
	wantID := hex.EncodeToString(ref.Reverse(ref.Sha256d(want)))
	tx := ref.ToLib(m)
	var v interface{} = tx
	if c.Dialect == "node" {
		v = tx.NodeJSON()
	}
	js, err := json.Marshal(v)
	if err != nil {
		ctx.Label("marshal_error:" + c.Dialect)
		return nil
	}
	g := bt.NewTx()
	if c.Dialect == "node" {
		err = json.Unmarshal(js, g.NodeJSON())
	} else {
		err = json.Unmarshal(js, g)
	}
	what := fmt.Sprintf("transaction of %d bytes (data push of %d bytes), %s JSON of %d bytes", len(want), c.DataLen, c.Dialect, len(js))
	js = nil
	if err != nil {
		return fmt.Errorf("%s does not unmarshal: %v", what, err)
	}
	got := g.Bytes()
	if !bytes.Equal(got, want) {
		n := len(got)
		if n > 64 {
			n = 64
		}
		return fmt.Errorf("%s: the unmarshalled transaction serialises to %d bytes (%x..), %d inputs and %d outputs; marshalled were %d bytes, 1 input and 2 outputs",
			what, len(got), got[:n], len(g.Inputs), len(g.Outputs), len(want))
	}
	if g.TxID() != wantID {
		return fmt.Errorf("%s: txid %s came back as %s", what, wantID, g.TxID())
	}
	ctx.Labelf("%s:%s", c.Dialect, sizedClass(c.DataLen))
	ctx.NonTrivial()
	return nil
}

func sizedClass(n int) string {
	switch {
	case n <= 1<<20:
		return "1MiB"
	case n <= 16<<20:
		return "16MiB"
	case n <= 32<<20:
		return "just-below-32MiB"
	case n <= 32<<20+1:
		return "32MiB+1"
	case n <= 40<<20:
		return "40MiB"
	}
	return "64MiB"
}

// sizedCases: the quick tier keeps to what costs a few seconds (the 32 MiB transactions take
// about 4 CPU-s in the library dialect and 8 in the node dialect each); everything above the
// 32 MiB line runs in the thorough tier.
func sizedCases(tier string) []Sized {
	if tier != "thorough" {
		return []Sized{{1 << 20, "lib"}, {1 << 20, "node"}, {32<<20 + 1, "lib"}}
	}
	var l []Sized
	for _, n := range []int{1 << 20, 16 << 20, 32<<20 - 100, 32<<20 + 1, 40 << 20, 64 << 20} {
		l = append(l, Sized{n, "lib"}, Sized{n, "node"})
	}
	return l
}

func TestSizes(t *testing.T) {
	pbt.Run(t, pbt.Sub[Sized]{
		Name:     "sizes",
		Check:    checkSized,
		EnumDesc: "one transaction with a data output pushing 1 MiB (both dialects) and 32 MiB + 1 bytes (library dialect) in the quick tier; 1 MiB, 16 MiB, 32 MiB - 100, 32 MiB + 1, 40 MiB, 64 MiB through both dialects in the thorough tier; all in shard 0, one after the other",
		Enum: func(tier string, yield func(Sized)) {
			shard, shards := pbt.Shard()
			if shard != 0 {
				return // memory: these cases run in one process only
			}
			for _, c := range sizedCases(tier) {
				yield(c) // index = 0 mod shards: runs here
				for k := 1; k < shards; k++ {
					yield(Sized{DataLen: -1}) // placeholders for the other shards' indexes (never run)
				}
			}
		},
	})
}
