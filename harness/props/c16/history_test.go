package c16

import (
	"bytes"
	"context"
	"encoding/hex"
	"encoding/json"
	"fmt"
	"testing"

	"github.com/libsv/go-bk/bec"
	"github.com/libsv/go-bt/v2"
	"github.com/libsv/go-bt/v2/bscript"
	"github.com/libsv/go-bt/v2/unlocker"
	"pgregory.net/rapid"

	"verif/harness/gen"
	"verif/harness/pbt"
	"verif/harness/ref"
)

// ---------------------------------------------------------------------------
// sub-check 3: histories.
//
// ONE library object (a transaction, an output or a UTXO) lives through a
// generated sequence of 2..9 steps: it is marshalled (either dialect; on its
// own, inside a list, one of its outputs on its own), edited in place through
// its exported fields and methods (amounts, script bytes replaced / flipped /
// appended, outputs and inputs added and removed, sequence numbers, unlocking
// scripts set, removed or produced by signing, version, lock time), queried
// (TxID, Bytes, Clone) and marshalled again. Every edit is applied to the
// independent model as well. After EVERY marshal step the JSON is unmarshalled
// - into a fresh object, into an object already populated with other content,
// or into the object the previous step unmarshalled into - and the result must
// be the model as it stands at that moment. All JSON texts and all objects
// that were unmarshalled into (and not reused since) are kept and compared
// with their snapshot once more after the last step.
// ---------------------------------------------------------------------------

// UModel is the model of a stand-alone output (Sats, Script) or UTXO (all four).
type UModel struct {
	TxID   pbt.Hex `json:"txid,omitempty"`
	Vout   uint32  `json:"vout,omitempty"`
	Sats   uint64  `json:"sats"`
	Script pbt.Hex `json:"script"`
}

// HStep is one step of a history.
type HStep struct {
	Op      string  `json:"op"`
	I       int     `json:"i,omitempty"`
	U64     uint64  `json:"u64,omitempty"`
	U32     uint32  `json:"u32,omitempty"`
	B       pbt.Hex `json:"b,omitempty"`
	Flag    bool    `json:"flag,omitempty"`
	Dialect string  `json:"dialect,omitempty"` // marshal: lib | node
	Form    string  `json:"form,omitempty"`    // marshal: self | list | out
	Into    string  `json:"into,omitempty"`    // marshal: fresh | stale | prev
	// Wrap (node dialect): "kept" = marshal through the wrapper value NodeJSON() returned at an
	// earlier step for the same object (and, with Into prev, unmarshal through the wrapper the
	// previous step used for that target); otherwise a new NodeJSON() value is taken.
	Wrap string `json:"wrap,omitempty"`
}

// Hist is a history of one object.
type Hist struct {
	Kind     string  `json:"kind"` // tx | output | utxo
	Tx       ref.Tx  `json:"tx"`
	StaleTx  ref.Tx  `json:"stale_tx"`
	Obj      UModel  `json:"obj"`
	StaleObj UModel  `json:"stale_obj"`
	Priv     pbt.Hex `json:"priv,omitempty"`
	Steps    []HStep `json:"steps"`
}

func cloneModel(m ref.Tx) ref.Tx {
	c := ref.Tx{Version: m.Version, LockTime: m.LockTime}
	for _, in := range m.In {
		in.TxID = append(pbt.Hex{}, in.TxID...)
		in.Unlock = append(pbt.Hex{}, in.Unlock...)
		in.PrevScript = append(pbt.Hex{}, in.PrevScript...)
		c.In = append(c.In, in)
	}
	for _, o := range m.Out {
		o.Script = append(pbt.Hex{}, o.Script...)
		c.Out = append(c.Out, o)
	}
	return c
}

func cloneU(u UModel) UModel {
	return UModel{TxID: append(pbt.Hex{}, u.TxID...), Vout: u.Vout, Sats: u.Sats, Script: append(pbt.Hex{}, u.Script...)}
}

// sameTxAsModel: the library object g is the transaction the model describes -
// serialisation, id, every field, judged by the independent codec.
func sameTxAsModel(what string, g *bt.Tx, m ref.Tx) error {
	if g == nil {
		return fmt.Errorf("%s: nil transaction", what)
	}
	want := ref.Encode(m, false)
	if got := g.Bytes(); !bytes.Equal(got, want) {
		return fmt.Errorf("%s: serialisation is %x, the transaction at that moment serialises to %x", what, got, want)
	}
	if id := hex.EncodeToString(ref.Reverse(ref.Sha256d(want))); g.TxID() != id {
		return fmt.Errorf("%s: txid is %s, the transaction at that moment has %s", what, g.TxID(), id)
	}
	if r := ref.FromLib(g); !ref.SameWire(r, m, false) {
		return fmt.Errorf("%s: fields are %+v, the transaction at that moment is %+v", what, r, m)
	}
	for i, o := range g.Outputs {
		if o.LockingScript == nil {
			return fmt.Errorf("%s: output %d has no locking script", what, i)
		}
	}
	return nil
}

func sameOutputAsModel(what string, g *bt.Output, m UModel) error {
	if g == nil {
		return fmt.Errorf("%s: nil output", what)
	}
	if g.Satoshis != m.Sats {
		return fmt.Errorf("%s: %d satoshis, the output at that moment has %d", what, g.Satoshis, m.Sats)
	}
	if g.LockingScript == nil || !bytes.Equal(*g.LockingScript, m.Script) {
		return fmt.Errorf("%s: locking script %x, the output at that moment has %x", what, scriptBytes(g.LockingScript), []byte(m.Script))
	}
	want := append(append(le64(m.Sats), ref.VarInt(uint64(len(m.Script)))...), m.Script...)
	if got := g.Bytes(); !bytes.Equal(got, want) {
		return fmt.Errorf("%s: serialisation %x, the output at that moment serialises to %x", what, got, want)
	}
	return nil
}

func le64(v uint64) []byte {
	b := make([]byte, 8)
	for i := range b {
		b[i] = byte(v >> (8 * uint(i)))
	}
	return b
}

func sameUTXOAsModel(what string, g *bt.UTXO, m UModel) error {
	if g == nil {
		return fmt.Errorf("%s: nil utxo", what)
	}
	if g.Satoshis != m.Sats || g.Vout != m.Vout || !bytes.Equal(g.TxID, m.TxID) || !sameBytes(scriptBytes(g.LockingScript), m.Script) {
		return fmt.Errorf("%s: {%x:%d %d sat %x}, the utxo at that moment is {%x:%d %d sat %x}", what,
			g.TxID, g.Vout, g.Satoshis, scriptBytes(g.LockingScript), []byte(m.TxID), m.Vout, m.Sats, []byte(m.Script))
	}
	return nil
}

func libOutput(m UModel) *bt.Output {
	return &bt.Output{Satoshis: m.Sats, LockingScript: bscript.NewFromBytes(append([]byte{}, m.Script...))}
}

func libUTXO(m UModel) *bt.UTXO {
	return &bt.UTXO{TxID: append([]byte{}, m.TxID...), Vout: m.Vout, Satoshis: m.Sats, LockingScript: bscript.NewFromBytes(append([]byte{}, m.Script...)), SequenceNumber: 7}
}

// kept is one marshal step's output: the JSON, what it must describe, and the
// object it was unmarshalled into (nil once a later step reused that object).
type kept struct {
	step    int
	dialect string
	form    string
	js      []byte
	tx      []ref.Tx // form self (1) / list (1..2)
	obj     UModel   // form out / output / utxo
	objs    []UModel // utxo list
	gTx     *bt.Tx
	gTxs    *bt.Txs
	gOut    *bt.Output
	gUTXO   *bt.UTXO
	gUTXOs  *bt.UTXOs
	wrap    interface{} // node dialect: the NodeJSON() value the target was unmarshalled through
	rewrap  bool        // unmarshal through the previous record's wrapper value when the previous target is reused
}

func (k *kept) verify(when string) error {
	what := fmt.Sprintf("%s: step %d (%s %s JSON)", when, k.step, k.form, k.dialect)
	switch {
	case k.gTx != nil:
		return sameTxAsModel(what, k.gTx, k.tx[0])
	case k.gTxs != nil:
		g := *k.gTxs
		if len(g) != len(k.tx) {
			return fmt.Errorf("%s: %d transactions, %d were marshalled", what, len(g), len(k.tx))
		}
		for i := range g {
			if err := sameTxAsModel(fmt.Sprintf("%s[%d]", what, i), g[i], k.tx[i]); err != nil {
				return err
			}
		}
	case k.gOut != nil:
		return sameOutputAsModel(what, k.gOut, k.obj)
	case k.gUTXO != nil:
		return sameUTXOAsModel(what, k.gUTXO, k.obj)
	case k.gUTXOs != nil:
		g := *k.gUTXOs
		if len(g) != len(k.objs) {
			return fmt.Errorf("%s: %d utxos, %d were marshalled", what, len(g), len(k.objs))
		}
		for i := range g {
			if err := sameUTXOAsModel(fmt.Sprintf("%s[%d]", what, i), g[i], k.objs[i]); err != nil {
				return err
			}
		}
	}
	return nil
}

// unmarshal decodes k.js into the target selected by into (prev = the target
// of the latest kept record of the same form and dialect family) and verifies.
func (k *kept) unmarshal(c Hist, into string, prev *kept) error {
	node := k.dialect == "node"
	var err error
	var pw interface{} // the wrapper value the previous step used for the target that is reused now
	if node && k.rewrap && into == "prev" && prev != nil {
		pw = prev.wrap
	}
	switch k.form {
	case "self":
		if c.Kind == "tx" {
			g := bt.NewTx()
			switch {
			case into == "stale":
				g = ref.ToLib(c.StaleTx)
			case into == "prev" && prev != nil && prev.gTx != nil:
				g, prev.gTx = prev.gTx, nil
			}
			err = k.decode(node, g, g.NodeJSON(), pw)
			k.gTx = g
		} else if c.Kind == "output" {
			g := &bt.Output{}
			switch {
			case into == "stale":
				g = libOutput(c.StaleObj)
			case into == "prev" && prev != nil && prev.gOut != nil:
				g, prev.gOut = prev.gOut, nil
			}
			err = k.decode(node, g, g.NodeJSON(), pw)
			k.gOut = g
		} else {
			g := &bt.UTXO{}
			switch {
			case into == "stale":
				g = libUTXO(c.StaleObj)
			case into == "prev" && prev != nil && prev.gUTXO != nil:
				g, prev.gUTXO = prev.gUTXO, nil
			}
			err = k.decode(node, g, g.NodeJSON(), pw)
			k.gUTXO = g
		}
	case "out":
		g := &bt.Output{}
		switch {
		case into == "stale":
			g = libOutput(c.StaleObj)
		case into == "prev" && prev != nil && prev.gOut != nil:
			g, prev.gOut = prev.gOut, nil
		}
		err = k.decode(node, g, g.NodeJSON(), pw)
		k.gOut = g
	case "list":
		if c.Kind == "tx" {
			g := new(bt.Txs)
			switch {
			case into == "stale":
				*g = bt.Txs{ref.ToLib(c.StaleTx), ref.ToLib(c.StaleTx), ref.ToLib(c.StaleTx)}
			case into == "prev" && prev != nil && prev.gTxs != nil:
				g, prev.gTxs = prev.gTxs, nil
			}
			err = k.decode(node, g, g.NodeJSON(), pw)
			k.gTxs = g
		} else {
			g := new(bt.UTXOs)
			switch {
			case into == "stale":
				// a used list: its elements share one script object and one txid slice
				su := libUTXO(c.StaleObj)
				*g = bt.UTXOs{su, {TxID: su.TxID, Vout: 1, LockingScript: su.LockingScript, Satoshis: 2}, {TxID: su.TxID, Vout: 2, LockingScript: su.LockingScript, Satoshis: 3}}
			case into == "prev" && prev != nil && prev.gUTXOs != nil:
				g, prev.gUTXOs = prev.gUTXOs, nil
			}
			err = k.decode(node, g, g.NodeJSON(), pw)
			k.gUTXOs = g
		}
	}
	if err != nil {
		return fmt.Errorf("step %d: %s %s JSON does not unmarshal (%s target): %v (JSON %s)", k.step, k.form, k.dialect, into, err, clip(k.js))
	}
	return k.verify("unmarshalled into a " + into + " target")
}

// decode unmarshals k.js into g: library dialect directly, node dialect through a
// NodeJSON() wrapper value - a new one, or the kept one of the reused target.
func (k *kept) decode(node bool, g, fresh, kept interface{}) error {
	if !node {
		return json.Unmarshal(k.js, g)
	}
	k.wrap = fresh
	if kept != nil {
		k.wrap = kept
	}
	return json.Unmarshal(k.js, k.wrap)
}

// fresh returns a copy of the record whose target is a new empty object (used
// to decode the kept JSON text once more after the last step).
func (k *kept) again(c Hist) error {
	r := *k
	r.gTx, r.gTxs, r.gOut, r.gUTXO, r.gUTXOs = nil, nil, nil, nil, nil
	if err := r.unmarshal(c, "fresh", nil); err != nil {
		return fmt.Errorf("JSON text kept since step %d decoded after the last step: %v", k.step, err)
	}
	return nil
}

// ---------------------------------------------------------------------------
// the caller USES what it decoded: the object an unmarshal step produced is the
// caller's own, so it is completed / edited in place through the exported
// pointers with the library's own builder methods (scripts appended to with
// AppendPushData / AppendOpcodes, amounts changed, an output added, a txid byte
// flipped). No later unmarshal of any document may be affected. Every edit is
// undone when the case ends (the harness restores lengths and values through the
// same pointers), so that cases stay independent of each other.

// wrapSet keeps, per library object (or list variable), the value its NodeJSON() returned
// first: wrapper values are objects too, a program may hold on to one and marshal through it
// again after the object has changed.
type wrapSet map[interface{}]interface{}

func (w wrapSet) of(ctx *pbt.Ctx, s HStep, obj interface{}, fresh func() interface{}) interface{} {
	if s.Wrap == "kept" {
		if v, ok := w[obj]; ok {
			ctx.Label("wrapper:kept-value-marshalled-again")
			return v
		}
	}
	v := fresh()
	if _, ok := w[obj]; !ok {
		w[obj] = v
	}
	return v
}

type undoList []func()

func (u *undoList) run() {
	for i := len(*u) - 1; i >= 0; i-- {
		(*u)[i]()
	}
}

func useScript(sp *bscript.Script, b []byte, undo *undoList) {
	if sp == nil {
		return
	}
	n := len(*sp)
	*undo = append(*undo, func() { *sp = (*sp)[:n] })
	_ = sp.AppendPushData(b)
	_ = sp.AppendOpcodes(bscript.OpCHECKSIG)
}

func useTx(g *bt.Tx, s HStep, undo *undoList) {
	if g == nil {
		return
	}
	for _, o := range g.Outputs {
		if o == nil {
			continue
		}
		o := o
		old := o.Satoshis
		*undo = append(*undo, func() { o.Satoshis = old })
		o.Satoshis += s.U64 | 1
		useScript(o.LockingScript, s.B, undo)
	}
	for _, in := range g.Inputs {
		if in != nil {
			useScript(in.UnlockingScript, s.B, undo)
		}
	}
	nout, ver := len(g.Outputs), g.Version
	*undo = append(*undo, func() { g.Outputs, g.Version = g.Outputs[:nout], ver })
	g.AddOutput(&bt.Output{Satoshis: 1, LockingScript: bscript.NewFromBytes([]byte{0x51})})
	g.Version++
}

func useOutput(g *bt.Output, s HStep, undo *undoList) {
	if g == nil {
		return
	}
	old := g.Satoshis
	*undo = append(*undo, func() { g.Satoshis = old })
	g.Satoshis += s.U64 | 1
	useScript(g.LockingScript, s.B, undo)
}

func useUTXO(g *bt.UTXO, s HStep, undo *undoList) {
	if g == nil {
		return
	}
	old, vout := g.Satoshis, g.Vout
	*undo = append(*undo, func() { g.Satoshis, g.Vout = old, vout })
	g.Satoshis += s.U64 | 1
	g.Vout++
	if len(g.TxID) > 0 {
		id := g.TxID
		*undo = append(*undo, func() { id[0] ^= 0xff })
		id[0] ^= 0xff
	}
	useScript(g.LockingScript, s.B, undo)
}

// use edits the object record k was unmarshalled into; the record keeps its JSON
// text but no longer its object. It reports whether there was an object.
func (k *kept) use(s HStep, undo *undoList) bool {
	switch {
	case k.gTx != nil:
		useTx(k.gTx, s, undo)
	case k.gTxs != nil:
		for _, g := range *k.gTxs {
			useTx(g, s, undo)
		}
	case k.gOut != nil:
		useOutput(k.gOut, s, undo)
	case k.gUTXO != nil:
		useUTXO(k.gUTXO, s, undo)
	case k.gUTXOs != nil:
		for _, g := range *k.gUTXOs {
			useUTXO(g, s, undo)
		}
	default:
		return false
	}
	k.gTx, k.gTxs, k.gOut, k.gUTXO, k.gUTXOs = nil, nil, nil, nil, nil
	return true
}

// useStep is the history step "use": the I-th (mod) record that still has its object.
func useStep(ctx *pbt.Ctx, held []*kept, s HStep, undo *undoList) {
	var live []*kept
	for _, k := range held {
		if k.gTx != nil || k.gTxs != nil || k.gOut != nil || k.gUTXO != nil || k.gUTXOs != nil {
			live = append(live, k)
		}
	}
	if len(live) == 0 {
		ctx.Label("use:nothing-decoded-yet")
		return
	}
	k := live[s.I%len(live)]
	k.use(s, undo)
	ctx.Label("use:" + k.form + "." + k.dialect)
}

func checkHist(ctx *pbt.Ctx, c Hist) error {
	if len(c.Steps) < 2 {
		ctx.Discard("malformed case")
		return nil
	}
	switch c.Kind {
	case "tx":
		return histTx(ctx, c)
	case "output", "utxo":
		return histObj(ctx, c)
	}
	ctx.Discard("malformed case")
	return nil
}

func lastOf(held []*kept, form string, pick func(*kept) bool) *kept {
	for i := len(held) - 1; i >= 0; i-- {
		if held[i].form == form && pick(held[i]) {
			return held[i]
		}
	}
	return nil
}

func histTx(ctx *pbt.Ctx, c Hist) error {
	if ref.Ambiguous(c.Tx) || ref.Ambiguous(c.StaleTx) {
		ctx.Discard("ambiguous empty shape (excluded by C01)")
		return nil
	}
	for _, in := range append(append([]ref.In{}, c.Tx.In...), c.StaleTx.In...) {
		if len(in.TxID) != 32 {
			ctx.Discard("outside domain")
			return nil
		}
	}
	var priv *bec.PrivateKey
	var lock []byte
	if len(c.Priv) == 32 {
		var pub *bec.PublicKey
		priv, pub = bec.PrivKeyFromBytes(bec.S256(), c.Priv)
		lock = ref.P2PKHScript(ref.Hash160(pub.SerialiseCompressed()))
	}
	m := cloneModel(c.Tx)
	tx := ref.ToLib(m)
	var held []*kept
	var undo undoList
	defer undo.run()
	wraps := wrapSet{}
	listVars := map[bool]*bt.Txs{}
	marshals, editsBetween, editedSinceMarshal, staleTargets := 0, 0, false, 0
	for si, s := range c.Steps {
		nout, nin := len(m.Out), len(m.In)
		switch s.Op {
		case "use":
			useStep(ctx, held, s, &undo)
			continue
		case "version":
			m.Version, tx.Version = s.U32, s.U32
		case "locktime":
			m.LockTime, tx.LockTime = s.U32, s.U32
		case "out.sats":
			if nout > 0 {
				i := s.I % nout
				m.Out[i].Sats, tx.Outputs[i].Satoshis = s.U64, s.U64
			}
		case "out.script":
			if nout > 0 {
				i := s.I % nout
				m.Out[i].Script = append(pbt.Hex{}, s.B...)
				tx.Outputs[i].LockingScript = bscript.NewFromBytes(append([]byte{}, s.B...))
			}
		case "out.flip": // one byte of the script changed in place (same object, same length)
			if nout > 0 {
				i := s.I % nout
				if l := len(m.Out[i].Script); l > 0 {
					k := int(s.U32 % uint32(l))
					m.Out[i].Script[k] ^= 0x55
					(*tx.Outputs[i].LockingScript)[k] ^= 0x55
				}
			}
		case "out.append": // the script grows in place
			if nout > 0 {
				i := s.I % nout
				m.Out[i].Script = append(m.Out[i].Script, s.B...)
				*tx.Outputs[i].LockingScript = append(*tx.Outputs[i].LockingScript, s.B...)
			}
		case "out.add":
			m.Out = append(m.Out, ref.Out{Sats: s.U64, Script: append(pbt.Hex{}, s.B...)})
			tx.AddOutput(&bt.Output{Satoshis: s.U64, LockingScript: bscript.NewFromBytes(append([]byte{}, s.B...))})
		case "out.del":
			if nout > 0 {
				i := s.I % nout
				m.Out = append(m.Out[:i:i], m.Out[i+1:]...)
				tx.Outputs = append(tx.Outputs[:i:i], tx.Outputs[i+1:]...)
			}
		case "out.swap": // same count, other order
			if nout > 1 {
				i := s.I % (nout - 1)
				m.Out[i], m.Out[i+1] = m.Out[i+1], m.Out[i]
				tx.Outputs[i], tx.Outputs[i+1] = tx.Outputs[i+1], tx.Outputs[i]
			}
		case "in.add": // through Tx.From, spending a P2PKH output of Priv
			if priv == nil || len(s.B) != 32 {
				break
			}
			if err := tx.From(hex.EncodeToString(s.B), s.U32, hex.EncodeToString(lock), s.U64); err != nil {
				return fmt.Errorf("harness: step %d From: %v", si, err)
			}
			m.In = append(m.In, ref.In{TxID: append(pbt.Hex{}, s.B...), Vout: s.U32, Seq: 0xffffffff, PrevSats: s.U64, PrevScript: append(pbt.Hex{}, lock...), UnlockNil: true})
		case "in.del":
			if nin > 0 {
				i := s.I % nin
				m.In = append(m.In[:i:i], m.In[i+1:]...)
				tx.Inputs = append(tx.Inputs[:i:i], tx.Inputs[i+1:]...)
			}
		case "in.seq":
			if nin > 0 {
				i := s.I % nin
				m.In[i].Seq, tx.Inputs[i].SequenceNumber = s.U32, s.U32
			}
		case "in.vout":
			if nin > 0 {
				i := s.I % nin
				m.In[i].Vout, tx.Inputs[i].PreviousTxOutIndex = s.U32, s.U32
			}
		case "in.unlock":
			if nin > 0 {
				i := s.I % nin
				if s.Flag {
					m.In[i].Unlock, m.In[i].UnlockNil, tx.Inputs[i].UnlockingScript = nil, true, nil
				} else {
					m.In[i].Unlock, m.In[i].UnlockNil = append(pbt.Hex{}, s.B...), false
					tx.Inputs[i].UnlockingScript = bscript.NewFromBytes(append([]byte{}, s.B...))
				}
			}
		case "in.sign": // unlocker.Simple on an input added by in.add; the model takes the script the library wrote
			if nin > 0 && priv != nil {
				i := s.I % nin
				if !bytes.Equal(m.In[i].PrevScript, lock) || m.In[i].PrevNil {
					ctx.Label("sign:not-signable")
					break
				}
				if err := tx.FillInput(context.Background(), &unlocker.Simple{PrivateKey: priv}, bt.UnlockerParams{InputIdx: uint32(i)}); err != nil {
					return fmt.Errorf("harness: step %d FillInput: %v", si, err)
				}
				if tx.Inputs[i].UnlockingScript == nil || len(*tx.Inputs[i].UnlockingScript) == 0 {
					return fmt.Errorf("harness: step %d FillInput left no unlocking script", si)
				}
				m.In[i].Unlock, m.In[i].UnlockNil = append(pbt.Hex{}, *tx.Inputs[i].UnlockingScript...), false
				ctx.Label("sign:signed")
			}
		case "query": // TxID / Bytes / Clone in between
			if ref.Ambiguous(m) {
				break
			}
			if err := sameTxAsModel(fmt.Sprintf("step %d: the object itself", si), tx, m); err != nil {
				return err
			}
			if s.Flag {
				cl := tx.Clone()
				if err := sameTxAsModel(fmt.Sprintf("step %d: Clone()", si), cl, m); err != nil {
					return err
				}
				if s.U32&1 == 1 { // the history continues on the clone
					tx = cl
					ctx.Label("continued-on-clone")
				}
			}
		case "marshal":
			if ref.Ambiguous(m) {
				ctx.Label("skipped:ambiguous-shape")
				continue
			}
			k := &kept{step: si, dialect: s.Dialect, form: s.Form, rewrap: s.Wrap == "kept"}
			var v interface{}
			node := s.Dialect == "node"
			switch s.Form {
			case "self":
				k.tx = []ref.Tx{cloneModel(m)}
				v = tx
				if node {
					v = wraps.of(ctx, s, tx, tx.NodeJSON)
				}
			case "list":
				// the list VARIABLE lives as long as the history, so that a kept txs.NodeJSON()
				// value (a pointer to it) describes the list as it stands
				lp := listVars[s.Flag]
				if lp == nil {
					lp = new(bt.Txs)
					listVars[s.Flag] = lp
				}
				*lp = bt.Txs{tx}
				k.tx = []ref.Tx{cloneModel(m)}
				if s.Flag {
					*lp = bt.Txs{ref.ToLib(c.StaleTx), tx}
					k.tx = []ref.Tx{cloneModel(c.StaleTx), cloneModel(m)}
				}
				v = *lp
				if node {
					v = wraps.of(ctx, s, lp, lp.NodeJSON)
				}
			case "out":
				if nout == 0 {
					continue
				}
				i := s.I % nout
				if m.Out[i].Sats > MaxSats {
					ctx.Label("skipped:output-amount-above-21e14")
					continue
				}
				k.obj = UModel{Sats: m.Out[i].Sats, Script: append(pbt.Hex{}, m.Out[i].Script...)}
				v = tx.Outputs[i]
				if node {
					v = wraps.of(ctx, s, tx.Outputs[i], tx.Outputs[i].NodeJSON)
				}
			default:
				ctx.Discard("malformed case")
				return nil
			}
			js, err := marshalStep(ctx, v, s.I%2 == 1)
			if err != nil {
				ctx.Label("marshal_error:" + s.Form + "." + s.Dialect)
				continue
			}
			k.js = js
			var prev *kept
			if s.Into == "prev" {
				prev = lastOf(held, s.Form, func(h *kept) bool { return h.gTx != nil || h.gTxs != nil || h.gOut != nil })
			}
			if err := k.unmarshal(c, s.Into, prev); err != nil {
				return err
			}
			held = append(held, k)
			marshals++
			if editedSinceMarshal && marshals > 1 {
				editsBetween++
			}
			editedSinceMarshal = false
			if s.Into != "fresh" {
				staleTargets++
			}
			ctx.Label("marshal:" + s.Form + "." + s.Dialect + "->" + s.Into)
			continue
		default:
			ctx.Discard("malformed case")
			return nil
		}
		if s.Op != "query" {
			editedSinceMarshal = true
			ctx.Label("edit:" + s.Op)
		}
	}
	// after the last step: every kept object and every kept JSON text once more
	for _, k := range held { // first every kept object, before the library is called again
		if err := k.verify("kept until after the last step"); err != nil {
			return err
		}
	}
	for _, k := range held {
		if err := k.again(c); err != nil {
			return err
		}
	}
	ctx.Labelf("marshals=%d", marshals)
	if editsBetween > 0 {
		ctx.Label("marshal-edit-marshal")
	}
	if staleTargets > 0 {
		ctx.Label("populated-target")
	}
	if marshals >= 2 && editsBetween > 0 {
		ctx.NonTrivial()
	}
	return nil
}

func histObj(ctx *pbt.Ctx, c Hist) error {
	if c.Obj.Sats > MaxSats || c.StaleObj.Sats > MaxSats {
		ctx.Discard("outside domain")
		return nil
	}
	isU := c.Kind == "utxo"
	m := cloneU(c.Obj)
	var o *bt.Output
	var u *bt.UTXO
	var ls **bscript.Script
	if isU {
		u = libUTXO(m)
		ls = &u.LockingScript
	} else {
		m.TxID, m.Vout = nil, 0
		o = libOutput(m)
		ls = &o.LockingScript
	}
	var held []*kept
	var undo undoList
	defer undo.run()
	wraps := wrapSet{}
	listVars := map[bool]*bt.UTXOs{}
	marshals, editsBetween, editedSinceMarshal, staleTargets := 0, 0, false, 0
	for si, s := range c.Steps {
		switch s.Op {
		case "use":
			useStep(ctx, held, s, &undo)
			continue
		case "sats":
			if s.U64 > MaxSats {
				ctx.Discard("outside domain")
				return nil
			}
			m.Sats = s.U64
			if isU {
				u.Satoshis = s.U64
			} else {
				o.Satoshis = s.U64
			}
		case "script":
			m.Script = append(pbt.Hex{}, s.B...)
			*ls = bscript.NewFromBytes(append([]byte{}, s.B...))
		case "flip":
			if l := len(m.Script); l > 0 {
				k := int(s.U32 % uint32(l))
				m.Script[k] ^= 0x55
				(**ls)[k] ^= 0x55
			}
		case "append":
			m.Script = append(m.Script, s.B...)
			**ls = append(**ls, s.B...)
		case "vout":
			if isU {
				m.Vout, u.Vout = s.U32, s.U32
			}
		case "txid":
			if isU && len(s.B) == 32 {
				m.TxID, u.TxID = append(pbt.Hex{}, s.B...), append([]byte{}, s.B...)
			}
		case "txid.flip":
			if isU && len(m.TxID) > 0 {
				k := int(s.U32 % uint32(len(m.TxID)))
				m.TxID[k] ^= 0x55
				u.TxID[k] ^= 0x55
			}
		case "marshal":
			k := &kept{step: si, dialect: s.Dialect, form: s.Form, rewrap: s.Wrap == "kept"}
			node := s.Dialect == "node"
			var v interface{}
			switch {
			case s.Form == "self" && isU:
				k.obj = cloneU(m)
				v = u
				if node {
					v = wraps.of(ctx, s, u, u.NodeJSON)
				}
			case s.Form == "self":
				k.obj = cloneU(m)
				v = o
				if node {
					v = wraps.of(ctx, s, o, o.NodeJSON)
				}
			case s.Form == "list" && isU:
				lp := listVars[s.Flag]
				if lp == nil {
					lp = new(bt.UTXOs)
					listVars[s.Flag] = lp
				}
				*lp = bt.UTXOs{u}
				k.objs = []UModel{cloneU(m)}
				if s.Flag {
					*lp = bt.UTXOs{u, libUTXO(c.StaleObj), u}
					k.objs = []UModel{cloneU(m), cloneU(c.StaleObj), cloneU(m)}
				}
				v = *lp
				if node {
					v = wraps.of(ctx, s, lp, lp.NodeJSON)
				}
			default:
				ctx.Discard("malformed case")
				return nil
			}
			js, err := marshalStep(ctx, v, s.I%2 == 1)
			if err != nil {
				ctx.Label("marshal_error:" + c.Kind + "." + s.Form + "." + s.Dialect)
				continue
			}
			k.js = js
			var prev *kept
			if s.Into == "prev" {
				prev = lastOf(held, s.Form, func(h *kept) bool { return h.gOut != nil || h.gUTXO != nil || h.gUTXOs != nil })
			}
			if err := k.unmarshal(c, s.Into, prev); err != nil {
				return err
			}
			held = append(held, k)
			marshals++
			if editedSinceMarshal && marshals > 1 {
				editsBetween++
			}
			editedSinceMarshal = false
			if s.Into != "fresh" {
				staleTargets++
			}
			ctx.Label("marshal:" + c.Kind + "." + s.Form + "." + s.Dialect + "->" + s.Into)
			continue
		default:
			ctx.Discard("malformed case")
			return nil
		}
		editedSinceMarshal = true
		ctx.Label("edit:" + c.Kind + "." + s.Op)
	}
	for _, k := range held { // first every kept object, before the library is called again
		if err := k.verify("kept until after the last step"); err != nil {
			return err
		}
	}
	for _, k := range held {
		if err := k.again(c); err != nil {
			return err
		}
	}
	ctx.Labelf("marshals=%d", marshals)
	if editsBetween > 0 {
		ctx.Label("marshal-edit-marshal")
	}
	if staleTargets > 0 {
		ctx.Label("populated-target")
	}
	if m.Sats == 0 || len(m.Script) == 0 {
		ctx.Label("ends-zero-or-empty")
	}
	if marshals >= 2 && editsBetween > 0 {
		ctx.NonTrivial()
	}
	return nil
}

// ---------------------------------------------------------------------------
// generators

// genSats draws an amount of the statement's domain, boundary-heavy.
func genSats(t *rapid.T, label string) uint64 {
	switch rapid.IntRange(0, 5).Draw(t, label+"_kind") {
	case 0:
		return rapid.SampledFrom([]uint64{0, 0, 1, 2, 3, 545, 546, 99999999, 100000000, 100000001, MaxSats - 1, MaxSats}).Draw(t, label)
	case 1: // decimal boundary
		v := rapid.Uint64Range(1, 99999).Draw(t, label+"_k") * pow10(rapid.IntRange(0, 15).Draw(t, label+"_e"))
		if d := rapid.Uint64Range(0, 3).Draw(t, label+"_d"); v > d {
			v -= d
		}
		if v > MaxSats {
			v = MaxSats
		}
		return v
	case 2:
		return rapid.Uint64Range(0, uint64(1)<<uint(rapid.IntRange(1, 50).Draw(t, label+"_bits"))-1).Draw(t, label)
	}
	return rapid.Uint64Range(0, MaxSats).Draw(t, label)
}

// marshalStep renders v either through json.Marshal (which hands out its own copy) or - when
// direct is set and v has the method - by calling MarshalJSON itself and keeping the very slice
// it returns: that text is the caller's and is compared again after all later calls.
func marshalStep(ctx *pbt.Ctx, v interface{}, direct bool) ([]byte, error) {
	if m, ok := v.(json.Marshaler); ok && direct {
		ctx.Label("marshal=direct-method-result-kept")
		return m.MarshalJSON()
	}
	js, err := json.Marshal(v)
	return append([]byte{}, js...), err
}

// scriptSoup: a few script elements in a row - explicit zero-length pushdata, OP_0, short and
// key-sized pushes, and the opcodes the classifiers look for - so that the type field of the node
// dialect is computed for shapes like "4c00 ac".
func scriptSoup(t *rapid.T, label string) []byte {
	var s []byte
	n := rapid.IntRange(1, 4).Draw(t, label+"_n")
	for i := 0; i < n; i++ {
		switch rapid.IntRange(0, 9).Draw(t, label+"_el") {
		case 0:
			s = append(s, rapid.SampledFrom([][]byte{{0x4c, 0x00}, {0x4d, 0x00, 0x00}, {0x4e, 0x00, 0x00, 0x00, 0x00}, {0x00}}).Draw(t, label+"_empty")...)
		case 1:
			d := gen.FillBytes(t, rapid.IntRange(1, 3).Draw(t, label+"_sl"), label+"_sd")
			s = append(append(s, byte(len(d))), d...)
		case 2:
			d := gen.Bytes(t, rapid.SampledFrom([]int{20, 33, 65}).Draw(t, label+"_kl"), label+"_kd")
			s = append(append(s, byte(len(d))), d...)
		case 3:
			s = append(s, 0x4c, 0x02, 0xac, 0xac)
		default:
			s = append(s, rapid.SampledFrom([]byte{0xac, 0xac, 0xae, 0xa9, 0x76, 0x88, 0x87, 0x6a, 0x51, 0x52, 0x63, 0x68, 0x00, 0xad}).Draw(t, label+"_op"))
		}
	}
	return s
}

// smallInt renders a number the way a template announces it: OP_0, OP_1..OP_16, or a one-byte push above.
func smallInt(n int) []byte {
	switch {
	case n == 0:
		return []byte{0x00}
	case n <= 16:
		return []byte{byte(0x50 + n)}
	}
	return []byte{0x01, byte(n)}
}

func pushOf(d []byte) []byte {
	switch {
	case len(d) == 0:
		return []byte{0x00}
	case len(d) <= 75:
		return append([]byte{byte(len(d))}, d...)
	}
	return append([]byte{0x4c, byte(len(d))}, d...)
}

// shapedScript: a script in the SHAPE of a standard template whose announced numbers and parts
// disagree with what is there - multisig with m and n each 0..20 independent of the 0..5 keys
// present (key lengths 0, 1, 32, 33, 65), with the head number, the tail number or the final
// opcode missing or an extra part inserted; P2PKH inscription envelopes with any of their parts
// missing; P2PKH / P2PK frames around a hash or key of the wrong length.
func shapedScript(t *rapid.T, label string) []byte {
	drop := func(what string) bool { return rapid.IntRange(0, 7).Draw(t, label+"_drop_"+what) == 0 }
	var s []byte
	switch rapid.IntRange(0, 3).Draw(t, label+"_shape") {
	case 0, 1: // multisig
		if !drop("m") {
			s = append(s, smallInt(rapid.IntRange(0, 20).Draw(t, label+"_m"))...)
		}
		for i, k := 0, rapid.IntRange(0, 5).Draw(t, label+"_keys"); i < k; i++ {
			s = append(s, pushOf(gen.FillBytes(t, rapid.SampledFrom([]int{0, 1, 32, 33, 33, 65}).Draw(t, label+"_klen"), label+"_key"))...)
		}
		if drop("extra") {
			s = append(s, rapid.SampledFrom([][]byte{{0x00}, {0x51}, {0xac}, {0x4c, 0x00}, {0x6a}}).Draw(t, label+"_extra")...)
		}
		if !drop("n") {
			s = append(s, smallInt(rapid.IntRange(0, 20).Draw(t, label+"_n"))...)
		}
		if !drop("cms") {
			s = append(s, 0xae)
		}
	case 2: // P2PKH inscription envelope with parts missing
		parts := [][]byte{{0x76}, {0xa9}, pushOf(gen.Bytes(t, 20, label+"_h")), {0x88}, {0xac}, {0x00}, {0x63}, pushOf([]byte("ord")), {0x51},
			pushOf([]byte(rapid.SampledFrom([]string{"text/plain", "a", ""}).Draw(t, label+"_ct"))), {0x00},
			pushOf(gen.FillBytes(t, rapid.IntRange(0, 4).Draw(t, label+"_dl"), label+"_d")), {0x68}}
		if rapid.Bool().Draw(t, label+"_opret") {
			parts = append(parts, []byte{0x6a}, pushOf(gen.FillBytes(t, rapid.IntRange(0, 3).Draw(t, label+"_ol"), label+"_o")))
		}
		for i, p := range parts {
			if !drop(fmt.Sprint("part", i)) {
				s = append(s, p...)
			}
		}
	default: // P2PKH / P2PK frame around the wrong length
		d := gen.FillBytes(t, rapid.SampledFrom([]int{0, 1, 19, 21, 32, 34, 64, 66}).Draw(t, label+"_flen"), label+"_f")
		if rapid.Bool().Draw(t, label+"_p2pk") {
			s = append(pushOf(d), 0xac)
		} else {
			s = append(append([]byte{0x76, 0xa9}, pushOf(d)...), 0x88, 0xac)
		}
	}
	return s
}

func genScriptBytes(t *rapid.T, label string) []byte {
	switch rapid.IntRange(0, 9).Draw(t, label+"_kind") {
	case 8, 9:
		return shapedScript(t, label)
	case 6, 7:
		return scriptSoup(t, label)
	case 0:
		return []byte{}
	case 1:
		return ref.P2PKHScript(gen.Bytes(t, 20, label+"_pkh"))
	case 2:
		return append([]byte{}, amountScripts[rapid.IntRange(0, len(amountScripts)-1).Draw(t, label+"_fixed")]...)
	}
	return gen.FillBytes(t, gen.EdgeLen(t, 300, label+"_len", 0, 1, 2, 25, 75, 76, 255, 256), label)
}

func genUModel(t *rapid.T, label string) UModel {
	return UModel{TxID: gen.Bytes(t, 32, label+"_txid"), Vout: gen.U32(t, label+"_vout"), Sats: genSats(t, label+"_sats"), Script: genScriptBytes(t, label+"_script")}
}

func genHistTxModel(t *rapid.T, label string) ref.Tx {
	opts := gen.DefaultTxOpts()
	opts.BigCounts = nil
	opts.MaxIn, opts.MaxOut, opts.MaxScript = 3, 3, 300
	m := gen.Tx(t, opts)
	for k := range m.Out {
		if rapid.IntRange(0, 3).Draw(t, label+"_amount_any") > 0 {
			m.Out[k].Sats = genSats(t, label+"_sats")
		}
		if rapid.IntRange(0, 3).Draw(t, label+"_p2pkh") == 0 {
			m.Out[k].Script = ref.P2PKHScript(gen.Bytes(t, 20, label+"_pkh"))
		}
	}
	for k := range m.In {
		if rapid.IntRange(0, 3).Draw(t, label+"_unlock_nil") == 0 {
			m.In[k].Unlock, m.In[k].UnlockNil = nil, true
		}
	}
	if ref.Ambiguous(m) {
		m.LockTime = 0
	}
	return m
}

func genMarshal(t *rapid.T, forms []string) HStep {
	return HStep{Op: "marshal",
		Dialect: rapid.SampledFrom([]string{"lib", "node"}).Draw(t, "dialect"),
		Form:    rapid.SampledFrom(forms).Draw(t, "form"),
		Into:    rapid.SampledFrom([]string{"fresh", "fresh", "stale", "prev", "prev"}).Draw(t, "into"),
		Wrap:    rapid.SampledFrom([]string{"", "kept"}).Draw(t, "wrap"),
		Flag:    rapid.Bool().Draw(t, "with_second_element"),
		I:       rapid.IntRange(0, 7).Draw(t, "mi")}
}

var txEdits = []string{"version", "locktime", "out.sats", "out.sats", "out.script", "out.flip", "out.flip", "out.append", "out.add", "out.del", "out.swap",
	"in.add", "in.add", "in.del", "in.seq", "in.vout", "in.unlock", "in.unlock", "in.sign", "in.sign"}
var outEdits = []string{"sats", "sats", "sats", "script", "script", "flip", "append"}
var utxoEdits = []string{"sats", "sats", "sats", "script", "script", "flip", "append", "vout", "txid", "txid.flip"}

func genHist(t *rapid.T) Hist {
	c := Hist{Kind: rapid.SampledFrom([]string{"tx", "tx", "output", "utxo"}).Draw(t, "kind")}
	n := rapid.IntRange(2, 8).Draw(t, "nsteps")
	var forms, edits []string
	switch c.Kind {
	case "tx":
		c.Tx, c.StaleTx = genHistTxModel(t, "tx"), genHistTxModel(t, "stale")
		c.Priv = gen.Bytes(t, 32, "priv")
		c.Priv[0] &= 0x7f
		c.Priv[31] |= 1
		if rapid.Bool().Draw(t, "signable") { // the inputs it starts with spend P2PKH outputs of Priv, so that in.sign applies
			_, pub := bec.PrivKeyFromBytes(bec.S256(), c.Priv)
			lock := ref.P2PKHScript(ref.Hash160(pub.SerialiseCompressed()))
			for k := range c.Tx.In {
				c.Tx.In[k].PrevScript, c.Tx.In[k].PrevNil = append(pbt.Hex{}, lock...), false
				c.Tx.In[k].PrevSats = rapid.Uint64Range(1, 1<<40).Draw(t, "prev_sats")
			}
		}
		forms, edits = []string{"self", "self", "self", "list", "out"}, txEdits
	case "output":
		c.Obj, c.StaleObj = genUModel(t, "obj"), genUModel(t, "stale")
		c.Obj.TxID, c.Obj.Vout = nil, 0
		forms, edits = []string{"self"}, outEdits
	default:
		c.Obj, c.StaleObj = genUModel(t, "obj"), genUModel(t, "stale")
		forms, edits = []string{"self", "self", "list"}, utxoEdits
	}
	if c.Kind != "tx" && rapid.IntRange(0, 2).Draw(t, "stale_full") > 0 {
		// the populated target holds a non-zero amount and a non-empty script (what a stale field would be)
		if c.StaleObj.Sats == 0 {
			c.StaleObj.Sats = 123456789
		}
		if len(c.StaleObj.Script) == 0 {
			c.StaleObj.Script = ref.P2PKHScript(bytes.Repeat([]byte{0x5a}, 20))
		}
	}
	for i := 0; i < n; i++ {
		k := rapid.IntRange(0, 9).Draw(t, "step_kind")
		switch {
		case k <= 3 || i == n-1:
			c.Steps = append(c.Steps, genMarshal(t, forms))
		case k == 5 && i > 0: // the caller uses (edits in place) something it decoded earlier
			c.Steps = append(c.Steps, HStep{Op: "use", I: rapid.IntRange(0, 7).Draw(t, "use_which"),
				U64: rapid.Uint64Range(0, 1000).Draw(t, "use_sats"), B: gen.Bytes(t, rapid.IntRange(0, 3).Draw(t, "use_len"), "use_bytes")})
		case k == 4 && c.Kind == "tx":
			c.Steps = append(c.Steps, HStep{Op: "query", Flag: rapid.Bool().Draw(t, "clone"), U32: uint32(rapid.IntRange(0, 1).Draw(t, "on_clone"))})
		default:
			s := HStep{Op: rapid.SampledFrom(edits).Draw(t, "edit"), I: rapid.IntRange(0, 7).Draw(t, "i")}
			switch s.Op {
			case "version", "locktime", "in.seq", "in.vout", "vout", "out.flip", "flip", "txid.flip":
				s.U32 = gen.U32(t, "u32")
			case "out.sats", "sats":
				s.U64 = genSats(t, "sats")
				if s.Op == "out.sats" && rapid.IntRange(0, 5).Draw(t, "sats_any") == 0 {
					s.U64 = gen.U64(t, "sats_u64")
				}
			case "out.script", "script":
				s.B = genScriptBytes(t, "script")
			case "out.append", "append":
				s.B = gen.Bytes(t, rapid.IntRange(1, 3).Draw(t, "append_len"), "append")
			case "out.add":
				s.U64, s.B = genSats(t, "sats"), genScriptBytes(t, "script")
			case "in.add":
				s.B, s.U32, s.U64 = gen.Bytes(t, 32, "txid"), gen.U32(t, "vout"), rapid.Uint64Range(1, 1<<40).Draw(t, "prev_sats")
			case "txid":
				s.B = gen.Bytes(t, 32, "txid")
			case "in.unlock":
				s.Flag = rapid.IntRange(0, 2).Draw(t, "unlock_nil") == 0
				if !s.Flag {
					s.B = gen.FillBytes(t, gen.EdgeLen(t, 200, "unlock_len", 0, 1, 75, 76, 107), "unlock")
				}
			}
			c.Steps = append(c.Steps, s)
		}
	}
	return c
}

func TestHistory(t *testing.T) {
	pbt.Run(t, pbt.Sub[Hist]{
		Name: "history", Quick: 60000, Thorough: 600000,
		Gen:   genHist,
		Check: checkHist,
	})
}
