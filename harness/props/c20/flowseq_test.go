package c20

import (
	"encoding/hex"
	"errors"
	"fmt"
	"testing"

	"github.com/libsv/go-bt/v2"
	"github.com/libsv/go-bt/v2/bscript"
	"github.com/libsv/go-bt/v2/ord"
	"github.com/libsv/go-bt/v2/unlocker"
	"pgregory.net/rapid"

	"verif/harness/pbt"
)

// ---------------------------------------------------------------------------
// sequence sub-checks seq-<variant>: TWO flows A and B of one variant are
// driven one after the other through the exported API, sharing Go objects the
// way a program that serves several sales would: the same listing (one
// partially signed transaction accepted by two buyers), the same ordinal UTXO
// object and ListOrdinalArgs struct for a second listing at another price, the
// same script objects, the same FeeQuote, the same funding UTXO objects and
// slice, the same argument structs with their fields replaced between the
// calls (objects already handed over are never edited in place by the
// harness). Nothing is examined while the calls are made. After the last call
// every completed transaction - the first one included, which has been lying
// around while the second was built, and bids made first but accepted last -
// is judged by all four clauses exactly as in valid-* and fee-*, each against
// its own flow's table of spent outputs.
// ---------------------------------------------------------------------------

// FlowSeq is one case.
type FlowSeq struct {
	A     Flow  `json:"a"`
	B     Flow  `json:"b"`
	Share Share `json:"share"`
	// Args: the argument structs of the first call are used again for the second
	// call (fields replaced), instead of new structs.
	Args bool `json:"args,omitempty"`
	// CallerSlice (with Share.Funding): the second call is handed the caller's own
	// slice variable again; otherwise the slice as the argument struct holds it
	// after the first call.
	CallerSlice bool `json:"caller_slice,omitempty"`
	// BFirst (bid variants): the seller completes bid B before bid A.
	BFirst bool `json:"b_first,omitempty"`
}

type seqScripts struct{ receive, dummy, change *bscript.Script }

func newSeqScripts(c Flow) seqScripts {
	return seqScripts{script(c.Receive), script(c.Dummy), script(c.Change)}
}

func refuse(ctx *pbt.Ctx, who, stage string, err error) {
	if err == nil {
		err = errors.New("nil transaction")
	}
	ctx.Label(who + ":" + stage + ":" + errClass(err))
}

func checkFlowSeq(ctx *pbt.Ctx, c FlowSeq) error {
	if c.A.Variant != c.B.Variant {
		ctx.Discard("malformed case")
		return nil
	}
	wA, bad := build(c.A)
	if wA == nil {
		ctx.Discard(bad)
		return nil
	}
	wB, bad := build(c.B)
	if wB == nil {
		ctx.Discard(bad)
		return nil
	}
	v := c.A.Variant
	var txA, txB *bt.Tx
	var err error
	switch v {
	case "list", "list2d":
		txA, txB, err = runListSeq(ctx, c, wA, wB)
	case "bid", "bid2d":
		txA, txB, err = runBidSeq(ctx, c, wA, wB)
	default:
		ctx.Discard("malformed case")
		return nil
	}
	if err != nil {
		return err
	}
	// everything is examined only now
	for _, r := range []struct {
		who string
		w   *world
		tx  *bt.Tx
	}{{"A", wA, txA}, {"B", wB, txB}} {
		if r.tx == nil {
			continue
		}
		ctx.Label(v + ":" + r.who + ":completed")
		for _, fee := range []bool{false, true} {
			if jerr := judge(&pbt.Ctx{}, r.w, r.tx, fee); jerr != nil {
				return fmt.Errorf("flow %s of the sequence (examined after the last call; shared: %+v args=%v caller_slice=%v b_first=%v): %v",
					r.who, c.Share, c.Args, c.CallerSlice, c.BFirst, jerr)
			}
		}
	}
	both := txA != nil && txB != nil
	for _, s := range []struct {
		on bool
		n  string
	}{{c.Share.Ordinal, "ordinal"}, {c.Share.Listing, "listing"}, {c.Share.Scripts, "scripts"}, {c.Share.FQ, "fq"}, {c.Share.Funding, "funding"}, {c.Args, "args"},
		{c.Share.Funding && c.CallerSlice, "funding-callers-slice"}, {c.BFirst, "b-completed-first"}} {
		if s.on {
			ctx.Label("shared:" + s.n)
			if both {
				ctx.Label("both-completed:" + s.n)
			}
		}
	}
	switch {
	case txA != nil && txB != nil:
		ctx.Label("both-completed")
		ctx.NonTrivial()
	case txA != nil || txB != nil:
		ctx.Label("one-completed")
	default:
		ctx.Label("none-completed")
	}
	return nil
}

// secondFunding selects the funding UTXOs handed to the second call.
func secondFunding(c FlowSeq, callers, orig, left []*bt.UTXO, wB *world) []*bt.UTXO {
	switch {
	case !c.Share.Funding:
		return wB.fundUTXOs() // the second buyer's own
	case c.CallerSlice:
		return callers // the caller's own slice variable, handed in a second time
	case c.Args:
		return left // whatever the argument struct holds after the first call
	}
	return append([]*bt.UTXO{}, orig...) // a new slice of the same UTXO objects in their original order
}

func acceptListing(v string, vla *ord.ValidateListingArgs, args *ord.AcceptListingArgs) (*bt.Tx, error) {
	if v == "list" {
		return ord.AcceptOrdinalSaleListing(bg, vla, args)
	}
	return ord.AcceptOrdinalSaleListing2Dummies(bg, vla, args)
}

func runListSeq(ctx *pbt.Ctx, c FlowSeq, wA, wB *world) (txA, txB *bt.Tx, _ error) {
	v := c.A.Variant
	a, b := c.A, c.B
	// --- the seller lists
	var suA bt.Unlocker = &unlocker.Simple{PrivateKey: wA.seller}
	ordA := wA.ordUTXO()
	la := &ord.ListOrdinalArgs{SellerReceiveOutput: &bt.Output{Satoshis: a.Price, LockingScript: script(a.SellerScript)}, OrdinalUTXO: ordA, OrdinalUnlocker: suA}
	pstxA, err := ord.ListOrdinalForSale(bg, la)
	if err != nil {
		refuse(ctx, "A", "list", err)
		pstxA = nil
	}
	var pstxB *bt.Tx
	ordB := wB.ordUTXO()
	switch {
	case c.Share.Listing:
		pstxB = pstxA // one listing, two buyers
	default:
		lb := &ord.ListOrdinalArgs{OrdinalUTXO: ordB, OrdinalUnlocker: &unlocker.Simple{PrivateKey: wB.seller}}
		if c.Share.Ordinal {
			ordB = ordA // the same UTXO object is listed again
			lb.OrdinalUTXO, lb.OrdinalUnlocker = ordA, suA
			if c.Args {
				lb = la // ... through the same argument struct, its output field replaced
			}
		}
		lb.SellerReceiveOutput = &bt.Output{Satoshis: b.Price, LockingScript: script(b.SellerScript)}
		if pstxB, err = ord.ListOrdinalForSale(bg, lb); err != nil {
			refuse(ctx, "B", "list", err)
			pstxB = nil
		}
	}
	// --- the buyers accept
	sa := newSeqScripts(a)
	sb := sa
	if !c.Share.Scripts {
		sb = newSeqScripts(b)
	}
	fqA := quote(a.Std, a.Data)
	fqB := fqA
	if !c.Share.FQ {
		fqB = quote(b.Std, b.Data)
	}
	usA := wA.fundUTXOs()
	orig := append([]*bt.UTXO{}, usA...)
	argsA := &ord.AcceptListingArgs{PSTx: pstxA, UTXOs: usA, BuyerReceiveOrdinalScript: sa.receive, DummyOutputScript: sa.dummy, ChangeScript: sa.change, FQ: fqA}
	if pstxA != nil {
		if txA, err = acceptListing(v, &ord.ValidateListingArgs{ListedOrdinalUTXO: ordA}, argsA); err != nil || txA == nil {
			refuse(ctx, "A", "accept", err)
			txA = nil
		}
	}
	if pstxB == nil {
		return txA, nil, nil
	}
	argsB := &ord.AcceptListingArgs{}
	if c.Args {
		argsB = argsA
	}
	argsB.UTXOs = secondFunding(c, usA, orig, argsA.UTXOs, wB)
	argsB.PSTx, argsB.BuyerReceiveOrdinalScript, argsB.DummyOutputScript, argsB.ChangeScript, argsB.FQ = pstxB, sb.receive, sb.dummy, sb.change, fqB
	if txB, err = acceptListing(v, &ord.ValidateListingArgs{ListedOrdinalUTXO: ordB}, argsB); err != nil || txB == nil {
		refuse(ctx, "B", "accept", err)
		txB = nil
	}
	return txA, txB, nil
}

func runBidSeq(ctx *pbt.Ctx, c FlowSeq, wA, wB *world) (txA, txB *bt.Tx, _ error) {
	v := c.A.Variant
	a, b := c.A, c.B
	sa := newSeqScripts(a)
	sb := sa
	if !c.Share.Scripts {
		sb = newSeqScripts(b)
	}
	fqA := quote(a.Std, a.Data)
	fqB := fqA
	if !c.Share.FQ {
		fqB = quote(b.Std, b.Data)
	}
	usA := wA.fundUTXOs()
	orig := append([]*bt.UTXO{}, usA...)
	// --- the bidders bid
	var pstxA, pstxB *bt.Tx
	var err error
	if v == "bid" {
		ma := &ord.MakeBidArgs{BidAmount: a.Price, OrdinalTxID: hex.EncodeToString(a.OrdTxID), OrdinalVOut: a.OrdVout, BidderUTXOs: usA,
			BuyerReceiveOrdinalScript: sa.receive, DummyOutputScript: sa.dummy, ChangeScript: sa.change, FQ: fqA}
		if pstxA, err = ord.MakeBidToBuy1SatOrdinal(bg, ma); err != nil {
			refuse(ctx, "A", "bid", err)
			pstxA = nil
		}
		mb := &ord.MakeBidArgs{}
		if c.Args {
			mb = ma
		}
		mb.BidderUTXOs = secondFunding(c, usA, orig, ma.BidderUTXOs, wB)
		mb.BidAmount, mb.OrdinalTxID, mb.OrdinalVOut = b.Price, hex.EncodeToString(b.OrdTxID), b.OrdVout
		mb.BuyerReceiveOrdinalScript, mb.DummyOutputScript, mb.ChangeScript, mb.FQ = sb.receive, sb.dummy, sb.change, fqB
		if pstxB, err = ord.MakeBidToBuy1SatOrdinal(bg, mb); err != nil {
			refuse(ctx, "B", "bid", err)
			pstxB = nil
		}
	} else {
		ma := &ord.MakeBid2DArgs{BidAmount: a.Price, OrdinalTxID: hex.EncodeToString(a.OrdTxID), OrdinalVOut: a.OrdVout, BidderUTXOs: usA,
			BuyerReceiveOrdinalScript: sa.receive, DummyOutputScript: sa.dummy, ChangeScript: sa.change, FQ: fqA}
		if pstxA, err = ord.MakeBidToBuy1SatOrdinal2Dummies(bg, ma); err != nil {
			refuse(ctx, "A", "bid", err)
			pstxA = nil
		}
		mb := &ord.MakeBid2DArgs{}
		if c.Args {
			mb = ma
		}
		mb.BidderUTXOs = secondFunding(c, usA, orig, ma.BidderUTXOs, wB)
		mb.BidAmount, mb.OrdinalTxID, mb.OrdinalVOut = b.Price, hex.EncodeToString(b.OrdTxID), b.OrdVout
		mb.BuyerReceiveOrdinalScript, mb.DummyOutputScript, mb.ChangeScript, mb.FQ = sb.receive, sb.dummy, sb.change, fqB
		if pstxB, err = ord.MakeBidToBuy1SatOrdinal2Dummies(bg, mb); err != nil {
			refuse(ctx, "B", "bid", err)
			pstxB = nil
		}
	}
	// --- the seller(s) complete the bids, in either order, with shared objects
	var suA bt.Unlocker = &unlocker.Simple{PrivateKey: wA.seller}
	var suB bt.Unlocker = &unlocker.Simple{PrivateKey: wB.seller}
	ordA, ordB := wA.ordUTXO(), wB.ordUTXO()
	if c.Share.Ordinal {
		ordB, suB = ordA, suA
	}
	var aba *ord.AcceptBidArgs
	var aba2 *ord.AcceptBid2DArgs
	accept := func(who string, w *world, pstx *bt.Tx, ou *bt.UTXO, su bt.Unlocker, fq *bt.FeeQuote) *bt.Tx {
		if pstx == nil {
			return nil
		}
		f := w.c
		var tx *bt.Tx
		var err error
		if v == "bid" {
			if aba == nil || !c.Args {
				aba = &ord.AcceptBidArgs{}
			}
			aba.PSTx, aba.SellerReceiveScript, aba.OrdinalUnlocker = pstx, script(f.SellerScript), su
			tx, err = ord.AcceptBidToBuy1SatOrdinal(bg, &ord.ValidateBidArgs{OrdinalUTXO: ou, BidAmount: f.Price, ExpectedFQ: fq}, aba)
		} else {
			fu := w.fundUTXOs()
			if len(fu) < 2 {
				refuse(ctx, who, "accept", bt.ErrInsufficientUTXOs)
				return nil
			}
			prev := append([]*bt.UTXO{}, fu[:2]...)
			prev = append(prev, ou)
			prev = append(prev, fu[2:]...)
			if aba2 == nil || !c.Args {
				aba2 = &ord.AcceptBid2DArgs{}
			}
			aba2.PSTx, aba2.SellerReceiveOrdinalScript, aba2.OrdinalUnlocker, aba2.ExtraUTXOs = pstx, script(f.SellerScript), su, w.extraUTXOs()
			tx, err = ord.AcceptBidToBuy1SatOrdinal2Dummies(bg, &ord.ValidateBid2DArgs{PreviousUTXOs: prev, BidAmount: f.Price, ExpectedFQ: fq}, aba2)
		}
		if err != nil || tx == nil {
			refuse(ctx, who, "accept", err)
			return nil
		}
		return tx
	}
	// the seller validates against the quote the bidder used (as valid-* / fee-* do)
	if c.BFirst {
		txB = accept("B", wB, pstxB, ordB, suB, quote(b.Std, b.Data))
		txA = accept("A", wA, pstxA, ordA, suA, quote(a.Std, a.Data))
	} else {
		txA = accept("A", wA, pstxA, ordA, suA, quote(a.Std, a.Data))
		txB = accept("B", wB, pstxB, ordB, suB, quote(b.Std, b.Data))
	}
	return txA, txB, nil
}

func genFlowSeq(t *rapid.T, v string) FlowSeq {
	var c FlowSeq
	listing := v == "list" || v == "list2d"
	c.Share.Ordinal = rapid.IntRange(0, 3).Draw(t, "share_ordinal") > 0
	if listing && c.Share.Ordinal {
		c.Share.Listing = rapid.Bool().Draw(t, "share_listing")
	}
	c.Share.Scripts = rapid.Bool().Draw(t, "share_scripts")
	c.Share.FQ = rapid.Bool().Draw(t, "share_fq")
	c.Share.Funding = rapid.IntRange(0, 3).Draw(t, "share_funding") == 0
	c.Args = rapid.Bool().Draw(t, "share_args")
	c.CallerSlice = rapid.Bool().Draw(t, "caller_slice")
	c.BFirst = !listing && rapid.Bool().Draw(t, "b_first")
	c.A = genFlowWith(t, v, nil, Share{})
	c.B = genFlowWith(t, v, &c.A, c.Share)
	return c
}

// TestFlowSeq: all four clauses on every completed transaction of a two-flow sequence.
func TestFlowSeq(t *testing.T) {
	for _, v := range variants {
		v := v
		t.Run(v, func(t *testing.T) {
			pbt.Run(t, pbt.Sub[FlowSeq]{
				Name: "seq-" + v, Quick: 6000, Thorough: 80000,
				Gen:   func(t *rapid.T) FlowSeq { return genFlowSeq(t, v) },
				Check: checkFlowSeq,
			})
		})
	}
}
