package c20

import "pgregory.net/rapid"

// Local copies of the three small shared generators this package needs (kept
// local so the package builds independently of unrelated files in harness/gen).

type genT struct{}

var gen genT

// Bytes draws n uniformly random bytes.
func (genT) Bytes(t *rapid.T, n int, label string) []byte {
	return rapid.SliceOfN(rapid.Byte(), n, n).Draw(t, label)
}

// EdgeLen draws a length from the boundary set (clipped to max) or a small uniform one.
func (genT) EdgeLen(t *rapid.T, max int, label string, edges ...int) int {
	if rapid.IntRange(0, 2).Draw(t, label+"_kind") == 0 {
		ok := make([]int, 0, len(edges))
		for _, e := range edges {
			if e <= max {
				ok = append(ok, e)
			}
		}
		if len(ok) > 0 {
			return rapid.SampledFrom(ok).Draw(t, label)
		}
	}
	sm := 40
	if max < sm {
		sm = max
	}
	return rapid.IntRange(0, sm).Draw(t, label)
}

// FillBytes draws n bytes cheaply: a short random pattern repeated.
func (genT) FillBytes(t *rapid.T, n int, label string) []byte {
	if n <= 64 {
		return genFree(t, n, label) // one time in six carrying one of the format's own markers
	}
	pat := rapid.SliceOfN(rapid.Byte(), 1, 16).Draw(t, label+"_pat")
	out := make([]byte, n)
	for i := range out {
		out[i] = pat[i%len(pat)] + byte(i/len(pat))
	}
	return out
}
