// Package c20 decides property C20 (ordinals sale / bid flows and the
// inscription round trip).
package c20

import (
	"bytes"
	"context"
	"encoding/binary"
	"encoding/hex"
	"errors"
	"fmt"
	"math/big"
	"testing"

	"github.com/libsv/go-bk/bec"
	"github.com/libsv/go-bk/crypto"
	"github.com/libsv/go-bt/v2"
	"github.com/libsv/go-bt/v2/bscript"
	"github.com/libsv/go-bt/v2/bscript/interpreter"
	"github.com/libsv/go-bt/v2/ord"
	"github.com/libsv/go-bt/v2/unlocker"
	"pgregory.net/rapid"

	"verif/harness/pbt"
	"verif/harness/ref"
)

func TestMain(m *testing.M) { pbt.Main(m) }

// ---------------------------------------------------------------------------
// case type

// Rate is a mining fee quote: Sat satoshis per Bytes bytes.
type Rate struct {
	Sat   int `json:"sat"`
	Bytes int `json:"bytes"`
}

// Fund is one funding UTXO of the buyer / bidder (P2PKH of BuyerKeys[Key]).
type Fund struct {
	TxID pbt.Hex `json:"txid"`
	Vout uint32  `json:"vout"`
	Sats uint64  `json:"sats"`
	Key  int     `json:"key"`
}

// Content is an inscription carried by the ordinal UTXO's locking script.
type Content struct {
	CT   pbt.Hex `json:"ct"`
	Data pbt.Hex `json:"data"`
}

// Flow is one run of a listing or bidding flow pair.
type Flow struct {
	Variant      string    `json:"variant"` // list | list2d | bid | bid2d
	SellerKey    pbt.Hex   `json:"seller_key"`
	BuyerKeys    []pbt.Hex `json:"buyer_keys"`
	OrdTxID      pbt.Hex   `json:"ord_txid"`
	OrdVout      uint32    `json:"ord_vout"`
	OrdSats      uint64    `json:"ord_sats"`
	OrdContent   *Content  `json:"ord_content,omitempty"` // nil: plain P2PKH ordinal output
	Price        uint64    `json:"price"`
	SellerScript pbt.Hex   `json:"seller_script"`
	Funding      []Fund    `json:"funding"`
	Receive      pbt.Hex   `json:"receive"`
	Dummy        pbt.Hex   `json:"dummy"`
	Change       pbt.Hex   `json:"change"`
	Std          Rate      `json:"std"`
	Data         Rate      `json:"data"`
	// fields the flows' argument structs export and ordinary use leaves at zero
	Extra       []Fund `json:"extra,omitempty"`        // bid2d: the seller's AcceptBid2DArgs.ExtraUTXOs (P2PKH of the seller key; Key unused)
	UTXOSeq     uint32 `json:"utxo_seq,omitempty"`     // UTXO.SequenceNumber of every UTXO object handed in
	OrdUnlocker bool   `json:"ord_unlocker,omitempty"` // the ordinal UTXO object carries the seller's Unlocker as well
	// round 11: ... or, when this is a valid key, the unlocker of ANOTHER key (a wallet's default unlocker
	// attached to every UTXO object); the flows take an explicit OrdinalUnlocker argument, which is the
	// documented signer of the ordinal input
	OrdUnlockerKey pbt.Hex `json:"ord_unlocker_key,omitempty"`
	// what happens to the partially signed transaction between maker and taker (transit_test.go)
	Transit       []Alter `json:"transit,omitempty"`
	ValidateFirst bool    `json:"validate_first,omitempty"` // the taker calls Validate on the received object before the acceptance
	// informational (how the generator placed the funding relative to its
	// independently computed fee threshold); the oracle never reads them
	Target string `json:"target,omitempty"`
	Delta  int64  `json:"delta,omitempty"`
}

// ---------------------------------------------------------------------------
// independent helpers (script building, sizes, fees, FIFO)

var curveN = bec.S256().N

func validKey(b []byte) bool {
	if len(b) != 32 {
		return false
	}
	k := new(big.Int).SetBytes(b)
	return k.Sign() > 0 && k.Cmp(curveN) < 0
}

func privKey(b []byte) *bec.PrivateKey {
	k, _ := bec.PrivKeyFromBytes(bec.S256(), b)
	return k
}

func p2pkhOfHash(h []byte) []byte {
	s := []byte{0x76, 0xa9, 0x14}
	s = append(s, h...)
	return append(s, 0x88, 0xac)
}

func p2pkhOfKey(k *bec.PrivateKey) []byte {
	return p2pkhOfHash(crypto.Hash160(k.PubKey().SerialiseCompressed()))
}

// refPush is the minimal push of d (empty => OP_0).
func refPush(d []byte) []byte {
	n := len(d)
	var p []byte
	switch {
	case n <= 75:
		p = []byte{byte(n)}
	case n <= 0xff:
		p = []byte{0x4c, byte(n)}
	case n <= 0xffff:
		p = []byte{0x4d, 0, 0}
		binary.LittleEndian.PutUint16(p[1:], uint16(n))
	default:
		p = []byte{0x4e, 0, 0, 0, 0}
		binary.LittleEndian.PutUint32(p[1:], uint32(n))
	}
	return append(p, d...)
}

// refInscription is the 1Sat-ordinals envelope appended to a locking script prefix.
func refInscription(prefix, ct, data []byte) []byte {
	s := append([]byte{}, prefix...)
	s = append(s, 0x00, 0x63)
	s = append(s, refPush([]byte("ord"))...)
	s = append(s, 0x51)
	s = append(s, refPush(ct)...)
	s = append(s, 0x00)
	s = append(s, refPush(data)...)
	return append(s, 0x68)
}

func isDataScript(s []byte) bool {
	return (len(s) > 0 && s[0] == 0x6a) || (len(s) > 1 && s[0] == 0x00 && s[1] == 0x6a)
}

func varintLen(n uint64) uint64 {
	switch {
	case n < 0xfd:
		return 1
	case n <= 0xffff:
		return 3
	case n <= 0xffffffff:
		return 5
	}
	return 9
}

// sizes returns (standard bytes, data bytes) of a transaction given the
// unlocking script lengths of its inputs and its output scripts.
func sizes(unlockLens []int, outScripts [][]byte) (std, data uint64) {
	tot := uint64(4 + 4)
	tot += varintLen(uint64(len(unlockLens)))
	for _, l := range unlockLens {
		tot += 32 + 4 + varintLen(uint64(l)) + uint64(l) + 4
	}
	tot += varintLen(uint64(len(outScripts)))
	for _, s := range outScripts {
		tot += 8 + varintLen(uint64(len(s))) + uint64(len(s))
		if isDataScript(s) {
			data += uint64(len(s))
		}
	}
	return tot - data, data
}

// quotedFee is the fee a quote asks for: floor(bytes*sat/per) per fee type, in
// unbounded integers.
func quotedFee(std, data uint64, rs, rd Rate) *big.Int {
	f := func(n uint64, r Rate) *big.Int {
		x := new(big.Int).Mul(new(big.Int).SetUint64(n), big.NewInt(int64(r.Sat)))
		return x.Div(x, big.NewInt(int64(r.Bytes)))
	}
	return new(big.Int).Add(f(std, rs), f(data, rd))
}

func quote(rs, rd Rate) *bt.FeeQuote {
	fq := bt.NewFeeQuote()
	fq.AddQuote(bt.FeeTypeStandard, &bt.Fee{FeeType: bt.FeeTypeStandard,
		MiningFee: bt.FeeUnit{Satoshis: rs.Sat, Bytes: rs.Bytes}, RelayFee: bt.FeeUnit{Satoshis: rs.Sat, Bytes: rs.Bytes}})
	fq.AddQuote(bt.FeeTypeData, &bt.Fee{FeeType: bt.FeeTypeData,
		MiningFee: bt.FeeUnit{Satoshis: rd.Sat, Bytes: rd.Bytes}, RelayFee: bt.FeeUnit{Satoshis: rd.Sat, Bytes: rd.Bytes}})
	return fq
}

type spent struct {
	script []byte
	sats   uint64
}

func outpoint(txid []byte, vout uint32) string {
	return hex.EncodeToString(txid) + ":" + fmt.Sprint(vout)
}

// ---------------------------------------------------------------------------
// running the library flows

var bg = context.Background()

type world struct {
	c         Flow
	seller    *bec.PrivateKey
	buyers    []*bec.PrivateKey
	ordScript []byte
	spent     map[string]spent
	applied   []string // alterations in transit that applied (evidence)
}

func build(c Flow) (*world, string) {
	if !validKey(c.SellerKey) || len(c.BuyerKeys) == 0 {
		return nil, "invalid key"
	}
	w := &world{c: c, seller: privKey(c.SellerKey), spent: map[string]spent{}}
	for _, b := range c.BuyerKeys {
		if !validKey(b) {
			return nil, "invalid key"
		}
		w.buyers = append(w.buyers, privKey(b))
	}
	if len(c.OrdTxID) != 32 || c.Std.Bytes <= 0 || c.Data.Bytes <= 0 || c.Std.Sat < 0 || c.Data.Sat < 0 {
		return nil, "outside domain"
	}
	w.ordScript = p2pkhOfKey(w.seller)
	if c.OrdContent != nil {
		w.ordScript = refInscription(w.ordScript, c.OrdContent.CT, c.OrdContent.Data)
	}
	w.spent[outpoint(c.OrdTxID, c.OrdVout)] = spent{w.ordScript, c.OrdSats}
	for _, f := range c.Funding {
		if len(f.TxID) != 32 || f.Key < 0 || f.Key >= len(w.buyers) {
			return nil, "outside domain"
		}
		k := outpoint(f.TxID, f.Vout)
		if _, dup := w.spent[k]; dup {
			return nil, "duplicate outpoint"
		}
		w.spent[k] = spent{p2pkhOfKey(w.buyers[f.Key]), f.Sats}
	}
	for _, f := range c.Extra {
		if len(f.TxID) != 32 {
			return nil, "outside domain"
		}
		k := outpoint(f.TxID, f.Vout)
		if _, dup := w.spent[k]; dup {
			return nil, "duplicate outpoint"
		}
		w.spent[k] = spent{p2pkhOfKey(w.seller), f.Sats}
	}
	return w, ""
}

func script(b []byte) *bscript.Script { return bscript.NewFromBytes(append([]byte{}, b...)) }

func (w *world) ordUTXO() *bt.UTXO {
	u := &bt.UTXO{TxID: append([]byte{}, w.c.OrdTxID...), Vout: w.c.OrdVout, LockingScript: script(w.ordScript), Satoshis: w.c.OrdSats, SequenceNumber: w.c.UTXOSeq}
	if w.c.OrdUnlocker && w.seller != nil {
		var su bt.Unlocker = &unlocker.Simple{PrivateKey: w.seller}
		if validKey(w.c.OrdUnlockerKey) {
			k, _ := bec.PrivKeyFromBytes(bec.S256(), w.c.OrdUnlockerKey)
			su = &unlocker.Simple{PrivateKey: k}
		}
		u.Unlocker = &su
	}
	return u
}

// extraUTXOs are the seller's own UTXOs offered through AcceptBid2DArgs.ExtraUTXOs.
func (w *world) extraUTXOs() []*bt.UTXO {
	var us []*bt.UTXO
	for _, f := range w.c.Extra {
		var u bt.Unlocker = &unlocker.Simple{PrivateKey: w.seller}
		us = append(us, &bt.UTXO{TxID: append([]byte{}, f.TxID...), Vout: f.Vout, LockingScript: script(p2pkhOfKey(w.seller)),
			Satoshis: f.Sats, Unlocker: &u, SequenceNumber: w.c.UTXOSeq})
	}
	return us
}

func (w *world) fundUTXOs() []*bt.UTXO {
	us := make([]*bt.UTXO, 0, len(w.c.Funding))
	for _, f := range w.c.Funding {
		var u bt.Unlocker = &unlocker.Simple{PrivateKey: w.buyers[f.Key]}
		us = append(us, &bt.UTXO{TxID: append([]byte{}, f.TxID...), Vout: f.Vout, LockingScript: script(p2pkhOfKey(w.buyers[f.Key])),
			Satoshis: f.Sats, Unlocker: &u, SequenceNumber: w.c.UTXOSeq})
	}
	return us
}

// run drives one flow pair through the exported API exactly as the package's
// own tests do. stage names the step that returned the error.
func (w *world) run() (tx *bt.Tx, stage string, err error) {
	c := w.c
	var su bt.Unlocker = &unlocker.Simple{PrivateKey: w.seller}
	switch c.Variant {
	case "list", "list2d":
		pstx, err := ord.ListOrdinalForSale(bg, &ord.ListOrdinalArgs{
			SellerReceiveOutput: &bt.Output{Satoshis: c.Price, LockingScript: script(c.SellerScript)},
			OrdinalUTXO:         w.ordUTXO(),
			OrdinalUnlocker:     su,
		})
		if err != nil {
			return nil, "list", err
		}
		if pstx, w.applied, err = w.transit(pstx); err != nil {
			return nil, "transit", err
		}
		args := &ord.AcceptListingArgs{PSTx: pstx, UTXOs: w.fundUTXOs(), BuyerReceiveOrdinalScript: script(c.Receive),
			DummyOutputScript: script(c.Dummy), ChangeScript: script(c.Change), FQ: quote(c.Std, c.Data)}
		vla := &ord.ValidateListingArgs{ListedOrdinalUTXO: w.ordUTXO()}
		if c.ValidateFirst && !vla.Validate(pstx) {
			return nil, "validate", bt.ErrInvalidSellOffer
		}
		if c.Variant == "list" {
			tx, err = ord.AcceptOrdinalSaleListing(bg, vla, args)
		} else {
			tx, err = ord.AcceptOrdinalSaleListing2Dummies(bg, vla, args)
		}
		return tx, "accept", err
	case "bid":
		pstx, err := ord.MakeBidToBuy1SatOrdinal(bg, &ord.MakeBidArgs{BidAmount: c.Price, OrdinalTxID: hex.EncodeToString(c.OrdTxID),
			OrdinalVOut: c.OrdVout, BidderUTXOs: w.fundUTXOs(), BuyerReceiveOrdinalScript: script(c.Receive),
			DummyOutputScript: script(c.Dummy), ChangeScript: script(c.Change), FQ: quote(c.Std, c.Data)})
		if err != nil {
			return nil, "bid", err
		}
		if pstx, w.applied, err = w.transit(pstx); err != nil {
			return nil, "transit", err
		}
		vba := &ord.ValidateBidArgs{OrdinalUTXO: w.ordUTXO(), BidAmount: c.Price, ExpectedFQ: quote(c.Std, c.Data)}
		if c.ValidateFirst && !vba.Validate(pstx) {
			return nil, "validate", bt.ErrInvalidSellOffer
		}
		tx, err = ord.AcceptBidToBuy1SatOrdinal(bg, vba,
			&ord.AcceptBidArgs{PSTx: pstx, SellerReceiveScript: script(c.SellerScript), OrdinalUnlocker: su})
		return tx, "accept", err
	case "bid2d":
		pstx, err := ord.MakeBidToBuy1SatOrdinal2Dummies(bg, &ord.MakeBid2DArgs{BidAmount: c.Price, OrdinalTxID: hex.EncodeToString(c.OrdTxID),
			OrdinalVOut: c.OrdVout, BidderUTXOs: w.fundUTXOs(), BuyerReceiveOrdinalScript: script(c.Receive),
			DummyOutputScript: script(c.Dummy), ChangeScript: script(c.Change), FQ: quote(c.Std, c.Data)})
		if err != nil {
			return nil, "bid", err
		}
		// the seller sees the bidder's inputs with the ordinal at index 2
		fu := w.fundUTXOs()
		prev := append([]*bt.UTXO{}, fu[:2]...)
		prev = append(prev, w.ordUTXO())
		prev = append(prev, fu[2:]...)
		if pstx, w.applied, err = w.transit(pstx); err != nil {
			return nil, "transit", err
		}
		vba := &ord.ValidateBid2DArgs{PreviousUTXOs: prev, BidAmount: c.Price, ExpectedFQ: quote(c.Std, c.Data)}
		if c.ValidateFirst && !vba.Validate(pstx) {
			return nil, "validate", bt.ErrInvalidSellOffer
		}
		tx, err = ord.AcceptBidToBuy1SatOrdinal2Dummies(bg, vba,
			&ord.AcceptBid2DArgs{PSTx: pstx, SellerReceiveOrdinalScript: script(c.SellerScript), OrdinalUnlocker: su, ExtraUTXOs: w.extraUTXOs()})
		return tx, "accept", err
	}
	return nil, "", fmt.Errorf("unknown variant %q", c.Variant)
}

func errClass(err error) string {
	for _, k := range []struct {
		e error
		n string
	}{
		{bt.ErrInsufficientUTXOs, "ErrInsufficientUTXOs"}, {bt.ErrInsufficientUTXOValue, "ErrInsufficientUTXOValue"},
		{bt.ErrInsufficientFees, "ErrInsufficientFees"}, {bt.ErrInsufficientInputs, "ErrInsufficientInputs"},
		{bt.ErrInvalidSellOffer, "ErrInvalidSellOffer"}, {bt.ErrUnsupportedScript, "ErrUnsupportedScript"},
		{bt.ErrEmptyScripts, "ErrEmptyScripts"}, {bt.ErrUTXOInputMismatch, "ErrUTXOInputMismatch"},
	} {
		if errors.Is(err, k.e) {
			return k.n
		}
	}
	if err.Error() == "only receive to p2pkh supported for now" {
		return "p2pkh-only"
	}
	return "other"
}

// ---------------------------------------------------------------------------
// the oracle over a completed transaction

func judge(ctx *pbt.Ctx, w *world, tx *bt.Tx, fee bool) error {
	c := w.c
	m := ref.FromLib(tx)
	for i := range m.In { // judge the wire transaction only: drop whatever previous-output data the object carries
		m.In[i].PrevNil, m.In[i].PrevScript, m.In[i].PrevSats = true, nil, 0
	}
	wire := ref.Encode(m, false)
	if len(m.In) == 0 || len(m.Out) == 0 {
		return fmt.Errorf("completed transaction has %d inputs and %d outputs", len(m.In), len(m.Out))
	}

	// every input spends one of the known outpoints, each at most once
	ordKey := outpoint(c.OrdTxID, c.OrdVout)
	ordIdx := -1
	seen := map[string]bool{}
	prev := make([]spent, len(m.In))
	var inTotal, ordOffset uint64
	for i, in := range m.In {
		k := outpoint(in.TxID, in.Vout)
		sp, ok := w.spent[k]
		if !ok || seen[k] {
			return fmt.Errorf("input %d spends %s which is not one of the supplied UTXOs (or spends it twice)", i, k)
		}
		seen[k] = true
		prev[i] = sp
		if k == ordKey {
			ordIdx = i
			ordOffset = inTotal
		}
		inTotal += sp.sats
	}
	if ordIdx < 0 {
		return fmt.Errorf("completed transaction does not spend the ordinal UTXO %s", ordKey)
	}

	if fee {
		return judgeFee(ctx, w, m, prev, wire, inTotal)
	}

	// (1) every input is accepted by the interpreter against its real spent output
	for i := range m.In {
		lib := ref.ToLib(m)
		err := interpreter.NewEngine().Execute(
			interpreter.WithTx(lib, i, &bt.Output{LockingScript: script(prev[i].script), Satoshis: prev[i].sats}),
			interpreter.WithForkID(), interpreter.WithAfterGenesis())
		if err != nil {
			who := "buyer/bidder"
			if i == ordIdx {
				who = "seller (ordinal)"
			}
			return fmt.Errorf("input %d (%s) is rejected by the interpreter: %v\ntx %x", i, who, err, wire)
		}
	}

	// (2) listing flows: seller's requested output unchanged at the seller input's index
	if c.Variant == "list" || c.Variant == "list2d" {
		if ordIdx >= len(m.Out) {
			return fmt.Errorf("seller input is at index %d but there are only %d outputs\ntx %x", ordIdx, len(m.Out), wire)
		}
		o := m.Out[ordIdx]
		if o.Sats != c.Price || !bytes.Equal(o.Script, c.SellerScript) {
			return fmt.Errorf("output %d (index of the seller's SINGLE|ANYONECANPAY input) is {%d %x}, the seller asked for {%d %x}\ntx %x",
				ordIdx, o.Sats, []byte(o.Script), c.Price, []byte(c.SellerScript), wire)
		}
	}

	// (3) FIFO satoshi flow: the ordinal's first satoshi lands in an output with the buyer's script
	var cum uint64
	dest := -1
	for k, o := range m.Out {
		if dest < 0 && ordOffset < cum+o.Sats {
			dest = k
		}
		cum += o.Sats
	}
	outTotal := cum
	if dest < 0 {
		return fmt.Errorf("ordinal satoshi (input %d, offset %d) falls past the outputs (total %d): it is paid to the miner\ntx %x", ordIdx, ordOffset, outTotal, wire)
	}
	if !bytes.Equal(m.Out[dest].Script, c.Receive) {
		return fmt.Errorf("ordinal satoshi (input %d, offset %d) lands in output %d with script %x, not the buyer's receive script %x\ntx %x",
			ordIdx, ordOffset, dest, []byte(m.Out[dest].Script), []byte(c.Receive), wire)
	}

	if len(m.Out) > 3 {
		ctx.Label("change:yes")
	} else {
		ctx.Label("change:no")
	}
	return nil
}

// judgeFee is clause (4): the final signed transaction pays at least the quoted fee.
func judgeFee(ctx *pbt.Ctx, w *world, m ref.Tx, prev []spent, wire []byte, inTotal uint64) error {
	c := w.c
	var outTotal uint64
	for _, o := range m.Out {
		outTotal += o.Sats
	}
	if outTotal > inTotal {
		return fmt.Errorf("outputs %d exceed inputs %d\ntx %x", outTotal, inTotal, wire)
	}
	paid := new(big.Int).SetUint64(inTotal - outTotal)
	var dataBytes uint64
	for _, o := range m.Out {
		if isDataScript(o.Script) {
			dataBytes += uint64(len(o.Script))
		}
	}
	need := quotedFee(uint64(len(wire))-dataBytes, dataBytes, c.Std, c.Data)
	if paid.Cmp(need) < 0 {
		return fmt.Errorf("%s: completed transaction pays %s sat, the quote (%d/%d std, %d/%d data) asks %s sat for %d bytes (%d data)\ninputs %s\ntx %x",
			c.Variant, paid, c.Std.Sat, c.Std.Bytes, c.Data.Sat, c.Data.Bytes, need, len(wire), dataBytes, describeIn(m, prev), wire)
	}

	// evidence
	nOut := 3
	if len(m.Out) > nOut {
		ctx.Label("change:yes")
	} else {
		ctx.Label("change:no")
	}
	surplus := new(big.Int).Sub(paid, need)
	switch {
	case surplus.Sign() == 0:
		ctx.Label("fee:exact")
	case surplus.Cmp(big.NewInt(8)) <= 0:
		ctx.Label("fee:+1..8")
	default:
		ctx.Label("fee:more")
	}
	return nil
}

func describeIn(m ref.Tx, prev []spent) string {
	s := ""
	for i := range m.In {
		s += fmt.Sprintf("[%d sat, unlock %d B]", prev[i].sats, len(m.In[i].Unlock))
	}
	return s
}

func checkFlow(ctx *pbt.Ctx, c Flow, fee bool) error {
	w, bad := build(c)
	if w == nil {
		ctx.Discard(bad)
		return nil
	}
	ctx.Label("variant:" + c.Variant)
	tx, stage, err := w.run()
	if err != nil || tx == nil {
		// a flow may refuse (insufficient funds, unsupported script...): the
		// property speaks about completed transactions only
		if err == nil {
			err = errors.New("nil transaction")
		}
		ctx.Label(c.Variant + ":" + stage + ":" + errClass(err))
		for _, a := range w.applied {
			ctx.Label("transit:" + a + ":refused")
		}
		return nil
	}
	ctx.Label(c.Variant + ":completed")
	for _, a := range w.applied {
		ctx.Label("transit:" + a + ":completed")
	}
	if c.ValidateFirst {
		ctx.Label("path:validate-then-accept")
	} else {
		ctx.Label("path:accept-only")
	}
	ctx.Label("target:" + c.Target)
	ctx.Labelf("nfund:%d", len(c.Funding))
	if c.OrdContent != nil {
		ctx.Label("ordinal:inscription")
	} else {
		ctx.Label("ordinal:p2pkh")
	}
	if c.OrdSats > 1 {
		ctx.Label("ordinal:>1sat")
	}
	if len(c.Extra) > 0 {
		ctx.Label("args:extra-utxos")
	}
	if c.UTXOSeq != 0 {
		ctx.Label("args:utxo-sequence-number")
	}
	if c.OrdUnlocker {
		ctx.Label("args:ordinal-utxo-unlocker")
		if validKey(c.OrdUnlockerKey) {
			ctx.Label("args:ordinal-utxo-unlocker-of-another-key")
		}
	}
	if c.Std.Sat > c.Std.Bytes {
		ctx.Label("rate:>1sat/B")
	} else if c.Std.Sat == 0 {
		ctx.Label("rate:0")
	} else {
		ctx.Label("rate:<=1sat/B")
	}
	if !bytes.Equal(c.Receive, c.Dummy) && !bytes.Equal(c.Receive, c.Change) && !bytes.Equal(c.Receive, c.SellerScript) {
		ctx.NonTrivial()
	}
	return judge(ctx, w, tx, fee)
}

// ---------------------------------------------------------------------------
// generator

func genKey(t *rapid.T, label string) pbt.Hex {
	switch rapid.IntRange(0, 15).Draw(t, label+"_kind") {
	case 0:
		b := make([]byte, 32)
		b[31] = byte(rapid.IntRange(1, 3).Draw(t, label+"_small"))
		return b
	case 1:
		n := new(big.Int).Sub(curveN, big.NewInt(int64(rapid.IntRange(1, 3).Draw(t, label+"_top"))))
		return n.FillBytes(make([]byte, 32))
	}
	b := gen.Bytes(t, 32, label)
	b[0] &= 0x7f // < N
	if new(big.Int).SetBytes(b).Sign() == 0 {
		b[31] = 1
	}
	return b
}

var mimes = []string{"text/plain;charset=utf-8", "image/png", "application/json", "text/html", "a", ""}

func genContent(t *rapid.T, maxData int, label string) *Content {
	var ct []byte
	if rapid.IntRange(0, 3).Draw(t, label+"_ctkind") == 0 {
		ct = gen.FillBytes(t, gen.EdgeLen(t, 300, label+"_ctlen", 0, 1, 75, 76, 255, 256), label+"_ct")
	} else {
		ct = []byte(rapid.SampledFrom(mimes).Draw(t, label+"_mime"))
	}
	n := gen.EdgeLen(t, maxData, label+"_dlen", 0, 1, 2, 75, 76, 255, 256)
	return &Content{CT: ct, Data: gen.FillBytes(t, n, label+"_data")}
}

// genOutScript draws an output script: mostly P2PKH, sometimes arbitrary bytes
// on push-length boundaries, sometimes a data (OP_RETURN) script.
func genOutScript(t *rapid.T, label string, p2pkhOnly, noData bool) pbt.Hex {
	k := rapid.IntRange(0, 11).Draw(t, label+"_kind")
	if p2pkhOnly && k > 0 {
		k = 0
	}
	if noData && k == 11 {
		k = 9
	}
	switch {
	case k <= 8:
		return p2pkhOfHash(genFree(t, 20, label+"_h"))
	case k <= 10:
		n := gen.EdgeLen(t, 300, label+"_len", 0, 1, 24, 26, 75, 76, 252, 253, 254, 255, 256)
		raw := gen.FillBytes(t, n, label+"_raw")
		if noData && isDataScript(raw) {
			raw[0] = 0x51
		}
		return raw
	}
	pre := []byte{0x6a}
	if rapid.Bool().Draw(t, label+"_safe") {
		pre = []byte{0x00, 0x6a}
	}
	return append(pre, refPush(gen.FillBytes(t, gen.EdgeLen(t, 300, label+"_dlen", 0, 1, 75, 76, 255, 256), label+"_d"))...)
}

var rates = []Rate{{5, 100}, {50, 1000}, {1, 1000}, {500, 1000}, {1, 1}, {2, 1}, {3, 1}, {7, 3}, {1001, 1000}, {999, 1000}, {0, 1000}, {1, 1000000}, {25, 1}}

func genRate(t *rapid.T, label string) Rate {
	if rapid.IntRange(0, 3).Draw(t, label+"_kind") == 0 {
		return Rate{Sat: rapid.IntRange(0, 5000).Draw(t, label+"_sat"), Bytes: rapid.IntRange(1, 1000).Draw(t, label+"_bytes")}
	}
	return rapid.SampledFrom(rates).Draw(t, label)
}

func genPrice(t *rapid.T) uint64 {
	switch rapid.IntRange(0, 5).Draw(t, "price_kind") {
	case 0:
		return rapid.SampledFrom([]uint64{0, 1, 2, 3, 545, 546, 1000, 1_000_000, 100_000_000, 2_100_000_000_000}).Draw(t, "price")
	case 1:
		return rapid.Uint64Range(1, 1_000_000_000_000).Draw(t, "price")
	}
	return rapid.Uint64Range(1, 5000).Draw(t, "price")
}

const estUnlock = 107 // 1+72 (DER max with low S + hash type) + 1+33 (compressed key)

func genFlow(t *rapid.T, variant string) Flow { return genFlowWith(t, variant, nil, Share{}) }

// Share says which parts of a flow are taken over from an earlier flow (used by
// the sequence sub-checks; the zero value takes over nothing).
type Share struct {
	Ordinal bool `json:"ordinal,omitempty"` // same seller key and ordinal UTXO
	Listing bool `json:"listing,omitempty"` // same price and seller script as well (one listing / one asking price)
	Scripts bool `json:"scripts,omitempty"` // same receive / dummy / change scripts
	FQ      bool `json:"fq,omitempty"`      // same fee quote
	Funding bool `json:"funding,omitempty"` // same buyer keys and funding UTXOs
}

// genFlowWith draws a flow; with a base, the shared parts are the base's and
// everything else (in particular the funding relative to the fee threshold) is
// drawn for this flow on its own. All draws happen either way.
func genFlowWith(t *rapid.T, variant string, base *Flow, sh Share) Flow {
	c := Flow{Variant: variant}
	listing := c.Variant == "list" || c.Variant == "list2d"
	twoD := c.Variant == "list2d" || c.Variant == "bid2d"
	c.SellerKey = genKey(t, "seller")
	nk := rapid.IntRange(1, 3).Draw(t, "nkeys")
	for i := 0; i < nk; i++ {
		c.BuyerKeys = append(c.BuyerKeys, genKey(t, "buyer"))
	}
	c.OrdTxID = genFree(t, 32, "ord_txid")
	c.OrdVout = uint32(rapid.IntRange(0, 100).Draw(t, "ord_vout"))
	c.OrdSats = 1
	if listing && rapid.IntRange(0, 9).Draw(t, "ord_multi") == 0 {
		c.OrdSats = rapid.Uint64Range(2, 10000).Draw(t, "ord_sats") // the bid flows are documented for 1 sat ordinals only
	}
	if rapid.IntRange(0, 2).Draw(t, "ord_kind") > 0 {
		c.OrdContent = genContent(t, 400, "ord")
	}
	c.Price = genPrice(t)
	c.SellerScript = genOutScript(t, "seller_script", c.Variant == "bid2d" && rapid.IntRange(0, 9).Draw(t, "seller_p2pkh") > 0, false)
	if base != nil && sh.Ordinal {
		c.SellerKey, c.OrdTxID, c.OrdVout, c.OrdSats, c.OrdContent = base.SellerKey, base.OrdTxID, base.OrdVout, base.OrdSats, base.OrdContent
	}
	if base != nil && sh.Listing {
		c.Price, c.SellerScript = base.Price, base.SellerScript
	}
	c.Receive = genOutScript(t, "receive", false, false)
	c.Dummy = genOutScript(t, "dummy", false, false)
	// The change script is never an OP_RETURN data script: how Tx.Change prices a
	// data-script change output is C10's subject, not a sale-flow question.
	if rapid.IntRange(0, 3).Draw(t, "change_same") == 0 && !isDataScript(c.Dummy) {
		c.Change = append(pbt.Hex{}, c.Dummy...) // as in the package's own tests
	} else {
		c.Change = genOutScript(t, "change", false, true)
	}
	c.Std, c.Data = genRate(t, "std"), genRate(t, "data")
	if base != nil && sh.Scripts {
		c.Receive, c.Dummy, c.Change = base.Receive, base.Dummy, base.Change
	}
	if base != nil && sh.FQ {
		c.Std, c.Data = base.Std, base.Data
	}

	n := rapid.IntRange(2, 6).Draw(t, "nfund")
	if twoD && n == 2 && rapid.IntRange(0, 9).Draw(t, "nfund_2d_short") > 0 {
		n = 3 // two UTXOs are refused by the two-dummies variants; keep that path but rare
	}

	// independent fee threshold for the final transaction without change:
	// n+1 inputs with full-size P2PKH unlocking scripts, three outputs
	ul := make([]int, n+1)
	for i := range ul {
		ul[i] = estUnlock
	}
	outs := [][]byte{c.Dummy, c.SellerScript, c.Receive}
	s0, d0 := sizes(ul, outs)
	f0 := quotedFee(s0, d0, c.Std, c.Data)
	s1, d1 := sizes(ul, append(outs, c.Change))
	fc := quotedFee(s1, d1, c.Std, c.Data)
	if !f0.IsInt64() || f0.Int64() > 1<<40 {
		f0 = big.NewInt(1 << 40)
	}
	F0 := f0.Int64()
	dChange := new(big.Int).Sub(fc, f0).Int64()
	if dChange < 0 || dChange > 1<<40 {
		dChange = 0
	}

	var delta int64
	dk := rapid.IntRange(0, 9).Draw(t, "delta_kind")
	if c.Variant == "bid2d" && dk <= 4 && rapid.Bool().Draw(t, "delta_2d") {
		dk = 5 // a two-dummies bid without a change output is always refused: spend more cases where change appears
	}
	switch k := dk; {
	case k <= 2:
		c.Target = "boundary+-4"
		delta = int64(rapid.IntRange(-4, 4).Draw(t, "delta"))
	case k <= 4:
		c.Target = "within-200-bytes"
		b := int64(rapid.IntRange(-200, 200).Draw(t, "delta_bytes"))
		delta = b*int64(c.Std.Sat)/int64(c.Std.Bytes) + int64(rapid.IntRange(-1, 1).Draw(t, "delta_adj"))
	case k <= 6:
		c.Target = "change-threshold"
		delta = dChange + int64(rapid.IntRange(-3, 4).Draw(t, "delta"))
	case k <= 8:
		c.Target = "ample"
		delta = dChange + int64(rapid.IntRange(50, 100000).Draw(t, "delta"))
	default:
		c.Target = "short"
		delta = -int64(rapid.Uint64Range(1, uint64(F0)+c.Price/2+1).Draw(t, "delta"))
	}
	c.Delta = delta

	// satoshis the fee-paying UTXOs must carry so that the final transaction
	// pays exactly F0 + delta
	pool := F0 + delta + 1 - int64(c.OrdSats)
	if twoD {
		pool += int64(c.Price)
	}
	payers := n - 1
	if twoD {
		payers = n - 2
	}
	if payers < 0 {
		payers = 0
	}
	vals := make([]uint64, payers)
	rem := pool
	for i := 0; i < payers; i++ {
		left := int64(payers - 1 - i)
		v := int64(1)
		if i == payers-1 {
			if rem > 1 {
				v = rem
			}
		} else if maxv := rem - left; maxv > 1 {
			if maxv-1 < 1000 {
				v = 1 + int64(rapid.IntRange(0, int(maxv-1)).Draw(t, "share_small"))
			} else {
				v = 1 + (maxv-1)/1000*int64(rapid.IntRange(0, 1000).Draw(t, "share"))
			}
		}
		vals[i] = uint64(v)
		rem -= v
	}

	mk := func(sats uint64) Fund {
		f := Fund{TxID: genFree(t, 32, "txid"), Vout: uint32(rapid.IntRange(0, 5).Draw(t, "vout")), Sats: sats, Key: rapid.IntRange(0, nk-1).Draw(t, "key")}
		if rapid.IntRange(0, 7).Draw(t, "same_txid") == 0 && len(c.Funding) > 0 {
			f.TxID = append(pbt.Hex{}, c.Funding[len(c.Funding)-1].TxID...)
		}
		return f
	}
	if twoD {
		for i := 0; i < 2 && i < n; i++ {
			c.Funding = append(c.Funding, mk(rapid.Uint64Range(1, 2000).Draw(t, "dummy_sats")))
		}
		for _, v := range vals {
			c.Funding = append(c.Funding, mk(v))
		}
	} else {
		bigv := c.Price + 1 + rapid.SampledFrom([]uint64{0, 0, 0, 1, 10, 1000, 1_000_000}).Draw(t, "big_extra")
		if rapid.IntRange(0, 19).Draw(t, "no_big") == 0 {
			bigv = c.Price - min(c.Price, uint64(rapid.IntRange(0, 3).Draw(t, "big_short")))
			if bigv == 0 {
				bigv = 1
			}
		}
		bigIdx := rapid.IntRange(0, n-1).Draw(t, "big_idx")
		vi := 0
		for i := 0; i < n; i++ {
			if i == bigIdx {
				c.Funding = append(c.Funding, mk(bigv))
			} else {
				c.Funding = append(c.Funding, mk(vals[vi]))
				vi++
			}
		}
	}
	// distinct outpoints by construction
	used := map[string]bool{outpoint(c.OrdTxID, c.OrdVout): true}
	for i := range c.Funding {
		for used[outpoint(c.Funding[i].TxID, c.Funding[i].Vout)] {
			c.Funding[i].Vout++
		}
		used[outpoint(c.Funding[i].TxID, c.Funding[i].Vout)] = true
	}
	if base != nil && sh.Funding {
		c.BuyerKeys, c.Funding, c.Target, c.Delta = base.BuyerKeys, base.Funding, "shared-funding", 0
	}
	// the exported fields ordinary use leaves at zero
	if c.Variant == "bid2d" && rapid.IntRange(0, 2).Draw(t, "extra") == 0 {
		for i, n := 0, rapid.IntRange(1, 2).Draw(t, "extra_n"); i < n; i++ {
			f := Fund{TxID: gen.Bytes(t, 32, "extra_txid"), Vout: uint32(rapid.IntRange(0, 5).Draw(t, "extra_vout")), Sats: rapid.Uint64Range(1, 100000).Draw(t, "extra_sats")}
			for used[outpoint(f.TxID, f.Vout)] {
				f.Vout++
			}
			used[outpoint(f.TxID, f.Vout)] = true
			c.Extra = append(c.Extra, f)
		}
	}
	if rapid.IntRange(0, 3).Draw(t, "utxo_seq") == 0 {
		c.UTXOSeq = rapid.SampledFrom([]uint32{1, 0xfffffffe, 0xffffffff, 0x80000000, 12345}).Draw(t, "utxo_seq_v")
	}
	c.OrdUnlocker = rapid.IntRange(0, 3).Draw(t, "ord_unlocker") == 0
	if c.OrdUnlocker && rapid.Bool().Draw(t, "ord_unlocker_other") {
		k := rapid.SliceOfN(rapid.Byte(), 32, 32).Draw(t, "ord_unlocker_key")
		k[0] &= 0x7f
		k[31] |= 1
		c.OrdUnlockerKey = k
	}
	genTransit(t, &c)
	return c
}

var variants = []string{"list", "list2d", "bid", "bid2d"}

// TestFlows: clauses (1)-(3) — interpreter acceptance of every input, seller
// output position (listing flows), FIFO routing of the ordinal satoshi.
func TestFlows(t *testing.T) {
	for _, v := range variants {
		v := v
		t.Run(v, func(t *testing.T) { // a sub-test each, so that one failing variant does not hide the others
			pbt.Run(t, pbt.Sub[Flow]{
				Name: "valid-" + v, Quick: 12000, Thorough: 150000,
				Gen:   func(t *rapid.T) Flow { return genFlow(t, v) },
				Check: func(ctx *pbt.Ctx, c Flow) error { return checkFlow(ctx, c, false) },
			})
		})
	}
}

// TestFees: clause (4) — the completed transaction pays at least the quoted fee.
func TestFees(t *testing.T) {
	for _, v := range variants {
		v := v
		t.Run(v, func(t *testing.T) {
			pbt.Run(t, pbt.Sub[Flow]{
				Name: "fee-" + v, Quick: 12000, Thorough: 150000,
				Gen:   func(t *rapid.T) Flow { return genFlow(t, v) },
				Check: func(ctx *pbt.Ctx, c Flow) error { return checkFlow(ctx, c, true) },
			})
		})
	}
}
