package c20

import (
	"context"
	"encoding/hex"
	"errors"
	"fmt"
	"testing"

	"github.com/libsv/go-bt/v2"
	"github.com/libsv/go-bt/v2/bscript"
	"github.com/libsv/go-bt/v2/ord"
	"github.com/libsv/go-bt/v2/unlocker"
	"pgregory.net/rapid"

	"verif/harness/pbt"
)

// ---------------------------------------------------------------------------
// retry sub-checks retry-<variant> (ninth round): a step of a flow FAILS first
// and is then tried again with the same Go objects.
//
// Every step of the flows works with collaborators the caller supplies -
// unlockers (the seller's for the listing / the acceptance of a bid, one per
// funding UTXO for the acceptance of a listing / the making of a bid), a fee
// quote, a set of funding UTXOs. A collaborator can fail: a signer is not
// reachable and returns an error (or, badly behaved, no script and no error),
// a UTXO's unlocker is not there yet, the quote lacks a fee type, the funding
// handed over is short. A program then tries the step again: the same listing
// / bid object, the same argument struct (or a new one holding the same
// objects), the same UTXO objects and slice, the same unlocker objects (which
// now answer), the same quote object (completed by AddQuote), the full
// funding. Up to two failed attempts of the maker's step and of the taker's
// step are injected, at a drawn unlocker call.
//
// A failed attempt is never a violation, whatever error it returns. Every
// transaction a step COMPLETES with collaborators that behaved (a transaction
// completed although an unlocker handed back no script is set aside: it is
// the collaborator that broke it) is judged by the four clauses exactly as in
// valid-* and fee-*, from its wire bytes and the case's table of spent
// outputs. What a failed attempt leaves behind in the objects it was given -
// the listing above all, whose input and output the acceptance puts into the
// new transaction by pointer - is what the next attempt builds on.
// ---------------------------------------------------------------------------

// Fault is what goes wrong in one attempt.
type Fault struct {
	// error:      the At-th UnlockingScript call of the attempt returns an error
	// nilscript:  ... returns (nil, nil)
	// nounlocker: funding UTXO At carries a nil Unlocker value during the attempt
	// fq-std / fq-data: the quote object lacks that fee type during the attempt
	// short:      the last At+1 funding UTXOs are withheld from the attempt
	Kind string `json:"kind"`
	At   int    `json:"at"`
}

// Retry is one case.
type Retry struct {
	F     Flow    `json:"f"`
	Maker []Fault `json:"maker,omitempty"` // failed attempts of ListOrdinalForSale / MakeBidToBuy1SatOrdinal*
	Taker []Fault `json:"taker,omitempty"` // failed attempts of AcceptOrdinalSaleListing* / AcceptBidToBuy1SatOrdinal*
	// NewArgs: every attempt gets a new argument struct holding the same objects (default: the same struct)
	NewArgs bool `json:"new_args,omitempty"`
	// CallerSlice: an attempt is handed the caller's own funding slice again; default: the slice as the
	// argument struct holds it after the attempt before
	CallerSlice bool `json:"caller_slice,omitempty"`
}

var errInjected = errors.New("injected fault: the signer is not reachable")

// signers is the state shared by the unlockers of one step: which call of the running attempt fails.
type signers struct {
	cur    *Fault
	calls  int
	fired  bool // the fault of the running attempt took effect
	broken bool // an unlocker handed back no script and no error in the running attempt
}

func (s *signers) arm(f *Fault) { s.cur, s.calls, s.fired, s.broken = f, 0, false, false }

type flaky struct {
	inner bt.Unlocker
	st    *signers
}

func (u *flaky) UnlockingScript(ctx context.Context, tx *bt.Tx, up bt.UnlockerParams) (*bscript.Script, error) {
	n := u.st.calls
	u.st.calls++
	if f := u.st.cur; f != nil && n == f.At {
		switch f.Kind {
		case "error":
			u.st.fired = true
			return nil, errInjected
		case "nilscript":
			u.st.fired, u.st.broken = true, true
			return nil, nil
		}
	}
	return u.inner.UnlockingScript(ctx, tx, up)
}

func feeOf(ft bt.FeeType, r Rate) *bt.Fee {
	return &bt.Fee{FeeType: ft, MiningFee: bt.FeeUnit{Satoshis: r.Sat, Bytes: r.Bytes}, RelayFee: bt.FeeUnit{Satoshis: r.Sat, Bytes: r.Bytes}}
}

// step holds the collaborators of one step (maker's or taker's) and applies / repairs faults.
type step struct {
	c      Flow
	st     *signers
	fq     *bt.FeeQuote
	all    []*bt.UTXO    // the caller's funding slice (nil for steps without funding)
	real   []bt.Unlocker // the unlockers the funding UTXOs carry when nothing is wrong
	faults []Fault
}

// before arms attempt i (i == len(faults): the attempt without a fault) and returns the funding to hand in.
func (s *step) before(i int) (cur *Fault, funding []*bt.UTXO) {
	// repair whatever the attempt before was given
	for k, u := range s.all {
		*u.Unlocker = s.real[k]
	}
	if s.fq != nil {
		s.fq.AddQuote(bt.FeeTypeStandard, feeOf(bt.FeeTypeStandard, s.c.Std))
		s.fq.AddQuote(bt.FeeTypeData, feeOf(bt.FeeTypeData, s.c.Data))
	}
	funding = s.all
	if i < len(s.faults) {
		cur = &s.faults[i]
		switch cur.Kind {
		case "nounlocker":
			if cur.At < len(s.all) {
				*s.all[cur.At].Unlocker = nil
			}
		case "fq-std":
			s.fq.AddQuote(bt.FeeTypeStandard, nil)
		case "fq-data":
			s.fq.AddQuote(bt.FeeTypeData, nil)
		case "short":
			if n := len(s.all) - 1 - cur.At; n >= 0 {
				funding = s.all[:n]
			}
		}
	}
	s.st.arm(cur)
	return cur, funding
}

func (w *world) flakyFunding(st *signers) (us []*bt.UTXO, real []bt.Unlocker) {
	for _, f := range w.c.Funding {
		var u bt.Unlocker = &flaky{inner: &unlocker.Simple{PrivateKey: w.buyers[f.Key]}, st: st}
		real = append(real, u)
		us = append(us, &bt.UTXO{TxID: append([]byte{}, f.TxID...), Vout: f.Vout, LockingScript: script(p2pkhOfKey(w.buyers[f.Key])),
			Satoshis: f.Sats, Unlocker: &u, SequenceNumber: w.c.UTXOSeq})
	}
	return us, real
}

type attemptResult struct {
	tx     *bt.Tx
	broken bool
}

func validFaults(fs []Fault, funding bool, nfund int) bool {
	if len(fs) > 2 {
		return false
	}
	for _, f := range fs {
		switch f.Kind {
		case "error", "nilscript":
			if f.At < 0 || f.At > 8 {
				return false
			}
		case "fq-std", "fq-data":
		case "nounlocker", "short":
			if !funding || f.At < 0 || f.At >= nfund {
				return false
			}
		default:
			return false
		}
	}
	return true
}

func checkRetry(ctx *pbt.Ctx, c Retry) error {
	f := c.F
	v := f.Variant
	listing := v == "list" || v == "list2d"
	if !listing && v != "bid" && v != "bid2d" {
		ctx.Discard("malformed case")
		return nil
	}
	if len(f.Transit) > 0 || f.ValidateFirst {
		ctx.Discard("malformed case")
		return nil
	}
	w, bad := build(f)
	if w == nil {
		ctx.Discard(bad)
		return nil
	}
	// the maker's step has funding in the bid flows, the taker's step in the listing flows
	if !validFaults(c.Maker, !listing, len(f.Funding)) || !validFaults(c.Taker, listing, len(f.Funding)) {
		ctx.Discard("malformed case")
		return nil
	}
	if listing {
		for _, x := range c.Maker {
			if x.Kind == "fq-std" || x.Kind == "fq-data" {
				ctx.Discard("malformed case") // ListOrdinalForSale takes no quote
				return nil
			}
		}
	}
	if v == "bid2d" && len(f.Funding) < 2 {
		ctx.Discard("outside domain")
		return nil
	}

	var done []*bt.Tx // completed by collaborators that behaved
	label := func(stage string, i int, cur *Fault, st *signers, err error, completed bool) {
		kind := "none"
		if cur != nil {
			kind = cur.Kind
		}
		out := "refused"
		switch {
		case completed && st.broken:
			out = "completed-by-a-broken-signer(set aside)"
		case completed:
			out = "completed"
		case err != nil && errors.Is(err, errInjected):
			out = "failed:injected"
		case err != nil:
			out = "failed:" + errClass(err)
		}
		ctx.Labelf("%s:attempt%d:fault=%s:%s", stage, i+1, kind, out)
	}

	mst, tst := &signers{}, &signers{}
	var sellerU bt.Unlocker
	var pstx *bt.Tx
	ordU := w.ordUTXO()
	sc := newSeqScripts(f)
	failedBefore, after := false, false // an attempt gave nothing usable; a transaction was completed after that

	// ---- the maker's step -------------------------------------------------
	if listing {
		sellerU = &flaky{inner: &unlocker.Simple{PrivateKey: w.seller}, st: mst}
		ms := &step{c: f, st: mst, faults: c.Maker}
		la := &ord.ListOrdinalArgs{SellerReceiveOutput: &bt.Output{Satoshis: f.Price, LockingScript: script(f.SellerScript)}, OrdinalUTXO: ordU, OrdinalUnlocker: sellerU}
		for i := 0; i <= len(c.Maker) && pstx == nil; i++ {
			cur, _ := ms.before(i)
			if c.NewArgs && i > 0 {
				la = &ord.ListOrdinalArgs{SellerReceiveOutput: la.SellerReceiveOutput, OrdinalUTXO: la.OrdinalUTXO, OrdinalUnlocker: la.OrdinalUnlocker}
			}
			tx, err := ord.ListOrdinalForSale(bg, la)
			label("maker", i, cur, mst, err, err == nil && tx != nil)
			if err == nil && tx != nil && !mst.broken {
				pstx = tx
			} else {
				failedBefore = true
			}
		}
	} else {
		us, real := w.flakyFunding(mst)
		ms := &step{c: f, st: mst, fq: quote(f.Std, f.Data), all: us, real: real, faults: c.Maker}
		ma := &ord.MakeBidArgs{}
		ma2 := &ord.MakeBid2DArgs{}
		var held []*bt.UTXO
		for i := 0; i <= len(c.Maker) && pstx == nil; i++ {
			cur, funding := ms.before(i)
			if i > 0 && !c.CallerSlice && (cur == nil || cur.Kind != "short") && len(held) == len(us) {
				funding = held // the slice as the argument struct holds it after the attempt before
			}
			var tx *bt.Tx
			var err error
			if v == "bid" {
				if c.NewArgs {
					ma = &ord.MakeBidArgs{}
				}
				ma.BidAmount, ma.OrdinalTxID, ma.OrdinalVOut, ma.BidderUTXOs = f.Price, hex.EncodeToString(f.OrdTxID), f.OrdVout, funding
				ma.BuyerReceiveOrdinalScript, ma.DummyOutputScript, ma.ChangeScript, ma.FQ = sc.receive, sc.dummy, sc.change, ms.fq
				tx, err = ord.MakeBidToBuy1SatOrdinal(bg, ma)
				held = ma.BidderUTXOs
			} else {
				if c.NewArgs {
					ma2 = &ord.MakeBid2DArgs{}
				}
				ma2.BidAmount, ma2.OrdinalTxID, ma2.OrdinalVOut, ma2.BidderUTXOs = f.Price, hex.EncodeToString(f.OrdTxID), f.OrdVout, funding
				ma2.BuyerReceiveOrdinalScript, ma2.DummyOutputScript, ma2.ChangeScript, ma2.FQ = sc.receive, sc.dummy, sc.change, ms.fq
				tx, err = ord.MakeBidToBuy1SatOrdinal2Dummies(bg, ma2)
				held = ma2.BidderUTXOs
			}
			label("maker", i, cur, mst, err, err == nil && tx != nil)
			if err == nil && tx != nil && !mst.broken && (cur == nil || cur.Kind != "short") {
				// (a bid made from part of the funding is a complete bid too, but the seller below
				// validates the two-dummy variant against the full funding: keep to that one)
				pstx = tx
			} else {
				failedBefore = true
			}
		}
	}
	if pstx == nil {
		ctx.Label(v + ":no-offer")
		return nil
	}

	// ---- the taker's step -------------------------------------------------
	if listing {
		us, real := w.flakyFunding(tst)
		ts := &step{c: f, st: tst, fq: quote(f.Std, f.Data), all: us, real: real, faults: c.Taker}
		args := &ord.AcceptListingArgs{}
		var held []*bt.UTXO
		for i := 0; i <= len(c.Taker); i++ {
			cur, funding := ts.before(i)
			if i > 0 && !c.CallerSlice && (cur == nil || cur.Kind != "short") && len(held) == len(us) {
				funding = held
			}
			if c.NewArgs {
				args = &ord.AcceptListingArgs{}
			}
			args.PSTx, args.UTXOs, args.BuyerReceiveOrdinalScript, args.DummyOutputScript, args.ChangeScript, args.FQ = pstx, funding, sc.receive, sc.dummy, sc.change, ts.fq
			tx, err := acceptListing(v, &ord.ValidateListingArgs{ListedOrdinalUTXO: ordU}, args)
			held = args.UTXOs
			ok := err == nil && tx != nil
			label("taker", i, cur, tst, err, ok)
			if ok && !tst.broken {
				done = append(done, tx)
				after = after || failedBefore
				if cur == nil || cur.Kind != "short" {
					break // the sale is made
				}
			} else {
				failedBefore = true
			}
		}
	} else {
		sellerU = &flaky{inner: &unlocker.Simple{PrivateKey: w.seller}, st: tst}
		ts := &step{c: f, st: tst, fq: quote(f.Std, f.Data), faults: c.Taker}
		aba := &ord.AcceptBidArgs{}
		aba2 := &ord.AcceptBid2DArgs{}
		extra := w.extraUTXOs()
		for _, e := range extra {
			var u bt.Unlocker = &flaky{inner: *e.Unlocker, st: tst}
			e.Unlocker = &u
		}
		fu := w.fundUTXOs()
		for i := 0; i <= len(c.Taker); i++ {
			cur, _ := ts.before(i)
			var tx *bt.Tx
			var err error
			if v == "bid" {
				if c.NewArgs {
					aba = &ord.AcceptBidArgs{}
				}
				aba.PSTx, aba.SellerReceiveScript, aba.OrdinalUnlocker = pstx, script(f.SellerScript), sellerU
				tx, err = ord.AcceptBidToBuy1SatOrdinal(bg, &ord.ValidateBidArgs{OrdinalUTXO: ordU, BidAmount: f.Price, ExpectedFQ: ts.fq}, aba)
			} else {
				prev := append([]*bt.UTXO{}, fu[:2]...)
				prev = append(prev, ordU)
				prev = append(prev, fu[2:]...)
				if c.NewArgs {
					aba2 = &ord.AcceptBid2DArgs{}
				}
				aba2.PSTx, aba2.SellerReceiveOrdinalScript, aba2.OrdinalUnlocker, aba2.ExtraUTXOs = pstx, script(f.SellerScript), sellerU, extra
				tx, err = ord.AcceptBidToBuy1SatOrdinal2Dummies(bg, &ord.ValidateBid2DArgs{PreviousUTXOs: prev, BidAmount: f.Price, ExpectedFQ: ts.fq}, aba2)
			}
			ok := err == nil && tx != nil
			label("taker", i, cur, tst, err, ok)
			if ok && !tst.broken {
				done = append(done, tx)
				after = after || failedBefore
				break
			}
			failedBefore = true
		}
	}

	// ---- everything is examined only now ----------------------------------
	for k, tx := range done {
		for _, fee := range []bool{false, true} {
			if jerr := judge(&pbt.Ctx{}, w, tx, fee); jerr != nil {
				return fmt.Errorf("transaction %d of %d completed by the %s flow after failed attempts (maker faults %+v, taker faults %+v, new_args=%v caller_slice=%v): %v",
					k+1, len(done), v, c.Maker, c.Taker, c.NewArgs, c.CallerSlice, jerr)
			}
		}
	}
	ctx.Labelf("%s:completed=%d", v, len(done))
	if after {
		ctx.Label(v + ":completed-after-a-failed-attempt")
		ctx.NonTrivial()
	}
	return nil
}

func genFaults(t *rapid.T, label string, funding bool, nfund int, quote bool) []Fault {
	n := rapid.SampledFrom([]int{0, 1, 1, 1, 2}).Draw(t, label+"_n")
	var fs []Fault
	for i := 0; i < n; i++ {
		kinds := []string{"error", "error", "nilscript"}
		if quote {
			kinds = append(kinds, "fq-std", "fq-data")
		}
		if funding {
			kinds = append(kinds, "error", "error", "nounlocker", "short")
		}
		f := Fault{Kind: rapid.SampledFrom(kinds).Draw(t, label+"_kind")}
		switch {
		case f.Kind == "error" || f.Kind == "nilscript":
			if funding {
				f.At = rapid.IntRange(0, nfund-1).Draw(t, label+"_at") // every funding unlocker is asked once, in order
			}
		case f.Kind == "nounlocker":
			f.At = rapid.IntRange(0, nfund-1).Draw(t, label+"_at")
		case f.Kind == "short":
			f.At = rapid.IntRange(0, min(nfund-1, 2)).Draw(t, label+"_at")
		}
		fs = append(fs, f)
	}
	return fs
}

func genRetry(t *rapid.T, v string) Retry {
	c := Retry{F: genFlow(t, v)}
	c.F.Transit, c.F.ValidateFirst = nil, false
	listing := v == "list" || v == "list2d"
	n := len(c.F.Funding)
	c.Maker = genFaults(t, "maker", !listing, n, !listing)
	c.Taker = genFaults(t, "taker", listing, n, true)
	if len(c.Maker) == 0 && len(c.Taker) == 0 {
		c.Taker = []Fault{{Kind: "error", At: 0}}
		if listing {
			c.Taker[0].At = rapid.IntRange(0, n-1).Draw(t, "taker_at")
		}
	}
	c.NewArgs = rapid.IntRange(0, 3).Draw(t, "new_args") == 0
	c.CallerSlice = rapid.Bool().Draw(t, "caller_slice")
	return c
}

// TestRetry: all four clauses on every transaction completed after failed attempts.
func TestRetry(t *testing.T) {
	for _, v := range variants {
		v := v
		t.Run(v, func(t *testing.T) {
			pbt.Run(t, pbt.Sub[Retry]{
				Name: "retry-" + v, Quick: 6000, Thorough: 80000,
				Gen:   func(t *rapid.T) Retry { return genRetry(t, v) },
				Check: checkRetry,
			})
		})
	}
}
