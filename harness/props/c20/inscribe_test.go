package c20

import (
	"bytes"
	"encoding/binary"
	"fmt"
	"testing"

	"github.com/libsv/go-bt/v2"
	"github.com/libsv/go-bt/v2/bscript"
	"pgregory.net/rapid"

	"verif/harness/pbt"
)

// Blob is a byte string of length Len stored compactly: byte i is
// Pat[i mod len(Pat)] + i div len(Pat) (all zero when Pat is empty).
type Blob struct {
	Len int     `json:"len"`
	Pat pbt.Hex `json:"pat"`
}

func (b Blob) bytes() []byte {
	out := make([]byte, b.Len)
	if len(b.Pat) == 0 {
		return out
	}
	for i := range out {
		out[i] = b.Pat[i%len(b.Pat)] + byte(i/len(b.Pat))
	}
	return out
}

// Item is one inscription.
type Item struct {
	CT       Blob   `json:"ct"`
	Data     Blob   `json:"data"`
	NilData  bool   `json:"nil_data,omitempty"` // pass a nil slice for empty data
	OpReturn []Blob `json:"op_return,omitempty"`
}

// Insc is a transaction receiving several inscriptions.
type Insc struct {
	PrefixHash pbt.Hex `json:"prefix_hash"` // 20 bytes: the P2PKH prefix is 76 a9 14 <hash> 88 ac
	Shared     bool    `json:"shared"`      // all items use one LockingScriptPrefix object
	Cap        int     `json:"cap"`         // capacity of the prefix slice(s), >= 25
	Pre        int     `json:"pre"`         // outputs already in the transaction
	Items      []Item  `json:"items"`
}

type token struct {
	push bool
	op   byte
	data []byte
}

// tokenize is an independent script reader (any push form; OP_0 is the empty push).
func tokenize(s []byte) ([]token, error) {
	var out []token
	for i := 0; i < len(s); {
		op := s[i]
		i++
		var n int
		switch {
		case op == 0x00:
			out = append(out, token{push: true})
			continue
		case op <= 0x4b:
			n = int(op)
		case op == 0x4c:
			if i+1 > len(s) {
				return out, fmt.Errorf("truncated PUSHDATA1 at %d", i)
			}
			n = int(s[i])
			i++
		case op == 0x4d:
			if i+2 > len(s) {
				return out, fmt.Errorf("truncated PUSHDATA2 at %d", i)
			}
			n = int(binary.LittleEndian.Uint16(s[i:]))
			i += 2
		case op == 0x4e:
			if i+4 > len(s) {
				return out, fmt.Errorf("truncated PUSHDATA4 at %d", i)
			}
			n = int(binary.LittleEndian.Uint32(s[i:]))
			i += 4
		default:
			out = append(out, token{op: op})
			continue
		}
		if i+n > len(s) {
			return out, fmt.Errorf("push of %d bytes at %d runs past the end", n, i)
		}
		out = append(out, token{push: true, data: s[i : i+n]})
		i += n
	}
	return out, nil
}

// envelope checks, with the independent reader, that after the 25-byte prefix
// the script is OP_FALSE OP_IF "ord" OP_1 <ct> OP_0 <data> OP_ENDIF [OP_RETURN <parts>...].
func envelope(s, prefix, ct, data []byte, opret [][]byte) error {
	if len(s) < 25 || !bytes.Equal(s[:25], prefix) {
		return fmt.Errorf("script does not start with the locking script prefix")
	}
	tk, err := tokenize(s[25:])
	if err != nil {
		return err
	}
	want := []token{{push: true}, {op: 0x63}, {push: true, data: []byte("ord")}, {op: 0x51}, {push: true, data: ct}, {push: true}, {push: true, data: data}, {op: 0x68}}
	if len(opret) > 0 {
		want = append(want, token{op: 0x6a})
		for _, p := range opret {
			want = append(want, token{push: true, data: p})
		}
	}
	if len(tk) != len(want) {
		return fmt.Errorf("envelope has %d tokens, expected %d", len(tk), len(want))
	}
	for i := range want {
		if tk[i].push != want[i].push || tk[i].op != want[i].op || !bytes.Equal(tk[i].data, want[i].data) {
			return fmt.Errorf("envelope token %d is {push=%v op=%02x data=%s}, expected {push=%v op=%02x data=%s}",
				i, tk[i].push, tk[i].op, short(tk[i].data), want[i].push, want[i].op, short(want[i].data))
		}
	}
	return nil
}

func short(b []byte) string {
	if len(b) > 24 {
		return fmt.Sprintf("%x..(%d bytes)", b[:24], len(b))
	}
	return fmt.Sprintf("%x", b)
}

func boundary(n int) bool {
	switch n {
	case 0, 1, 75, 76, 255, 256, 65535, 65536:
		return true
	}
	return n >= 100000
}

func lenLabel(n int) string {
	switch {
	case boundary(n) && n < 100000:
		return fmt.Sprint(n)
	case n < 75:
		return "2..74"
	case n < 255:
		return "77..254"
	case n < 65535:
		return "257..65534"
	}
	return ">65536"
}

func checkInsc(ctx *pbt.Ctx, c Insc) error {
	if len(c.PrefixHash) != 20 || c.Cap < 25 || len(c.Items) == 0 || c.Pre < 0 {
		ctx.Discard("outside domain")
		return nil
	}
	prefix := p2pkhOfHash(c.PrefixHash)
	newPrefix := func() *bscript.Script {
		p := make(bscript.Script, 25, c.Cap)
		copy(p, prefix)
		return &p
	}
	tx := bt.NewTx()
	for i := 0; i < c.Pre; i++ {
		tx.AddOutput(&bt.Output{Satoshis: uint64(i + 1), LockingScript: script(prefix)})
	}
	shared := newPrefix()
	type want struct {
		ct, data []byte
		opret    [][]byte
	}
	wants := make([]want, len(c.Items))
	for k, it := range c.Items {
		w := want{ct: it.CT.bytes(), data: it.Data.bytes()}
		for _, b := range it.OpReturn {
			w.opret = append(w.opret, b.bytes())
		}
		wants[k] = w
		pfx := shared
		if !c.Shared {
			pfx = newPrefix()
		}
		args := &bscript.InscriptionArgs{LockingScriptPrefix: pfx, ContentType: string(w.ct), Data: append([]byte{}, w.data...)}
		if it.NilData && len(w.data) == 0 {
			args.Data = nil
		}
		if len(w.opret) > 0 {
			cp := make([][]byte, len(w.opret))
			for i := range cp {
				cp[i] = append([]byte{}, w.opret[i]...)
			}
			args.EnrichedArgs = &bscript.EnrichedInscriptionArgs{OpReturnData: cp}
		}
		if err := tx.Inscribe(args); err != nil {
			return fmt.Errorf("Inscribe item %d (ct %d bytes, data %d bytes) failed: %v", k, len(w.ct), len(w.data), err)
		}
	}
	if tx.OutputCount() != c.Pre+len(c.Items) {
		return fmt.Errorf("transaction has %d outputs after %d inscriptions on top of %d outputs", tx.OutputCount(), len(c.Items), c.Pre)
	}
	nontrivial := false
	for k, w := range wants {
		out := tx.Outputs[c.Pre+k]
		if out == nil || out.LockingScript == nil {
			return fmt.Errorf("inscription output %d is missing", k)
		}
		s := []byte(*out.LockingScript)
		// independent reading of what was written
		if err := envelope(s, prefix, w.ct, w.data, w.opret); err != nil {
			return fmt.Errorf("inscription %d of %d (shared prefix=%v cap=%d; ct %s, data %s): locking script %s does not carry it: %v",
				k, len(wants), c.Shared, c.Cap, short(w.ct), short(w.data), short(s), err)
		}
		// round trip through the library's parser
		got, err := out.LockingScript.ParseInscription()
		if err != nil {
			return fmt.Errorf("inscription %d: ParseInscription(%s) failed: %v", k, short(s), err)
		}
		if got.LockingScriptPrefix == nil || !bytes.Equal(*got.LockingScriptPrefix, prefix) {
			return fmt.Errorf("inscription %d: parsed prefix differs from the 25-byte prefix inscribed", k)
		}
		if got.ContentType != string(w.ct) {
			if len(w.ct) == 0 && got.ContentType == "\x00" && ctx.Known("L33") {
				// recorded finding: an empty item comes back as the single byte 00
			} else {
				return fmt.Errorf("inscription %d: content type %s parsed back as %s", k, short(w.ct), short([]byte(got.ContentType)))
			}
		}
		if !bytes.Equal(got.Data, w.data) {
			if len(w.data) == 0 && bytes.Equal(got.Data, []byte{0}) && ctx.Known("L33") {
				// recorded finding, as above
			} else {
				return fmt.Errorf("inscription %d: data %s parsed back as %s", k, short(w.data), short(got.Data))
			}
		}
		ctx.Label("ct_len:" + lenLabel(len(w.ct)))
		ctx.Label("data_len:" + lenLabel(len(w.data)))
		if len(w.opret) > 0 {
			ctx.Label("enriched")
		}
		if len(w.ct) > 0 && len(w.data) > 0 {
			nontrivial = true
		}
	}
	ctx.Labelf("items:%d", len(c.Items))
	if hasMarker(c.PrefixHash) {
		ctx.Label("marker:envelope-start-in-key-hash")
	}
	for _, w := range wants {
		if hasMarker(w.ct) || hasMarker(w.data) {
			ctx.Label("marker:envelope-start-in-content")
			break
		}
	}
	if c.Shared && len(c.Items) > 1 {
		if c.Cap > 25 {
			ctx.Label("shared-prefix:spare-capacity")
		} else {
			ctx.Label("shared-prefix:tight")
		}
	}
	if nontrivial {
		ctx.NonTrivial()
	}
	return nil
}

func genBlob(t *rapid.T, n int, label string) Blob {
	if n == 0 {
		return Blob{}
	}
	if rapid.IntRange(0, 5).Draw(t, label+"_marked") == 0 {
		// the first bytes (all of them up to 40) are drawn bytes carrying one of the format's own markers
		m := n
		if m > 40 {
			m = 40
		}
		return Blob{Len: n, Pat: withMarker(t, m, label)}
	}
	return Blob{Len: n, Pat: rapid.SliceOfN(rapid.Byte(), 1, 16).Draw(t, label)}
}

// hasMarker reports whether b contains the envelope start or a complete small inscription.
func hasMarker(b []byte) bool {
	return bytes.Contains(b, formatMarkers[0])
}

func genInsc(t *rapid.T) Insc {
	c := Insc{PrefixHash: genFree(t, 20, "hash"), Shared: rapid.Bool().Draw(t, "shared"),
		Cap: rapid.SampledFrom([]int{25, 26, 32, 48, 64, 128, 4096}).Draw(t, "cap"),
		Pre: rapid.SampledFrom([]int{0, 0, 0, 1, 3}).Draw(t, "pre")}
	huge := rapid.IntRange(0, 49).Draw(t, "huge") == 0
	n := rapid.IntRange(1, 5).Draw(t, "items")
	if huge {
		n = rapid.IntRange(1, 2).Draw(t, "items_huge")
	}
	for i := 0; i < n; i++ {
		var it Item
		if rapid.IntRange(0, 2).Draw(t, "ct_kind") == 0 {
			it.CT = genBlob(t, gen.EdgeLen(t, 300, "ct_len", 0, 1, 75, 76, 255, 256), "ct")
		} else {
			m := rapid.SampledFrom(mimes).Draw(t, "mime")
			it.CT = Blob{Len: len(m), Pat: pbt.Hex(m)} // pattern as long as the string: bytes() reproduces it
		}
		dl := gen.EdgeLen(t, 2000, "data_len", 0, 1, 75, 76, 255, 256)
		if huge && i == 0 {
			dl = rapid.SampledFrom([]int{65535, 65536, 100000, 102400}).Draw(t, "data_huge")
		}
		it.Data = genBlob(t, dl, "data")
		it.NilData = dl == 0 && rapid.Bool().Draw(t, "nil_data")
		if rapid.IntRange(0, 7).Draw(t, "enriched") == 0 {
			for j, m := 0, rapid.IntRange(1, 3).Draw(t, "opret_n"); j < m; j++ {
				it.OpReturn = append(it.OpReturn, genBlob(t, gen.EdgeLen(t, 300, "opret_len", 0, 1, 75, 76, 255, 256), "opret"))
			}
		}
		c.Items = append(c.Items, it)
	}
	return c
}

var enumLens = []int{0, 1, 75, 76, 255, 256, 65535, 65536}

func TestInscribe(t *testing.T) {
	pbt.Run(t, pbt.Sub[Insc]{
		Name: "inscribe", Quick: 60000, Thorough: 2000000,
		Gen:   genInsc,
		Check: checkInsc,
		EnumDesc: "single inscriptions for every (content type length, data length) pair over {0,1,75,76,255,256,65535,65536} plus data of 100 kB and 1 MiB, " +
			"and every pair of tiny inscriptions (data 0..3 bytes) sharing one prefix object of capacity 25/48/64/4096; " +
			"every format marker (envelope start, ord push, OP_ENDIF, OP_RETURN, a complete small inscription, P2PKH frame, PUSHDATA opcodes ...) at every offset of the key hash and as content type, data and OP_RETURN arguments",
		Enum: func(tier string, yield func(Insc)) {
			h := make([]byte, 20)
			for i := range h {
				h[i] = byte(0xa0 + i)
			}
			for _, cl := range enumLens {
				for _, dl := range append(append([]int{}, enumLens...), 100000, 1<<20) {
					yield(Insc{PrefixHash: h, Cap: 25, Items: []Item{{CT: Blob{cl, pbt.Hex("t/x")}, Data: Blob{dl, pbt.Hex{1, 2, 3, 5, 7}}}}})
				}
			}
			// every marker at every offset of the key hash, and as content type / data / OP_RETURN argument
			for _, m := range formatMarkers {
				for at := 0; at+len(m) <= 20; at++ {
					hm := append([]byte{}, h...)
					copy(hm[at:], m)
					yield(Insc{PrefixHash: hm, Cap: 25, Items: []Item{{CT: Blob{3, pbt.Hex("t/x")}, Data: Blob{len(m), pbt.Hex(m)}}}})
				}
				yield(Insc{PrefixHash: h, Cap: 25, Items: []Item{
					{CT: Blob{len(m), pbt.Hex(m)}, Data: Blob{len(m), pbt.Hex(m)}},
					{CT: Blob{3, pbt.Hex("t/x")}, Data: Blob{2, pbt.Hex{7, 8}}, OpReturn: []Blob{{len(m), pbt.Hex(m)}, {len(m), pbt.Hex(m)}}}}})
			}
			for _, cp := range []int{25, 48, 64, 4096} {
				for a := 0; a <= 3; a++ {
					for b := 0; b <= 3; b++ {
						yield(Insc{PrefixHash: h, Shared: true, Cap: cp, Items: []Item{
							{CT: Blob{1, pbt.Hex("a")}, Data: Blob{a, pbt.Hex{0x11}}},
							{CT: Blob{1, pbt.Hex("b")}, Data: Blob{b, pbt.Hex{0x22}}}}})
					}
				}
			}
		},
	})
}
