package c20

import (
	"github.com/libsv/go-bt/v2"
	"pgregory.net/rapid"

	"verif/harness/pbt"
)

// ---------------------------------------------------------------------------
// Between the maker's step (listing, bid) and the taker's step (acceptance) the
// partially signed transaction passes through other hands. Everything the
// maker's signatures do NOT commit to may be different when it arrives:
//
//	listing  seller signs input 0 SINGLE|ANYONECANPAY|FORKID: commits to its own input and
//	         to output 0. The acceptance builds a new transaction around that input and
//	         output, so the carrier's version / lock time and anything appended are free.
//	bid      bidder signs inputs 0, 2, 3.. SINGLE|FORKID: each commits to all outpoints, its
//	         own sequence number, the output at its own index, version and lock time. Free:
//	         the payment output (index 1), outputs at indexes >= number of inputs, outputs
//	         appended, the placeholder ordinal input's sequence number and unlocking script.
//	bid2d    the same with the ordinal input / payment output at index 2.
//
// Alter describes one such difference; alterations of committed parts are skipped
// (they would only invalidate the maker's signature). "wire" = the transaction
// arrives as bytes and is decoded (the in-memory previous-output fields are gone).
// The acceptance must either refuse or complete a transaction that satisfies the
// clauses, with and without a Validate call on the received object beforehand.

// holdBackBid2DAppend was the switch that kept out.add away from bid2d while finding L38 was
// undecided (an output appended at a free index made the completed two-dummy bid underpay the
// quote; repaired in /repo, seeds replays/C20/fixed-L38-*). The shape is asserted.
const holdBackBid2DAppend = false

// Alter is one alteration in transit.
type Alter struct {
	Kind string  `json:"kind"` // wire | wire-ef | reattach | out.sats | out.script | out.add | version | locktime | ord.seq | ord.unlock
	Idx  int     `json:"idx,omitempty"`
	U64  uint64  `json:"u64,omitempty"`
	U32  uint32  `json:"u32,omitempty"`
	B    pbt.Hex `json:"b,omitempty"`
}

// freeOutput reports whether no maker signature commits to output j of the carrier.
func freeOutput(variant string, pstx *bt.Tx, j int) bool {
	switch variant {
	case "bid":
		return j == 1 || j >= len(pstx.Inputs)
	case "bid2d":
		return j == 2 || j >= len(pstx.Inputs)
	}
	return false // listing: the only output is the one the seller signed
}

// transit applies the case's alterations; it returns the transaction as the taker
// receives it and the names of the alterations that applied.
func (w *world) transit(pstx *bt.Tx) (*bt.Tx, []string, error) {
	v := w.c.Variant
	listing := v == "list" || v == "list2d"
	ordIdx := 1
	if v == "bid2d" {
		ordIdx = 2
	}
	var applied []string
	for _, a := range w.c.Transit {
		switch a.Kind {
		case "wire", "wire-ef":
			// standard serialisation loses the in-memory previous-output values and scripts,
			// the extended format carries them
			raw := pstx.Bytes()
			if a.Kind == "wire-ef" {
				for _, in := range pstx.Inputs {
					if in.PreviousTxScript == nil {
						raw = nil // an input without previous-output data cannot be written in extended format
					}
				}
				if raw == nil {
					continue
				}
				raw = pstx.ExtendedBytes()
			}
			t, err := bt.NewTxFromBytes(raw)
			if err != nil {
				return nil, applied, err
			}
			pstx = t
		case "reattach":
			// the taker restores, per input, any subset of what the standard format drops -
			// previous script (bit 2i of U32), previous value (bit 2i+1) - from the REAL
			// previous outputs (the case's table); whatever the object carried is replaced
			for i, in := range pstx.Inputs {
				sp, ok := w.spent[outpoint(in.PreviousTxID(), in.PreviousTxOutIndex)]
				if !ok || i > 15 {
					continue
				}
				if a.U32>>(2*uint(i))&1 == 1 {
					in.PreviousTxScript = script(sp.script)
				}
				if a.U32>>(2*uint(i)+1)&1 == 1 {
					in.PreviousTxSatoshis = sp.sats
				}
			}
		case "out.sats", "out.script":
			if len(pstx.Outputs) == 0 || a.Idx < 0 {
				continue
			}
			j := a.Idx % len(pstx.Outputs)
			if !freeOutput(v, pstx, j) {
				continue
			}
			if a.Kind == "out.sats" {
				pstx.Outputs[j].Satoshis = a.U64
			} else {
				pstx.Outputs[j].LockingScript = script(a.B)
			}
		case "out.add":
			// a bidder input without an output at its index has signed "no output there": only an
			// index no input corresponds to is free (a listing carries exactly one output: any
			// appended one is the taker's own business, the acceptance counts them)
			if !listing && len(pstx.Outputs) < len(pstx.Inputs) {
				continue
			}
			if holdBackBid2DAppend && v == "bid2d" {
				continue
			}
			pstx.AddOutput(&bt.Output{Satoshis: a.U64, LockingScript: script(a.B)})
		case "version":
			if !listing {
				continue
			}
			pstx.Version = a.U32
		case "locktime":
			if !listing {
				continue
			}
			pstx.LockTime = a.U32
		case "ord.seq":
			if listing || ordIdx >= len(pstx.Inputs) {
				continue
			}
			pstx.Inputs[ordIdx].SequenceNumber = a.U32
		case "ord.unlock":
			if listing || ordIdx >= len(pstx.Inputs) {
				continue
			}
			pstx.Inputs[ordIdx].UnlockingScript = script(a.B)
		default:
			continue
		}
		applied = append(applied, a.Kind)
	}
	return pstx, applied, nil
}

func genTransit(t *rapid.T, c *Flow) {
	c.ValidateFirst = rapid.Bool().Draw(t, "validate_first")
	if rapid.IntRange(0, 2).Draw(t, "transit") != 0 {
		return
	}
	kinds := []string{"wire", "wire-ef", "wire-ef", "out.sats", "out.sats", "out.sats", "out.script", "out.add", "version", "locktime", "ord.seq", "ord.unlock"}
	for i, n := 0, rapid.IntRange(1, 2).Draw(t, "transit_n"); i < n; i++ {
		a := Alter{Kind: rapid.SampledFrom(kinds).Draw(t, "transit_kind"), Idx: rapid.IntRange(0, 5).Draw(t, "transit_idx")}
		switch a.Kind {
		case "out.sats":
			switch rapid.IntRange(0, 3).Draw(t, "transit_amount") {
			case 0:
				a.U64 = 0
			case 1: // a little less / more than agreed
				d := rapid.Uint64Range(1, 3).Draw(t, "transit_delta")
				if rapid.Bool().Draw(t, "transit_less") && c.Price >= d {
					a.U64 = c.Price - d
				} else {
					a.U64 = c.Price + d
				}
			case 2:
				a.U64 = rapid.Uint64Range(0, c.Price+1).Draw(t, "transit_sats")
			default:
				a.U64 = rapid.Uint64Range(0, 1_000_000_000).Draw(t, "transit_sats_any")
			}
		case "out.add":
			a.U64 = rapid.SampledFrom([]uint64{0, 1, 546, 100000}).Draw(t, "transit_add_sats")
			a.B = genOutScript(t, "transit_add", false, true)
		case "out.script":
			a.B = genOutScript(t, "transit_script", false, true)
		case "version", "locktime", "ord.seq":
			a.U32 = rapid.SampledFrom([]uint32{0, 1, 2, 0xfffffffe, 0xffffffff, 500000000}).Draw(t, "transit_u32")
		case "ord.unlock":
			a.B = gen.FillBytes(t, rapid.IntRange(0, 5).Draw(t, "transit_unlock_len"), "transit_unlock")
		}
		c.Transit = append(c.Transit, a)
		if a.Kind == "wire" && rapid.IntRange(0, 4).Draw(t, "reattach") > 0 {
			// after the standard format: script only / value only / both / neither, per input
			var mask uint32
			switch rapid.IntRange(0, 4).Draw(t, "reattach_kind") {
			case 0:
				mask = 0x55555555 // every script, no value
			case 1:
				mask = 0xaaaaaaaa // every value, no script
			case 2:
				mask = 0xffffffff
			default:
				mask = rapid.Uint32().Draw(t, "reattach_mask")
			}
			c.Transit = append(c.Transit, Alter{Kind: "reattach", U32: mask})
		}
	}
}
