package c20

import (
	"reflect"
	"testing"

	"github.com/libsv/go-bt/v2/ord"
	"pgregory.net/rapid"

	"verif/harness/pbt"
)

// ---------------------------------------------------------------------------
// The format's own markers inside its free byte fields. A key hash, content
// type, payload, OP_RETURN argument or txid is arbitrary bytes; sometimes they
// are made to contain - at a drawn offset - the byte strings the formats use as
// delimiters, so that anything that searches raw bytes instead of walking the
// pushes is exposed.

var formatMarkers = [][]byte{
	{0x00, 0x63, 0x03, 0x6f, 0x72, 0x64}, // OP_FALSE OP_IF <push "ord">: the envelope start
	{0x03, 0x6f, 0x72, 0x64},             // the "ord" push
	{0x6f, 0x72, 0x64},                   // "ord"
	{0x68},                               // OP_ENDIF
	{0x6a},                               // OP_RETURN
	{0x00, 0x6a},                         // OP_FALSE OP_RETURN
	{0x68, 0x6a},                         // OP_ENDIF OP_RETURN (the enriched form's joint)
	{0x51, 0x00},                         // the field tags OP_1 / OP_0
	{0x00, 0x63, 0x03, 0x6f, 0x72, 0x64, 0x51, 0x01, 0x61, 0x00, 0x01, 0x62, 0x68}, // a complete small inscription
	{0x76, 0xa9, 0x14},     // P2PKH head
	{0x88, 0xac},           // P2PKH tail
	{0x4c}, {0x4d}, {0x4e}, // PUSHDATA1/2/4 opcodes
}

// withMarker draws n bytes that contain a marker (clipped to n) at a drawn offset.
func withMarker(t *rapid.T, n int, label string) []byte {
	b := gen.Bytes(t, n, label)
	if n == 0 {
		return b
	}
	m := formatMarkers[rapid.IntRange(0, len(formatMarkers)-1).Draw(t, label+"_marker")]
	if len(m) > n {
		m = m[:n]
	}
	copy(b[rapid.IntRange(0, n-len(m)).Draw(t, label+"_at"):], m)
	return b
}

// genFree draws a free byte field of n bytes: one time in six with a marker inside.
func genFree(t *rapid.T, n int, label string) []byte {
	if rapid.IntRange(0, 5).Draw(t, label+"_marked") == 0 {
		return withMarker(t, n, label)
	}
	return gen.Bytes(t, n, label)
}

// ---------------------------------------------------------------------------
// Generator health: every exported field of every argument struct of the four
// flows is populated by the harness in some cases. The table says where; a
// field the library exports and the table does not know fails this test, so
// that a new field cannot stay at its zero value unnoticed.

var argFieldsPopulated = map[string]string{
	"ListOrdinalArgs.SellerReceiveOutput":         "run: price + seller script",
	"ListOrdinalArgs.OrdinalUTXO":                 "run: world.ordUTXO",
	"ListOrdinalArgs.OrdinalUnlocker":             "run: seller key",
	"ValidateListingArgs.ListedOrdinalUTXO":       "run: world.ordUTXO",
	"AcceptListingArgs.PSTx":                      "run: the listing",
	"AcceptListingArgs.UTXOs":                     "run: world.fundUTXOs",
	"AcceptListingArgs.BuyerReceiveOrdinalScript": "run: Flow.Receive",
	"AcceptListingArgs.DummyOutputScript":         "run: Flow.Dummy",
	"AcceptListingArgs.ChangeScript":              "run: Flow.Change",
	"AcceptListingArgs.FQ":                        "run: Flow.Std / Flow.Data",
	"MakeBidArgs.BidAmount":                       "run: Flow.Price",
	"MakeBidArgs.OrdinalTxID":                     "run: Flow.OrdTxID",
	"MakeBidArgs.OrdinalVOut":                     "run: Flow.OrdVout",
	"MakeBidArgs.BidderUTXOs":                     "run: world.fundUTXOs",
	"MakeBidArgs.BuyerReceiveOrdinalScript":       "run: Flow.Receive",
	"MakeBidArgs.DummyOutputScript":               "run: Flow.Dummy",
	"MakeBidArgs.ChangeScript":                    "run: Flow.Change",
	"MakeBidArgs.FQ":                              "run: Flow.Std / Flow.Data",
	"ValidateBidArgs.OrdinalUTXO":                 "run: world.ordUTXO",
	"ValidateBidArgs.BidAmount":                   "run: Flow.Price",
	"ValidateBidArgs.ExpectedFQ":                  "run: Flow.Std / Flow.Data",
	"AcceptBidArgs.PSTx":                          "run: the bid",
	"AcceptBidArgs.SellerReceiveScript":           "run: Flow.SellerScript",
	"AcceptBidArgs.OrdinalUnlocker":               "run: seller key",
	"MakeBid2DArgs.BidAmount":                     "run: Flow.Price",
	"MakeBid2DArgs.OrdinalTxID":                   "run: Flow.OrdTxID",
	"MakeBid2DArgs.OrdinalVOut":                   "run: Flow.OrdVout",
	"MakeBid2DArgs.BidderUTXOs":                   "run: world.fundUTXOs",
	"MakeBid2DArgs.BuyerReceiveOrdinalScript":     "run: Flow.Receive",
	"MakeBid2DArgs.DummyOutputScript":             "run: Flow.Dummy",
	"MakeBid2DArgs.ChangeScript":                  "run: Flow.Change",
	"MakeBid2DArgs.FQ":                            "run: Flow.Std / Flow.Data",
	"ValidateBid2DArgs.PreviousUTXOs":             "run: funding with the ordinal at index 2",
	"ValidateBid2DArgs.BidAmount":                 "run: Flow.Price",
	"ValidateBid2DArgs.ExpectedFQ":                "run: Flow.Std / Flow.Data",
	"AcceptBid2DArgs.PSTx":                        "run: the bid",
	"AcceptBid2DArgs.SellerReceiveOrdinalScript":  "run: Flow.SellerScript",
	"AcceptBid2DArgs.OrdinalUnlocker":             "run: seller key",
	"AcceptBid2DArgs.ExtraUTXOs":                  "run: Flow.Extra (world.extraUTXOs)",
	"UTXO.TxID":                                   "Fund.TxID / Flow.OrdTxID",
	"UTXO.Vout":                                   "Fund.Vout / Flow.OrdVout",
	"UTXO.LockingScript":                          "P2PKH of the owner / inscription",
	"UTXO.Satoshis":                               "Fund.Sats / Flow.OrdSats",
	"UTXO.SequenceNumber":                         "Flow.UTXOSeq",
	"UTXO.Unlocker":                               "owner's key; on the ordinal UTXO with Flow.OrdUnlocker",
}

func TestArgStructFields(t *testing.T) {
	if pbt.Replaying() {
		t.Skip("generator health is not part of a replay")
	}
	for _, v := range []interface{}{ord.ListOrdinalArgs{}, ord.ValidateListingArgs{}, ord.AcceptListingArgs{}, ord.MakeBidArgs{}, ord.ValidateBidArgs{},
		ord.AcceptBidArgs{}, ord.MakeBid2DArgs{}, ord.ValidateBid2DArgs{}, ord.AcceptBid2DArgs{}, *(&world{}).ordUTXO()} {
		ty := reflect.TypeOf(v)
		for i := 0; i < ty.NumField(); i++ {
			f := ty.Field(i)
			if !f.IsExported() {
				continue
			}
			if _, ok := argFieldsPopulated[ty.Name()+"."+f.Name]; !ok {
				t.Errorf("generator health: exported field %s.%s is never populated by the C20 harness (add it to the flows' generator and to argFieldsPopulated)", ty.Name(), f.Name)
			}
		}
	}
}
