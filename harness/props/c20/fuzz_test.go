package c20

import (
	"testing"

	"pgregory.net/rapid"

	"verif/harness/pbt"
)

// FuzzFlows (thorough tier): Go's native coverage-guided fuzzer drives the generator of the
// one-dummy listing flow (rapid.MakeFuzz) with the fee clause included; same oracle as fee-list.
func FuzzFlows(f *testing.F) {
	pbt.FuzzSub(f, "C20", pbt.Sub[Flow]{Name: "fee-list",
		Gen:   func(t *rapid.T) Flow { return genFlow(t, "list") },
		Check: func(ctx *pbt.Ctx, c Flow) error { return checkFlow(ctx, c, true) }})
}
