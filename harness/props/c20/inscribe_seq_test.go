package c20

import (
	"bytes"
	"fmt"
	"testing"

	"github.com/libsv/go-bt/v2"
	"github.com/libsv/go-bt/v2/bscript"
	"pgregory.net/rapid"

	"verif/harness/pbt"
)

// ---------------------------------------------------------------------------
// sub-check inscribe-seq: a sequence of 2..6 inscriptions made one after the
// other through BOTH entry points - Tx.Inscribe on one of two long-lived
// transactions, Tx.InscribeSpecificOrdinal on a new transaction with generated
// input values - from InscriptionArgs objects that are often the SAME object
// as in the step before, edited in place by the caller (prefix bytes
// overwritten in the same storage, Data rewritten into the same backing
// array, content type and OP_RETURN parts replaced). Every inscription is
// parsed right away and the parse result is kept unexamined. After the last
// step: every inscription output must carry its own step's prefix, content
// type, data and OP_RETURN parts (independent envelope reader), the kept parse
// results must be its step's values, and parsing again must give the same.
// InscribeSpecificOrdinal additionally (its doc comment): exactly two outputs,
// the first with the extra script and exactly the satoshis that precede the
// chosen ordinal under first-in-first-out ordering (sum of the earlier inputs
// + satoshi index), the second the 1-satoshi inscription; a transaction that
// already has outputs gives ErrOutputsNotEmpty, a zero-value earlier input
// ErrInputSatsZero.
// ---------------------------------------------------------------------------

// IStep is one inscription.
type IStep struct {
	Item
	PrefixHash pbt.Hex `json:"prefix_hash"`
	Via        string  `json:"via"`             // inscribe | specific
	Tx         int     `json:"tx,omitempty"`    // inscribe: which long-lived transaction (0 / 1)
	Reuse      bool    `json:"reuse,omitempty"` // same InscriptionArgs object as the step before, edited in place
	// specific only
	InSats   []uint64 `json:"in_sats,omitempty"` // previous-output value of every input of the new transaction
	InputIdx uint32   `json:"input_idx,omitempty"`
	SatIdx   uint64   `json:"sat_idx,omitempty"`
	Extra    pbt.Hex  `json:"extra,omitempty"`   // script of the output that takes the satoshis before the ordinal
	PreOut   bool     `json:"pre_out,omitempty"` // the transaction already has an output
	// RetryAs > 0 (ninth round; zero-value earlier input only): after the refused call the caller
	// gives every zero-value input this value and calls again, on the same transaction with the same arguments
	RetryAs uint64 `json:"retry_as,omitempty"`
}

// ISeq is one case.
type ISeq struct {
	Cap   int     `json:"cap"` // capacity of prefix slices (>= 25)
	Steps []IStep `json:"steps"`
}

type iRecord struct {
	step            int
	tx              *bt.Tx
	idx             int
	prefix, ct, dat []byte
	opret           [][]byte
	parsed          *bscript.InscriptionArgs
	perr            error
}

func specificClass(s IStep) string {
	if len(s.InSats) == 0 || int(s.InputIdx) >= len(s.InSats) {
		return "out-of-range"
	}
	zeroEarlier := false
	var sum uint64
	for i := 0; i < int(s.InputIdx); i++ {
		if s.InSats[i] == 0 {
			zeroEarlier = true
		}
		sum += s.InSats[i]
	}
	for _, v := range s.InSats {
		if v > 1<<50 {
			return "out-of-range"
		}
	}
	switch {
	case zeroEarlier && s.PreOut:
		return "zero-earlier+outputs"
	case zeroEarlier:
		return "zero-earlier"
	case s.PreOut:
		return "outputs"
	case s.SatIdx >= s.InSats[s.InputIdx]:
		return "out-of-range"
	}
	return "ok"
}

func checkISeq(ctx *pbt.Ctx, c ISeq) error {
	if c.Cap < 25 || len(c.Steps) < 2 {
		ctx.Discard("outside domain")
		return nil
	}
	for _, s := range c.Steps {
		if len(s.PrefixHash) != 20 || (s.Via != "inscribe" && s.Via != "specific") || s.Tx < 0 || s.Tx > 1 {
			ctx.Discard("outside domain")
			return nil
		}
		if s.Via == "specific" && specificClass(s) == "out-of-range" {
			ctx.Discard("indices out of range (not asserted)")
			return nil
		}
	}
	long := [2]*bt.Tx{bt.NewTx(), bt.NewTx()}
	var longCount [2]int
	var args *bscript.InscriptionArgs
	var recs []iRecord
	reused := 0
	for si, s := range c.Steps {
		prefix := p2pkhOfHash(s.PrefixHash)
		ct, data := s.CT.bytes(), s.Data.bytes()
		var opret [][]byte
		for _, b := range s.OpReturn {
			opret = append(opret, b.bytes())
		}
		// the caller's argument object: new, or the previous one edited in place
		if s.Reuse && args != nil {
			copy(*args.LockingScriptPrefix, prefix) // same storage
			args.ContentType = string(ct)
			args.Data = append(args.Data[:0], data...) // same backing array when it fits
			reused++
		} else {
			p := make(bscript.Script, 25, c.Cap)
			copy(p, prefix)
			args = &bscript.InscriptionArgs{LockingScriptPrefix: &p, ContentType: string(ct), Data: append([]byte{}, data...)}
		}
		if s.NilData && len(data) == 0 {
			args.Data = nil
		}
		args.EnrichedArgs = nil
		if len(opret) > 0 {
			cp := make([][]byte, len(opret))
			for i := range cp {
				cp[i] = append([]byte{}, opret[i]...)
			}
			args.EnrichedArgs = &bscript.EnrichedInscriptionArgs{OpReturnData: cp}
		}
		rec := iRecord{step: si, prefix: prefix, ct: ct, dat: data, opret: opret}
		switch s.Via {
		case "inscribe":
			tx := long[s.Tx]
			if err := tx.Inscribe(args); err != nil {
				return fmt.Errorf("step %d: Inscribe (ct %d bytes, data %d bytes) failed: %v", si, len(ct), len(data), err)
			}
			longCount[s.Tx]++
			if tx.OutputCount() != longCount[s.Tx] {
				return fmt.Errorf("step %d: transaction %d has %d outputs after %d inscriptions", si, s.Tx, tx.OutputCount(), longCount[s.Tx])
			}
			rec.tx, rec.idx = tx, tx.OutputCount()-1
			ctx.Label("via:inscribe")
		case "specific":
			tx := bt.NewTx()
			lock := fmt.Sprintf("76a914%x88ac", []byte(s.PrefixHash))
			for i, v := range s.InSats {
				id := bytes.Repeat([]byte{byte(si + 1)}, 32)
				if err := tx.From(fmt.Sprintf("%x", id), uint32(i), lock, v); err != nil {
					return fmt.Errorf("harness: step %d From: %v", si, err)
				}
			}
			if s.PreOut {
				tx.AddOutput(&bt.Output{Satoshis: 5, LockingScript: script(prefix)})
			}
			class := specificClass(s)
			err := tx.InscribeSpecificOrdinal(args, s.InputIdx, s.SatIdx, script(s.Extra))
			ctx.Label("via:specific:" + class)
			switch class {
			case "outputs":
				// the function's documentation names ErrOutputsNotEmpty; the property's inscription clause is the
				// round trip of a COMPLETED inscription, so a refusal (with whatever error) is not judged, and
				// neither is an implementation that copes with existing outputs (benign round 2)
				if err == nil {
					ctx.Label("via:specific:outputs:not-refused")
				}
				continue
			case "zero-earlier":
				if err == nil {
					ctx.Label("via:specific:zero-earlier:not-refused")
					continue
				}
				// a refused call followed by a second attempt on the same objects: whether the second
				// call goes through is not asserted; a call that does is held to the documented result
				if s.RetryAs == 0 || s.RetryAs > 1<<50 {
					continue
				}
				s.InSats = append([]uint64{}, s.InSats...)
				for i, v := range s.InSats {
					if v == 0 {
						s.InSats[i] = s.RetryAs
						tx.Inputs[i].PreviousTxSatoshis = s.RetryAs
					}
				}
				if s.SatIdx >= s.InSats[s.InputIdx] {
					continue
				}
				if err = tx.InscribeSpecificOrdinal(args, s.InputIdx, s.SatIdx, script(s.Extra)); err != nil {
					ctx.Label("via:specific:retry-after-zero-earlier:refused")
					continue
				}
				ctx.Label("via:specific:retry-after-zero-earlier:completed")
			case "zero-earlier+outputs":
				continue
			}
			if err != nil {
				return fmt.Errorf("step %d: InscribeSpecificOrdinal(input %d of values %v, satoshi %d) failed: %v", si, s.InputIdx, s.InSats, s.SatIdx, err)
			}
			if tx.OutputCount() != 2 {
				return fmt.Errorf("step %d: InscribeSpecificOrdinal left %d outputs, documented: the extra output and the inscription", si, tx.OutputCount())
			}
			var before uint64
			for i := 0; i < int(s.InputIdx); i++ {
				before += s.InSats[i]
			}
			before += s.SatIdx
			o0 := tx.Outputs[0]
			if o0.Satoshis != before {
				return fmt.Errorf("step %d: the extra output carries %d satoshis; %d satoshis precede satoshi %d of input %d (input values %v), so the 1-satoshi inscription output receives satoshi number %d instead of the chosen ordinal",
					si, o0.Satoshis, before, s.SatIdx, s.InputIdx, s.InSats, o0.Satoshis)
			}
			if o0.LockingScript == nil || !bytes.Equal(*o0.LockingScript, s.Extra) {
				return fmt.Errorf("step %d: the extra output has script %x, handed in %x", si, scriptOf(o0), []byte(s.Extra))
			}
			if tx.Outputs[1].Satoshis != 1 {
				return fmt.Errorf("step %d: the inscription output carries %d satoshis, documented: 1", si, tx.Outputs[1].Satoshis)
			}
			rec.tx, rec.idx = tx, 1
		}
		out := rec.tx.Outputs[rec.idx]
		if out == nil || out.LockingScript == nil {
			return fmt.Errorf("step %d: inscription output is missing", si)
		}
		rec.parsed, rec.perr = out.LockingScript.ParseInscription() // kept, not examined yet
		recs = append(recs, rec)
	}

	// everything examined after the last step: first all the kept parse results
	// (before anything is parsed again), then every output once more
	cmp := func(at, what string, r iRecord, got *bscript.InscriptionArgs, err error) error {
		if err != nil || got == nil {
			return fmt.Errorf("%s: %s: failed: %v", at, what, err)
		}
		if got.LockingScriptPrefix == nil || !bytes.Equal(*got.LockingScriptPrefix, r.prefix) {
			return fmt.Errorf("%s: %s: prefix differs from the 25-byte prefix inscribed", at, what)
		}
		if got.ContentType != string(r.ct) {
			if len(r.ct) == 0 && got.ContentType == "\x00" && ctx.Known("L33") {
				// recorded finding: an empty item comes back as the single byte 00
			} else {
				return fmt.Errorf("%s: %s: content type %s came back as %s", at, what, short(r.ct), short([]byte(got.ContentType)))
			}
		}
		if !bytes.Equal(got.Data, r.dat) {
			if len(r.dat) == 0 && bytes.Equal(got.Data, []byte{0}) && ctx.Known("L33") {
				// recorded finding, as above
			} else {
				return fmt.Errorf("%s: %s: data %s came back as %s", at, what, short(r.dat), short(got.Data))
			}
		}
		return nil
	}
	where := func(r iRecord) string {
		return fmt.Sprintf("after the last step: inscription of step %d (%s)", r.step, c.Steps[r.step].Via)
	}
	for _, r := range recs {
		if err := cmp(where(r), "the result of ParseInscription kept since that step", r, r.parsed, r.perr); err != nil {
			return err
		}
	}
	nontrivial := false
	for _, r := range recs {
		at := where(r)
		out := r.tx.Outputs[r.idx]
		if out.Satoshis != 1 {
			return fmt.Errorf("%s carries %d satoshis", at, out.Satoshis)
		}
		s := []byte(*out.LockingScript)
		if err := envelope(s, r.prefix, r.ct, r.dat, r.opret); err != nil {
			return fmt.Errorf("%s: locking script %s does not carry prefix ..%x, ct %s, data %s: %v", at, short(s), r.prefix[3:7], short(r.ct), short(r.dat), err)
		}
		again, aerr := out.LockingScript.ParseInscription()
		if err := cmp(at, "ParseInscription now", r, again, aerr); err != nil {
			return err
		}
		if len(r.ct) > 0 && len(r.dat) > 0 {
			nontrivial = true
		}
		if len(r.opret) > 0 {
			ctx.Label("enriched")
		}
	}
	for _, r := range recs {
		if hasMarker(r.prefix) {
			ctx.Label("marker:envelope-start-in-key-hash")
			break
		}
	}
	ctx.Labelf("inscriptions:%d", len(recs))
	if reused > 0 {
		ctx.Label("args-object-reused-and-edited")
	}
	if nontrivial && len(recs) >= 2 {
		ctx.NonTrivial()
	}
	return nil
}

func scriptOf(o *bt.Output) []byte {
	if o == nil || o.LockingScript == nil {
		return nil
	}
	return *o.LockingScript
}

func genItem(t *rapid.T) Item {
	var it Item
	if rapid.IntRange(0, 2).Draw(t, "ct_kind") == 0 {
		it.CT = genBlob(t, gen.EdgeLen(t, 300, "ct_len", 0, 1, 75, 76, 255, 256), "ct")
	} else {
		m := rapid.SampledFrom(mimes).Draw(t, "mime")
		it.CT = Blob{Len: len(m), Pat: pbt.Hex(m)}
	}
	dl := gen.EdgeLen(t, 1000, "data_len", 0, 1, 2, 75, 76, 255, 256)
	it.Data = genBlob(t, dl, "data")
	it.NilData = dl == 0 && rapid.Bool().Draw(t, "nil_data")
	if rapid.IntRange(0, 5).Draw(t, "enriched") == 0 {
		for j, m := 0, rapid.IntRange(1, 3).Draw(t, "opret_n"); j < m; j++ {
			it.OpReturn = append(it.OpReturn, genBlob(t, gen.EdgeLen(t, 300, "opret_len", 0, 1, 75, 76, 255, 256), "opret"))
		}
	}
	return it
}

func genISeq(t *rapid.T) ISeq {
	c := ISeq{Cap: rapid.SampledFrom([]int{25, 26, 48, 128, 4096}).Draw(t, "cap")}
	n := rapid.IntRange(2, 6).Draw(t, "steps")
	hashes := [][]byte{genFree(t, 20, "hash0"), genFree(t, 20, "hash1")}
	for i := 0; i < n; i++ {
		s := IStep{Item: genItem(t), PrefixHash: hashes[rapid.IntRange(0, 1).Draw(t, "hash")], Reuse: rapid.Bool().Draw(t, "reuse")}
		if rapid.IntRange(0, 9).Draw(t, "via") < 6 {
			s.Via, s.Tx = "inscribe", rapid.IntRange(0, 1).Draw(t, "tx")
		} else {
			s.Via = "specific"
			nin := rapid.IntRange(1, 5).Draw(t, "nin")
			for k := 0; k < nin; k++ {
				v := rapid.SampledFrom([]uint64{1, 1, 2, 3, 546, 1000, 100000000, 1 << 40}).Draw(t, "in_sats_edge")
				if rapid.Bool().Draw(t, "in_sats_any") {
					v = rapid.Uint64Range(1, 1<<41).Draw(t, "in_sats")
				}
				s.InSats = append(s.InSats, v)
			}
			s.InputIdx = uint32(rapid.IntRange(0, nin-1).Draw(t, "input_idx"))
			top := s.InSats[s.InputIdx] - 1
			switch rapid.IntRange(0, 3).Draw(t, "sat_kind") {
			case 0:
				s.SatIdx = 0
			case 1:
				s.SatIdx = top
			default:
				s.SatIdx = rapid.Uint64Range(0, top).Draw(t, "sat_idx")
			}
			s.Extra = genOutScript(t, "extra", false, false)
			switch rapid.IntRange(0, 9).Draw(t, "error_case") {
			case 0:
				s.PreOut = true
			case 1:
				if s.InputIdx > 0 {
					s.InSats[rapid.IntRange(0, int(s.InputIdx)-1).Draw(t, "zero_at")] = 0
					s.RetryAs = rapid.SampledFrom([]uint64{0, 1, 2, 1000, 1 << 40}).Draw(t, "retry_as")
				}
			}
		}
		c.Steps = append(c.Steps, s)
	}
	return c
}

func TestInscribeSeq(t *testing.T) {
	pbt.Run(t, pbt.Sub[ISeq]{
		Name: "inscribe-seq", Quick: 36000, Thorough: 600000,
		Gen:      genISeq,
		Check:    checkISeq,
		EnumDesc: "InscribeSpecificOrdinal for every (number of inputs 1..4, chosen input, satoshi index first / middle / last) with input values 3, 5, 7, 11, followed by a plain Inscribe",
		Enum: func(tier string, yield func(ISeq)) {
			h := bytes.Repeat([]byte{0xb7}, 20)
			vals := []uint64{3, 5, 7, 11}
			it := Item{CT: Blob{10, pbt.Hex("text/plain")}, Data: Blob{5, pbt.Hex("hello")}}
			for nin := 1; nin <= 4; nin++ {
				for idx := 0; idx < nin; idx++ {
					for _, sat := range []uint64{0, vals[idx] / 2, vals[idx] - 1} {
						yield(ISeq{Cap: 25, Steps: []IStep{
							{Item: it, PrefixHash: h, Via: "specific", InSats: append([]uint64{}, vals[:nin]...), InputIdx: uint32(idx), SatIdx: sat, Extra: pbt.Hex{0x51}},
							{Item: it, PrefixHash: h, Via: "inscribe", Reuse: true}}})
					}
				}
			}
		},
	})
}
