package c10

import (
	"testing"

	"verif/harness/pbt"
)

// FuzzChange (thorough tier): Go's native coverage-guided fuzzer drives the `change` generator
// (rapid.MakeFuzz) - coverage feedback from the library's change / fee / size code steers the
// structured generator towards branches uniform drawing reaches rarely. Same oracle as `change`.
func FuzzChange(f *testing.F) {
	pbt.FuzzSub(f, "C10", pbt.Sub[Case]{Name: "change", Gen: genCase, Check: check})
}
