package c10

// Sub-check "history" (extension round 4): one *bt.Tx and one *bt.FeeQuote live through a
// sequence of steps - size / fee queries, in-place edits of exported fields, inputs and
// outputs appended or removed, the quote object updated with AddQuote, Fund, Clone - with
// change operations in between and at the end. Every change operation is judged by the
// oracle of the "change" sub-check against the transaction as it stood when the operation
// was called (an independent snapshot of the exported fields), so that anything the library
// remembered from an earlier call (a size, a fee, the growth of the output counter, a script
// buffer shared between two change outputs) shows up as an underpaid / burnt fee or as a
// modified pre-existing output.

import (
	"bytes"
	"context"
	"encoding/hex"
	"fmt"
	"math/big"
	"testing"

	"github.com/libsv/go-bt/v2"
	"github.com/libsv/go-bt/v2/bscript"
	"pgregory.net/rapid"

	"verif/harness/gen"
	"verif/harness/pbt"
	"verif/harness/ref"
)

// HU is one P2PKH UTXO a "fund" step's supplier hands out (one per call).
type HU struct {
	TxID pbt.Hex `json:"txid"`
	Vout uint32  `json:"vout"`
	Sats uint64  `json:"sats"`
	Hash pbt.Hex `json:"hash"`
}

// HStep is one step of a history.
type HStep struct {
	Kind string `json:"kind"`
	// change
	Dest    string  `json:"dest,omitempty"`
	Mainnet bool    `json:"mainnet,omitempty"`
	Hash    pbt.Hex `json:"hash,omitempty"` // change: address hash; addin: key hash of the spent script
	Script  pbt.Hex `json:"script,omitempty"`
	Index   uint64  `json:"index,omitempty"`
	// edits
	At    int         `json:"at,omitempty"`
	N     int         `json:"n,omitempty"`
	U64   uint64      `json:"u64,omitempty"`
	B     pbt.Hex     `json:"b,omitempty"`
	Nil   bool        `json:"nil,omitempty"`
	Data  bool        `json:"data,omitempty"`
	Unit  ref.FeeUnit `json:"unit,omitempty"`
	Tag   int         `json:"tag,omitempty"` // quote: FeeType field of the registered fee object (ref.FeeTag*)
	Via   string      `json:"via,omitempty"`   // quote: the exported way the quote object is changed (ref.FeeQuoteEdit.Via)
	Unit2 ref.FeeUnit `json:"unit2,omitempty"` // quote via unmarshal: new rate of the other type
	Utxos []HU        `json:"utxos,omitempty"`
	Rel   string      `json:"rel,omitempty"` // what the generator aimed at (informational)
}

// HistCase is a starting transaction (as in Case: Out is a template repeated up to NOut), a
// starting quote and the steps.
type HistCase struct {
	Tx    ref.Tx       `json:"tx"`
	NOut  int          `json:"nout"`
	Quote ref.FeeQuote `json:"quote"`
	Steps []HStep      `json:"steps"`
}

func hFiller(n, salt int) []byte {
	b := make([]byte, n)
	for i := range b {
		b[i] = byte(i*7 + salt*13 + 3)
	}
	return b
}

func hStepValid(st HStep) string {
	switch st.Kind {
	case "oappend":
		if st.N < 0 || st.N > 2000 {
			return "length out of range"
		}
	case "repout", "repin":
		if st.N < 0 || st.N > 600 {
			return "count out of range"
		}
	case "addin":
		if len(st.B) != 32 || len(st.Hash) != 20 {
			return "malformed input"
		}
	case "quote":
		if !ref.FeeQuoteEditWideOK(hEdit(st)) {
			return "quote outside domain"
		}
	case "fund":
		if len(st.Utxos) > 8 {
			return "too many utxos"
		}
		for _, u := range st.Utxos {
			if len(u.TxID) != 32 || len(u.Hash) != 20 {
				return "malformed utxo"
			}
		}
	}
	return ""
}

func hEdit(st HStep) ref.FeeQuoteEdit {
	return ref.FeeQuoteEdit{Via: st.Via, Data: st.Data, Unit: st.Unit, Unit2: st.Unit2, Tag: st.Tag}
}

func hCase(st HStep, q ref.FeeQuote) Case {
	return Case{Quote: q, Dest: st.Dest, Mainnet: st.Mainnet, Hash: st.Hash, Script: st.Script, Index: st.Index, Rel: st.Rel}
}

// hDeficit is max(0, out + reference fee of the estimated final size - in).
func hDeficit(m ref.Tx, q ref.FeeQuote) *big.Int {
	f, err := feeOfFinal(m, q)
	if err != nil {
		return new(big.Int)
	}
	d := new(big.Int).Add(ref.FeeSumOut(m), f)
	d.Sub(d, ref.FeeSumIn(m))
	if d.Sign() < 0 {
		d.SetInt64(0)
	}
	return d
}

// hModelStep applies a step to the model with the reference semantics (a change operation
// leaves exactly the reference fee; Fund takes UTXOs while the reference deficit is positive).
// The generator aims amounts with it; the check uses it for the edits only and re-reads the
// library object after change / fund / clone.
func hModelStep(m *ref.Tx, q *ref.FeeQuote, st HStep) (applied bool) {
	nin, nout := len(m.In), len(m.Out)
	switch st.Kind {
	case "query", "clone", "none":
	case "addin":
		m.In = append(m.In, ref.In{TxID: append(pbt.Hex{}, st.B...), Vout: uint32(st.N), Seq: 0xffffffff, UnlockNil: true, PrevSats: st.U64, PrevScript: ref.FeeP2PKH(st.Hash)})
	case "isats":
		if nin == 0 {
			return false
		}
		m.In[st.At%nin].PrevSats = st.U64
	case "iunlock":
		if nin == 0 {
			return false
		}
		i := st.At % nin
		if st.Nil {
			m.In[i].Unlock, m.In[i].UnlockNil = nil, true
		} else {
			m.In[i].Unlock, m.In[i].UnlockNil = append(pbt.Hex{}, st.B...), false
		}
	case "rmin":
		if nin < 2 {
			return false
		}
		i := st.At % nin
		m.In = append(append([]ref.In{}, m.In[:i]...), m.In[i+1:]...)
	case "addout":
		m.Out = append(m.Out, ref.Out{Sats: st.U64, Script: append(pbt.Hex{}, st.B...)})
	case "osats":
		if nout == 0 {
			return false
		}
		m.Out[st.At%nout].Sats = st.U64
	case "rmout":
		if nout == 0 {
			return false
		}
		i := st.At % nout
		m.Out = append(append([]ref.Out{}, m.Out[:i]...), m.Out[i+1:]...)
	case "oappend":
		if nout == 0 {
			return false
		}
		i := st.At % nout
		m.Out[i].Script = append(append(pbt.Hex{}, m.Out[i].Script...), hFiller(st.N, i)...)
	case "obyte":
		if nout == 0 {
			return false
		}
		i := st.At % nout
		if st.N < 0 || st.N >= len(m.Out[i].Script) {
			return false
		}
		sc := append(pbt.Hex{}, m.Out[i].Script...)
		sc[st.N] = byte(st.U64)
		m.Out[i].Script = sc
	case "repout":
		if nout == 0 {
			return false
		}
		last := m.Out[nout-1]
		for j := 0; j < st.N; j++ {
			m.Out = append(m.Out, ref.Out{Sats: 0, Script: append(pbt.Hex{}, last.Script...)})
		}
	case "repin":
		if nin == 0 {
			return false
		}
		last := m.In[nin-1]
		for j := 0; j < st.N; j++ {
			in := last
			in.TxID = append(pbt.Hex{}, last.TxID...)
			if len(in.TxID) == 32 {
				in.TxID[0], in.TxID[1], in.TxID[2] = byte(j), byte(j>>8)^0x3c, byte(nin)
			}
			in.PrevSats = 0
			in.Unlock = append(pbt.Hex{}, last.Unlock...)
			in.PrevScript = append(pbt.Hex{}, last.PrevScript...)
			m.In = append(m.In, in)
		}
	case "truncout":
		if st.N < 0 || st.N >= nout {
			return false
		}
		m.Out = m.Out[:st.N:st.N]
	case "quote":
		ref.FeeQuoteEditModel(q, hEdit(st))
	case "fund":
		for _, u := range st.Utxos {
			if hDeficit(*m, *q).Sign() == 0 {
				break
			}
			m.In = append(m.In, ref.In{TxID: append(pbt.Hex{}, u.TxID...), Vout: u.Vout, Seq: 0xffffffff, UnlockNil: true, PrevSats: u.Sats, PrevScript: ref.FeeP2PKH(u.Hash)})
		}
	case "change":
		c := hCase(st, *q)
		if inDomain(c, *m) != "" {
			return false
		}
		in, out := ref.FeeSumIn(*m), ref.FeeSumOut(*m)
		if in.Cmp(out) < 0 || (st.Dest == destExisting && st.Index >= uint64(nout)) {
			return true
		}
		f, err := feeOfFinal(withChange(c, *m), *q)
		if err != nil {
			return false
		}
		rem := new(big.Int).Sub(in, out)
		rem.Sub(rem, f)
		if rem.Cmp(new(big.Int).SetUint64(bt.DustLimit)) <= 0 {
			return true
		}
		if st.Dest == destExisting {
			m.Out[st.Index].Sats += rem.Uint64()
		} else {
			m.Out = append(m.Out, ref.Out{Sats: rem.Uint64(), Script: append(pbt.Hex{}, changeScript(c)...)})
		}
	default:
		return false
	}
	return true
}

// hLibStep performs an edit step on the library objects, in place.
func hLibStep(tx *bt.Tx, lq *ref.FeeQuoteLib, qBefore ref.FeeQuote, m ref.Tx, st HStep) error {
	fq := lq.Q
	nin, nout := len(tx.Inputs), len(tx.Outputs)
	switch st.Kind {
	case "query": // answers are C11's business; here they only give the library a chance to remember something
		_ = tx.Size()
		_ = tx.SizeWithTypes()
		_, _ = tx.EstimateSize()
		_, _ = tx.EstimateSizeWithTypes()
		_, _ = tx.EstimateFeesPaid(fq)
		_, _ = tx.EstimateIsFeePaidEnough(fq)
		_, _ = tx.IsFeePaidEnough(fq)
		_ = tx.TxID()
		_ = tx.TotalInputSatoshis()
		_ = tx.TotalOutputSatoshis()
	case "addin":
		if err := tx.From(hex.EncodeToString(st.B), uint32(st.N), hex.EncodeToString(ref.FeeP2PKH(st.Hash)), st.U64); err != nil {
			return fmt.Errorf("harness: From: %v", err)
		}
	case "isats":
		tx.Inputs[st.At%nin].PreviousTxSatoshis = st.U64
	case "iunlock":
		if st.Nil {
			tx.Inputs[st.At%nin].UnlockingScript = nil
		} else {
			tx.Inputs[st.At%nin].UnlockingScript = bscript.NewFromBytes(append([]byte{}, st.B...))
		}
	case "rmin":
		i := st.At % nin
		tx.Inputs = append(tx.Inputs[:i], tx.Inputs[i+1:]...)
	case "addout":
		tx.AddOutput(&bt.Output{Satoshis: st.U64, LockingScript: bscript.NewFromBytes(append([]byte{}, st.B...))})
	case "osats":
		tx.Outputs[st.At%nout].Satoshis = st.U64
	case "rmout":
		i := st.At % nout
		tx.Outputs = append(tx.Outputs[:i], tx.Outputs[i+1:]...)
	case "oappend":
		i := st.At % nout
		p := tx.Outputs[i].LockingScript
		*p = append(*p, hFiller(st.N, i)...)
	case "obyte":
		(*tx.Outputs[st.At%nout].LockingScript)[st.N] = byte(st.U64)
	case "repout":
		last := tx.Outputs[nout-1]
		for j := 0; j < st.N; j++ {
			tx.Outputs = append(tx.Outputs, &bt.Output{Satoshis: 0, LockingScript: bscript.NewFromBytes(append([]byte{}, *last.LockingScript...))})
		}
	case "repin": // the model already holds the replicas
		for _, in := range m.In[nin:] {
			i := &bt.Input{PreviousTxOutIndex: in.Vout, SequenceNumber: in.Seq, PreviousTxSatoshis: in.PrevSats}
			if err := i.PreviousTxIDAdd(append([]byte{}, in.TxID...)); err != nil {
				return fmt.Errorf("harness: %v", err)
			}
			if !in.UnlockNil {
				i.UnlockingScript = bscript.NewFromBytes(append([]byte{}, in.Unlock...))
			}
			i.PreviousTxScript = bscript.NewFromBytes(append([]byte{}, in.PrevScript...))
			tx.Inputs = append(tx.Inputs, i)
		}
	case "truncout":
		tx.Outputs = tx.Outputs[:st.N]
	case "quote":
		if err := lq.Apply(&qBefore, hEdit(st)); err != nil {
			return fmt.Errorf("updating the quote object (%s): %v", st.Via, err)
		}
	}
	return nil
}

func hCopyModel(m ref.Tx) ref.Tx {
	o := ref.Tx{Version: m.Version, LockTime: m.LockTime}
	for _, in := range m.In {
		in.TxID = append(pbt.Hex{}, in.TxID...)
		if in.UnlockNil {
			in.Unlock = nil
		} else {
			in.Unlock = append(pbt.Hex{}, in.Unlock...)
		}
		in.PrevScript = append(pbt.Hex{}, in.PrevScript...)
		o.In = append(o.In, in)
	}
	for _, out := range m.Out {
		o.Out = append(o.Out, ref.Out{Sats: out.Sats, Script: append(pbt.Hex{}, out.Script...)})
	}
	return o
}

func hKinds(steps []HStep) string {
	s := "["
	for i, st := range steps {
		if i > 0 {
			s += " "
		}
		s += st.Kind
		if st.Kind == "change" {
			s += ":" + st.Dest
		}
	}
	return s + "]"
}

func checkHistory(ctx *pbt.Ctx, c HistCase) error {
	if len(c.Steps) > 12 {
		ctx.Discard("history too long")
		return nil
	}
	for _, st := range c.Steps {
		if why := hStepValid(st); why != "" {
			ctx.Discard(why)
			return nil
		}
	}
	q := c.Quote
	m := hCopyModel(expand(Case{Tx: c.Tx, NOut: c.NOut}))
	if why := inDomain(Case{Quote: q, Dest: destAddress, Hash: make(pbt.Hex, 20)}, m); why != "" {
		ctx.Discard("outside domain: " + why)
		return nil
	}
	tx, err := toLib(m)
	if err != nil {
		return fmt.Errorf("harness: %v", err)
	}
	lq, err := ref.FeeQuoteBuild(q)
	if err != nil {
		return fmt.Errorf("building the quote object: %v", err)
	}
	fq := lq.Q
	ctx.After(lq.Unmodified)
	ctx.Labelf("steps=%d", len(c.Steps))
	nChange, nAdded := 0, 0
	prevKind := "start"
	sawInPlace, sawQuery, sawQuote, sawFund := false, false, false, false
	for i, st := range c.Steps {
		switch st.Kind {
		case "change":
			before := ref.FromLib(tx)
			cc := hCase(st, q)
			if why := inDomain(cc, before); why != "" {
				ctx.Discard("history leaves the domain: " + why)
				return nil
			}
			addr, opErr, herr := callChange(tx, fq, cc)
			if herr != nil {
				return herr
			}
			jc := ctx
			if prevKind == "start" {
				jc = &pbt.Ctx{} // nothing precedes: this is the "change" sub-check's own case
			}
			if err := judge(jc, cc, before, tx, opErr, addr); err != nil {
				return fmt.Errorf("step %d of the history %s on one transaction object (%d inputs, %d outputs before the call): %v",
					i+1, hKinds(c.Steps[:i+1]), len(before.In), len(before.Out), err)
			}
			nChange++
			after := ref.FromLib(tx)
			added := opErr == nil && !bytes.Equal(ref.Encode(before, true), ref.Encode(after, true))
			if added {
				nAdded++
				ctx.Labelf("added-as-change-number=%d", min(nChange, 4))
				if nAdded >= 2 {
					ctx.Label("second-change-added-in-one-history")
				}
				ctx.Label("added-after:" + prevKind)
				if sawInPlace {
					ctx.Label("added-after-in-place-script-edit")
				}
				if sawQuery {
					ctx.Label("added-after-size-query")
				}
				if sawQuote {
					ctx.Label("added-after-quote-update")
				}
				if sawFund {
					ctx.Label("added-after-fund")
				}
			}
			// what the reference semantics predicted (exact fee) against what happened
			pm := hCopyModel(before)
			hModelStep(&pm, &q, st)
			if bytes.Equal(ref.Encode(pm, true), ref.Encode(after, true)) {
				ctx.Label("change-as-predicted")
			} else {
				ctx.Label("change-differs-from-prediction(within-slack)")
			}
			m = hCopyModel(after)
		case "fund":
			k := 0
			ferr := tx.Fund(context.Background(), fq, func(_ context.Context, _ uint64) ([]*bt.UTXO, error) {
				if k >= len(st.Utxos) {
					return nil, bt.ErrNoUTXO
				}
				u := st.Utxos[k]
				k++
				return []*bt.UTXO{{TxID: append([]byte{}, u.TxID...), Vout: u.Vout, Satoshis: u.Sats, LockingScript: bscript.NewFromBytes(ref.FeeP2PKH(u.Hash))}}, nil
			})
			if ferr == nil {
				ctx.Label("fund=ok")
			} else {
				ctx.Label("fund=failed")
			}
			m = hCopyModel(ref.FromLib(tx))
			sawFund = true
		case "clone":
			tx = tx.Clone() // never the fatal shape: the transaction has at least one input
			m = hCopyModel(ref.FromLib(tx))
		default:
			qBefore := q
			if !hModelStep(&m, &q, st) {
				ctx.Label("step-skipped")
				continue
			}
			if err := hLibStep(tx, lq, qBefore, m, st); err != nil {
				return err
			}
			switch st.Kind {
			case "oappend", "obyte":
				sawInPlace = true
			case "query":
				sawQuery = true
			case "quote":
				sawQuote = true
				ctx.Label("quote-step:via=" + hEdit(st).Via)
				if st.Tag == ref.FeeTagOther {
					ctx.Label("quote-step:fee-type-field=other-type")
				} else if st.Tag == ref.FeeTagEmpty {
					ctx.Label("quote-step:fee-type-field=empty")
				}
			}
			// harness consistency: the edit did to the object what it did to the model
			if got := ref.FromLib(tx); !bytes.Equal(ref.Encode(got, true), ref.Encode(m, true)) {
				if st.Kind == "query" {
					return fmt.Errorf("step %d of %s: the size / fee queries modified the transaction", i+1, hKinds(c.Steps[:i+1]))
				}
				return fmt.Errorf("harness: step %d (%s) left object and model different", i+1, st.Kind)
			}
		}
		ctx.Label("step=" + st.Kind)
		prevKind = st.Kind
	}
	ctx.Labelf("changes=%d", min(nChange, 4))
	return nil
}

// ---------------------------------------------------------------------------
// generator

func genHChange(t *rapid.T, nout int) HStep {
	st := HStep{Kind: "change", Rel: "unaimed"}
	switch rapid.IntRange(0, 6).Draw(t, "destk") {
	case 0, 1, 2:
		st.Dest = destAddress
		st.Hash = gen.Bytes(t, 20, "hash")
		st.Mainnet = rapid.Bool().Draw(t, "mainnet")
	case 3:
		st.Dest = destScript
		st.Script = ref.FeeP2PKH(gen.Bytes(t, 20, "hash"))
	case 4:
		st.Dest = destScript
		n := 1 + gen.EdgeLen(t, 399, "cslen", 0, 1, 23, 24, 25, 33, 74, 75, 76, 251, 252, 253, 299, 399)
		st.Script = nonData(gen.FillBytes(t, n, "cscript"))
	default:
		st.Dest = destExisting
		if nout > 0 && rapid.IntRange(0, 9).Draw(t, "badidx") != 0 {
			st.Index = uint64(rapid.IntRange(0, nout-1).Draw(t, "index"))
		} else {
			st.Index = uint64(nout)
		}
	}
	return st
}

// genHAim returns an "isats" step that puts the input total of m in the drawn relation to the
// reference fee of m with the change output of st.
func genHAim(t *rapid.T, m ref.Tx, q ref.FeeQuote, st *HStep) (HStep, bool) {
	c := hCase(*st, q)
	fWith, err := feeOfFinal(withChange(c, m), q)
	if err != nil || len(m.In) == 0 {
		return HStep{}, false
	}
	if !ref.FeeSumIn(m).IsUint64() || !ref.FeeSumOut(m).IsUint64() {
		return HStep{}, false
	}
	f, dust := fWith.Uint64(), uint64(bt.DustLimit)
	outSum := ref.FeeSumOut(m).Uint64()
	st.Rel = rapid.SampledFrom([]string{"fee-1", "fee", "fee+1", "fee+dust", "fee+dust+1", "fee+dust+2", "ample", "ample", "ample", "ample", "huge", "insufficient", "surplus>=2^62"}).Draw(t, "rel")
	var total uint64
	switch st.Rel {
	case "surplus>=2^62":
		v, class := genHugeAmount(t, "surplus")
		st.Rel = "surplus=" + class
		if total = satAdd(satAdd(outSum, f), v); total == maxU64 {
			st.Rel = "total=2^64-1-k"
			total = maxU64 - rapid.Uint64Range(0, 1000000).Draw(t, "below_max")
		}
	case "insufficient":
		if outSum == 0 {
			st.Rel, total = "equal", 0
		} else {
			total = outSum - 1
		}
	case "fee-1":
		if f == 0 {
			st.Rel = "fee"
		}
		total = outSum + max(f, 1) - 1
	case "fee":
		total = outSum + f
	case "fee+1":
		total = outSum + f + 1
	case "fee+dust":
		total = outSum + f + dust
	case "fee+dust+1":
		total = outSum + f + dust + 1
	case "fee+dust+2":
		total = outSum + f + dust + 2
	case "ample":
		total = outSum + f + rapid.Uint64Range(3, 100000).Draw(t, "extra")
	default:
		total = satAdd(outSum+f, rapid.Uint64Range(100000, 2000000000000).Draw(t, "extra"))
	}
	at := rapid.IntRange(0, len(m.In)-1).Draw(t, "aim_at")
	others := ref.FeeSumIn(m).Uint64() - m.In[at].PrevSats
	if total < others {
		st.Rel = "unaimed"
		return HStep{}, false
	}
	return HStep{Kind: "isats", At: at, U64: total - others}, true
}

func genHEdit(t *rapid.T, m ref.Tx) HStep {
	nout := len(m.Out)
	kinds := []string{"query", "query", "addin", "isats", "iunlock", "rmin", "addout", "addout", "osats", "rmout", "oappend", "oappend", "obyte", "rep", "rep", "repin", "truncout", "quote", "quote", "fund", "fund", "clone"}
	st := HStep{Kind: rapid.SampledFrom(kinds).Draw(t, "kind")}
	st.At = rapid.IntRange(0, 5).Draw(t, "at")
	switch st.Kind {
	case "addin":
		st.B, st.N, st.Hash = gen.Bytes(t, 32, "txid"), int(gen.U32(t, "vout")&0x7fffffff), gen.Bytes(t, 20, "pkh")
		if rapid.IntRange(0, 9).Draw(t, "null_txid") == 4 { // all-zero previous txid (From gives the final sequence)
			st.B = make(pbt.Hex, 32)
		}
		st.U64 = rapid.Uint64Range(0, 200000).Draw(t, "isats")
	case "isats", "osats":
		st.U64 = rapid.Uint64Range(0, 200000).Draw(t, "amount")
		if rapid.IntRange(0, 11).Draw(t, "huge_amount") == 7 { // upper half of the uint64 range
			v, _ := genHugeAmount(t, "huge_v")
			st.U64 = min(v, maxU64-1<<44)
		}
	case "iunlock":
		switch rapid.IntRange(0, 3).Draw(t, "uk") {
		case 0:
			st.Nil = true
		case 1:
			st.B = pbt.Hex{}
		default:
			sl := rapid.IntRange(70, 73).Draw(t, "siglen")
			u := append([]byte{byte(sl)}, gen.Bytes(t, sl, "sig")...)
			st.B = append(append(u, 33), gen.Bytes(t, 33, "pub")...)
		}
	case "addout":
		o := genOut(t, true)
		st.B, st.U64 = o.Script, o.Sats%10001
	case "oappend":
		st.N = rapid.SampledFrom([]int{1, 2, 3, 200, 227, 228, 229, 250, 251, 252, 253, 300, 1000}).Draw(t, "grow")
	case "obyte":
		st.N = rapid.SampledFrom([]int{0, 0, 1}).Draw(t, "pos")
		st.U64 = uint64(rapid.SampledFrom([]byte{0x6a, 0x6a, 0x00, 0x51, 0x76}).Draw(t, "val"))
	case "rep": // the next change output is the 252nd, 253rd (count prefix grows) or 254th
		st.Kind = "repout"
		st.N = max(rapid.SampledFrom([]int{250, 251, 251, 252, 252, 252, 253}).Draw(t, "total")-nout, 0)
	case "repin": // input count around its own three-byte prefix
		st.N = max(rapid.SampledFrom([]int{251, 252, 253, 254}).Draw(t, "total_in")-len(m.In), 0)
	case "truncout":
		st.N = rapid.SampledFrom([]int{0, 1, 2, 251, 252}).Draw(t, "keep")
	case "quote":
		st.Data = rapid.Bool().Draw(t, "data")
		st.Unit = genUnit(t, "unit")
		st.Tag = genFeeTag(t, "tag")
		st.Via = genQuoteVia(t, "via")
		st.Unit2 = genUnit(t, "unit2")
		genEditWiden(t, &st.Unit, &st.Unit2, &st.Via)
	case "fund":
		n := rapid.IntRange(0, 3).Draw(t, "nutxo")
		for i := 0; i < n; i++ {
			u := HU{TxID: gen.Bytes(t, 32, "utxid"), Vout: gen.U32(t, "uvout"), Hash: gen.Bytes(t, 20, "upkh")}
			switch rapid.IntRange(0, 2).Draw(t, "uval") {
			case 0:
				u.Sats = rapid.Uint64Range(0, 300).Draw(t, "small")
			case 1:
				u.Sats = rapid.Uint64Range(300, 100000).Draw(t, "mid")
			default:
				u.Sats = rapid.Uint64Range(100000, 1000000000).Draw(t, "large")
			}
			st.Utxos = append(st.Utxos, u)
		}
	}
	return st
}

func genHistCase(t *rapid.T) HistCase {
	var c HistCase
	c.Tx.Version = rapid.SampledFrom([]uint32{1, 2, 0xffffffff}).Draw(t, "version")
	c.Tx.LockTime = rapid.SampledFrom([]uint32{0, 1, 500000000, 0xffffffff}).Draw(t, "locktime")
	nin := rapid.IntRange(1, 3).Draw(t, "nin")
	for i := 0; i < nin; i++ {
		in := ref.In{TxID: gen.Bytes(t, 32, "txid"), Vout: gen.U32(t, "vout"), Seq: 0xffffffff, PrevScript: ref.FeeP2PKH(gen.Bytes(t, 20, "pkh")),
			PrevSats: rapid.Uint64Range(0, 200000).Draw(t, "isats")}
		switch rapid.IntRange(0, 3).Draw(t, "ukind") {
		case 0, 1:
			in.UnlockNil = true
		case 2:
			in.Unlock = pbt.Hex{}
		default:
			sl := rapid.IntRange(70, 73).Draw(t, "siglen")
			u := append([]byte{byte(sl)}, gen.Bytes(t, sl, "sig")...)
			in.Unlock = append(append(u, 33), gen.Bytes(t, 33, "pub")...)
		}
		c.Tx.In = append(c.Tx.In, in)
	}
	c.Tx.In = gen.C10SpecialOutpoints(t, c.Tx.In)
	nin = len(c.Tx.In)
	if rapid.IntRange(0, 7).Draw(t, "bigcount") == 7 {
		c.NOut = rapid.SampledFrom([]int{250, 251, 251, 252}).Draw(t, "nout")
		c.Tx.Out = append(c.Tx.Out, genOut(t, true))
		c.Tx.Out[0].Sats %= 1000
	} else {
		n := rapid.IntRange(0, 4).Draw(t, "nout")
		for i := 0; i < n; i++ {
			o := genOut(t, false)
			o.Sats %= 10001
			c.Tx.Out = append(c.Tx.Out, o)
		}
		c.NOut = n
	}
	c.Quote = genQuote(t)
	m := hCopyModel(expand(Case{Tx: c.Tx, NOut: c.NOut}))
	q := c.Quote
	push := func(st HStep) {
		c.Steps = append(c.Steps, st)
		hModelStep(&m, &q, st)
	}
	// the first step is never a change operation (that would be the "change" sub-check's case)
	push(genHEdit(t, m))
	budget := rapid.IntRange(1, 7).Draw(t, "budget")
	for len(c.Steps) < 1+budget {
		if rapid.IntRange(0, 2).Draw(t, "what") == 0 {
			push(genHEdit(t, m))
			continue
		}
		st := genHChange(t, len(m.Out))
		if rapid.IntRange(0, 4).Draw(t, "aimed") != 0 {
			if aim, ok := genHAim(t, m, q, &st); ok {
				push(aim)
			}
		}
		push(st)
	}
	return c
}

func TestHistory(t *testing.T) {
	pbt.Run(t, pbt.Sub[HistCase]{
		Name: "history", Quick: 60000, Thorough: 2000000,
		Gen:   genHistCase,
		Check: checkHistory,
	})
}
