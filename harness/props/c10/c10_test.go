// Package c10 decides property C10 (change never creates value, never underpays
// the quoted fee, never burns change).
package c10

import (
	"bytes"
	"encoding/hex"
	"fmt"
	"math/big"
	"testing"

	"github.com/libsv/go-bt/v2"
	"github.com/libsv/go-bt/v2/bscript"
	"pgregory.net/rapid"

	"verif/harness/gen"
	"verif/harness/pbt"
	"verif/harness/ref"
)

func TestMain(m *testing.M) { pbt.Main(m) }

// Case is one change operation on one transaction.
//
// Tx.In: P2PKH-funded inputs (PrevScript is a P2PKH script, PrevSats the value;
// Unlock empty = not yet signed). Tx.Out is a template: when NOut > len(Tx.Out)
// the template is repeated cyclically up to NOut outputs (keeps the 251..254
// output shapes readable in replay files).
type Case struct {
	Tx         ref.Tx       `json:"tx"`
	NOut       int          `json:"nout"`
	Quote      ref.FeeQuote `json:"quote"`
	Dest       string       `json:"dest"` // "address" | "script" | "existing"
	Mainnet    bool         `json:"mainnet,omitempty"`
	Hash       pbt.Hex      `json:"hash,omitempty"`        // dest == address: 20-byte public key hash
	Script     pbt.Hex      `json:"script,omitempty"`      // dest == script
	ScriptForm int          `json:"script_form,omitempty"` // how an empty script is represented (see callChange)
	Index      uint64       `json:"index,omitempty"`       // dest == existing
	Rel        string       `json:"rel,omitempty"`         // amount relation the generator aimed at (informational)
	// RepIn appends that many further copies of the last input (own txid, worth nothing), so
	// that the input count reaches its three-byte prefix without 253 inputs being stored
	RepIn int `json:"rep_in,omitempty"`
}

const (
	destAddress  = "address"
	destScript   = "script"
	destExisting = "existing"
)

// expand returns the full transaction model of a case.
func expand(c Case) ref.Tx {
	m := c.Tx
	if c.NOut > len(c.Tx.Out) && len(c.Tx.Out) > 0 {
		outs := make([]ref.Out, c.NOut)
		for i := range outs {
			outs[i] = c.Tx.Out[i%len(c.Tx.Out)]
		}
		m.Out = outs
	}
	if n := len(c.Tx.In); c.RepIn > 0 && c.RepIn <= 600 && n > 0 {
		m.In = append([]ref.In{}, c.Tx.In...)
		for j := 0; j < c.RepIn; j++ {
			in := c.Tx.In[n-1]
			in.TxID = append(pbt.Hex{}, in.TxID...)
			if len(in.TxID) == 32 {
				in.TxID[0], in.TxID[1] = byte(j), byte(j>>8)^0xc3
			}
			in.PrevSats = 0
			m.In = append(m.In, in)
		}
	}
	return m
}

// toLib builds the library transaction through the public constructors the
// property talks about: From for every P2PKH-funded input, AddOutput for outputs.
func toLib(m ref.Tx) (*bt.Tx, error) {
	tx := bt.NewTx()
	tx.Version, tx.LockTime = m.Version, m.LockTime
	for i, in := range m.In {
		if err := tx.From(hex.EncodeToString(in.TxID), in.Vout, hex.EncodeToString(in.PrevScript), in.PrevSats); err != nil {
			return nil, fmt.Errorf("From(input %d): %w", i, err)
		}
		tx.Inputs[i].SequenceNumber = in.Seq
		if !in.UnlockNil {
			tx.Inputs[i].UnlockingScript = bscript.NewFromBytes(append([]byte{}, in.Unlock...))
		}
	}
	for _, o := range m.Out {
		tx.AddOutput(&bt.Output{Satoshis: o.Sats, LockingScript: bscript.NewFromBytes(append([]byte{}, o.Script...))})
	}
	return tx, nil
}

func inDomain(c Case, m ref.Tx) string {
	if len(m.In) == 0 {
		return "no inputs"
	}
	for _, in := range m.In {
		if len(in.TxID) != 32 || in.PrevNil || !ref.FeeIsP2PKH(in.PrevScript) {
			return "input not P2PKH-funded"
		}
		if in.UnlockNil && len(in.Unlock) != 0 {
			return "inconsistent unlock"
		}
	}
	q := c.Quote
	for _, u := range []ref.FeeUnit{q.Std, q.Data} {
		if u.Bytes < 1 || u.Sat < 0 {
			return "quote outside domain"
		}
	}
	switch c.Dest {
	case destAddress:
		if len(c.Hash) != 20 {
			return "bad hash"
		}
	case destScript:
		if ref.FeeIsData(c.Script) { // (tenth round) the empty script is a script too
			return "change script outside domain"
		}
	case destExisting:
		if c.Index > 1<<62 {
			return "index does not fit a non-negative int (out of scope, see report)"
		}
	default:
		return "unknown destination"
	}
	// satoshi amounts are uint64: every amount is in the domain as long as neither total
	// overflows uint64 (outputs plus change never exceeds the inputs)
	if !ref.FeeSumIn(m).IsUint64() || !ref.FeeSumOut(m).IsUint64() {
		return "a total overflows uint64"
	}
	// rates written with huge numbers: judged where the exact products bytes x satoshis fit uint64
	// (sizes of the transaction with its change output: the largest the operation prices)
	if ref.FeeQuoteIsWide(q) {
		if fin, _, err := ref.FeeEstimatedFinal(withChange(c, m)); err == nil && !ref.FeeFits(ref.FeeSizesOf(fin), q) {
			return "bytes x satoshis does not fit uint64"
		}
	}
	return ""
}

// changeScript is the locking script the change must carry (new-output destinations).
func changeScript(c Case) []byte {
	if c.Dest == destAddress {
		return ref.FeeP2PKH(c.Hash)
	}
	return c.Script
}

// feeOfFinal is the reference fee of the estimated final size of m.
func feeOfFinal(m ref.Tx, q ref.FeeQuote) (*big.Int, error) {
	fin, _, err := ref.FeeEstimatedFinal(m)
	if err != nil {
		return nil, err
	}
	f, _, _ := ref.FeeCalc(ref.FeeSizesOf(fin), q)
	return f, nil
}

// withChange is the model with a hypothetical change output for the case's destination.
func withChange(c Case, m ref.Tx) ref.Tx {
	if c.Dest == destExisting {
		return m
	}
	w := m
	w.Out = append(append([]ref.Out{}, m.Out...), ref.Out{Sats: 0, Script: changeScript(c)})
	return w
}

func slackOf(q ref.FeeQuote) *big.Int {
	// "the fee for nine bytes plus nine satoshis" (rounded up, so the bound is never too tight)
	s := ref.FeeCeilStd(9, q)
	return s.Add(s, big.NewInt(9))
}

func rateClass(u ref.FeeUnit) string {
	switch {
	case u.Sat == 0:
		return "zero"
	case u.Sat == 5 && u.Bytes == 100:
		return "default"
	case u.Sat < u.Bytes:
		return "<1"
	case u.Sat == u.Bytes:
		return "=1"
	}
	return ">1"
}

func noutClass(n int) string {
	switch {
	case n == 0:
		return "0"
	case n <= 6:
		return "1-6"
	case n < 251:
		return "7-250"
	case n <= 254:
		return fmt.Sprint(n)
	}
	return ">254"
}

func check(ctx *pbt.Ctx, c Case) error {
	m := expand(c)
	if why := inDomain(c, m); why != "" {
		ctx.Discard("outside domain: " + why)
		return nil
	}
	tx, err := toLib(m)
	if err != nil {
		return fmt.Errorf("harness: %v", err)
	}
	before := ref.FromLib(tx)
	if !bytes.Equal(ref.Encode(before, true), ref.Encode(m, true)) {
		return fmt.Errorf("harness: constructed transaction differs from the model")
	}
	beforeBytes := ref.Encode(before, true)
	ctx.Key(beforeBytes, []byte(fmt.Sprint(c.Quote.Std, c.Quote.Data, c.Dest, c.Mainnet, c.Index)), c.Hash, c.Script)
	lq, err := ref.FeeQuoteBuild(c.Quote)
	if err != nil {
		return fmt.Errorf("building the quote object: %v", err)
	}
	fq := lq.Q
	ctx.After(lq.Unmodified)
	ctx.Labelf("quote-build=%d", c.Quote.Build)
	addr, opErr, err := callChange(tx, fq, c)
	if err != nil {
		return err
	}
	return judge(ctx, c, before, tx, opErr, addr)
}

// callChange performs the change operation of the case on tx with the quote object fq.
func callChange(tx *bt.Tx, fq *bt.FeeQuote, c Case) (addr string, opErr, harnessErr error) {
	switch c.Dest {
	case destAddress:
		a, aerr := bscript.NewAddressFromPublicKeyHash(c.Hash, c.Mainnet)
		if aerr != nil {
			return "", nil, fmt.Errorf("harness: address from hash: %v", aerr)
		}
		addr = a.AddressString
		opErr = tx.ChangeToAddress(addr, fq)
	case destScript:
		so := bscript.NewFromBytes(append([]byte{}, c.Script...))
		if len(c.Script) == 0 {
			// (tenth round) the forms an empty script takes in Go: an empty slice, a nil slice behind a
			// non-nil pointer (new(bscript.Script), var s bscript.Script; &s), NewFromBytes(nil)
			switch c.ScriptForm % 3 {
			case 1:
				so = new(bscript.Script)
			case 2:
				so = bscript.NewFromBytes(nil)
			}
		}
		opErr = tx.Change(so, fq)
	case destExisting:
		opErr = tx.ChangeToExistingOutput(uint(c.Index), fq)
	}
	return addr, opErr, nil
}

// judge is the oracle of one change operation: before is the independent model of the
// transaction as it stood when the operation was called (c.Tx is not looked at, only the
// quote and the destination of c), tx the library object afterwards, opErr what the
// operation returned.
func judge(ctx *pbt.Ctx, c Case, before ref.Tx, tx *bt.Tx, opErr error, addr string) error {
	beforeBytes := ref.Encode(before, true)
	dust := new(big.Int).SetUint64(bt.DustLimit)
	slack := slackOf(c.Quote)
	after := ref.FromLib(tx)
	afterBytes := ref.Encode(after, true)
	unchanged := bytes.Equal(beforeBytes, afterBytes)

	inB, outB := ref.FeeSumIn(before), ref.FeeSumOut(before)
	ctx.Label("dest=" + c.Dest)
	ctx.Label("nout=" + noutClass(len(before.Out)))
	ctx.Label("stdrate=" + rateClass(c.Quote.Std))
	ctx.Label(feeTagLabel(c.Quote))
	wideLabel(ctx, c.Quote)
	if sh := gen.C10OutpointShape(before.In); sh != "" {
		ctx.Label(sh)
	}
	if len(before.In) >= 253 {
		ctx.Label("inputs>=253")
	}
	ctx.Label("rel=" + c.Rel)
	// magnitudes: the upper half of the uint64 range is where a signed 64-bit view changes sign
	two63 := new(big.Int).Lsh(big.NewInt(1), 63)
	if inB.Cmp(two63) >= 0 {
		ctx.Label("inputs>=2^63")
	}
	if outB.Cmp(two63) >= 0 {
		ctx.Label("outputs>=2^63")
	}
	if new(big.Int).Sub(inB, outB).Cmp(two63) >= 0 {
		ctx.Label("surplus>=2^63")
	} else if new(big.Int).Sub(inB, outB).Cmp(new(big.Int).Lsh(big.NewInt(1), 62)) >= 0 {
		ctx.Label("surplus>=2^62")
	}
	hasData := false
	for _, o := range before.Out {
		if ref.FeeIsData(o.Script) {
			hasData = true
		}
	}
	if hasData {
		ctx.Label("data-outputs")
	}
	signed := 0
	for _, in := range before.In {
		if len(in.Unlock) > 0 {
			signed++
		}
	}
	switch {
	case signed == 0:
		ctx.Label("inputs=unsigned")
	case signed == len(before.In):
		ctx.Label("inputs=signed")
	default:
		ctx.Label("inputs=mixed")
	}
	desc := func() string {
		return fmt.Sprintf("dest=%s nin=%d nout=%d in=%s out=%s std=%d/%d data=%d/%d", c.Dest, len(before.In), len(before.Out), inB, outB,
			c.Quote.Std.Sat, c.Quote.Std.Bytes, c.Quote.Data.Sat, c.Quote.Data.Bytes)
	}

	// ---- invalid existing index -------------------------------------------------
	// The statement only constrains operations that succeed: with no designated
	// output a success must leave the transaction as it was; an error is equally fine.
	if c.Dest == destExisting && c.Index >= uint64(len(before.Out)) {
		ctx.Label("result=invalid-index")
		if opErr == nil && !unchanged {
			return fmt.Errorf("ChangeToExistingOutput(%d) on %d outputs succeeded and modified the transaction [%s]", c.Index, len(before.Out), desc())
		}
		return nil
	}
	// ---- outputs exceed inputs: error and unchanged ---------------------------
	if inB.Cmp(outB) < 0 {
		ctx.Label("result=insufficient")
		if opErr == nil {
			return fmt.Errorf("change succeeded although inputs %s < outputs %s [%s]", inB, outB, desc())
		}
		if !unchanged {
			return fmt.Errorf("change failed (%v) but modified the transaction [%s]", opErr, desc())
		}
		return nil
	}
	fWith, err := feeOfFinal(withChange(c, before), c.Quote)
	if err != nil {
		return fmt.Errorf("harness: %v", err)
	}

	// ---- no change added -------------------------------------------------------
	// (a failed call adds no change either: "no change added" is allowed only when
	// nothing above the dust limit remains, and the transaction must be as before)
	if opErr != nil && !unchanged {
		return fmt.Errorf("change failed (%v) but modified the transaction [%s]", opErr, desc())
	}
	if unchanged {
		if opErr != nil {
			ctx.Label("result=error")
		} else {
			ctx.Label("result=not-added")
		}
		rem := new(big.Int).Sub(inB, outB)
		rem.Sub(rem, fWith)
		if rem.Sign() > 0 || inB.Cmp(outB) > 0 {
			ctx.NonTrivial()
		}
		lim := new(big.Int).Add(dust, slack)
		if rem.Cmp(lim) > 0 {
			return fmt.Errorf("no change added (err=%v) although %s satoshis remain after the fee %s a change output requires (dust limit %s, tolerance %s): the remainder is burnt [%s]",
				opErr, rem, fWith, dust, slack, desc())
		}
		return nil
	}

	// ---- change added ----------------------------------------------------------
	ctx.Label("result=added")
	if !bytes.Equal(ref.Encode(ref.Tx{Version: after.Version, In: after.In, LockTime: after.LockTime}, true),
		ref.Encode(ref.Tx{Version: before.Version, In: before.In, LockTime: before.LockTime}, true)) {
		return fmt.Errorf("change modified inputs, version or locktime [%s]", desc())
	}
	sameOut := func(a, b ref.Out) bool { return a.Sats == b.Sats && bytes.Equal(a.Script, b.Script) }
	if c.Dest == destExisting {
		if len(after.Out) != len(before.Out) {
			return fmt.Errorf("ChangeToExistingOutput changed the output count %d -> %d [%s]", len(before.Out), len(after.Out), desc())
		}
		for i := range before.Out {
			if uint64(i) == c.Index {
				if !bytes.Equal(after.Out[i].Script, before.Out[i].Script) {
					return fmt.Errorf("designated output %d: script changed [%s]", i, desc())
				}
				if after.Out[i].Sats < before.Out[i].Sats {
					return fmt.Errorf("designated output %d: value decreased %d -> %d [%s]", i, before.Out[i].Sats, after.Out[i].Sats, desc())
				}
				continue
			}
			if !sameOut(after.Out[i], before.Out[i]) {
				return fmt.Errorf("pre-existing output %d modified (designated output is %d): %d/%x -> %d/%x [%s]", i, c.Index,
					before.Out[i].Sats, []byte(before.Out[i].Script), after.Out[i].Sats, []byte(after.Out[i].Script), desc())
			}
		}
		if after.Out[c.Index].Sats-before.Out[c.Index].Sats <= bt.DustLimit {
			return fmt.Errorf("designated output grew by %d, not more than the dust limit [%s]", after.Out[c.Index].Sats-before.Out[c.Index].Sats, desc())
		}
	} else {
		if len(after.Out) != len(before.Out)+1 {
			if len(after.Out) == len(before.Out) {
				return fmt.Errorf("the operation returned nil and added no output, but the transaction is not as it was before the call (%d outputs) [%s]", len(before.Out), desc())
			}
			return fmt.Errorf("change altered the output count %d -> %d [%s]", len(before.Out), len(after.Out), desc())
		}
		for i := range before.Out {
			if !sameOut(after.Out[i], before.Out[i]) {
				return fmt.Errorf("pre-existing output %d modified: %d/%x -> %d/%x [%s]", i,
					before.Out[i].Sats, []byte(before.Out[i].Script), after.Out[i].Sats, []byte(after.Out[i].Script), desc())
			}
		}
		last := after.Out[len(after.Out)-1]
		if want := changeScript(c); !bytes.Equal(last.Script, want) {
			return fmt.Errorf("change output carries script %x, requested %x (address %q) [%s]", []byte(last.Script), want, addr, desc())
		}
		if last.Sats <= bt.DustLimit {
			return fmt.Errorf("change output of %d satoshis is not above the dust limit [%s]", last.Sats, desc())
		}
	}
	inA, outA := ref.FeeSumIn(after), ref.FeeSumOut(after)
	if outA.Cmp(inA) > 0 {
		return fmt.Errorf("value created: outputs %s exceed inputs %s after change [%s]", outA, inA, desc())
	}
	fA, err := feeOfFinal(after, c.Quote)
	if err != nil {
		return fmt.Errorf("harness: %v", err)
	}
	left := new(big.Int).Sub(inA, outA)
	finA, _, _ := ref.FeeEstimatedFinal(after)
	szA := ref.FeeSizesOf(finA)
	if left.Cmp(fA) < 0 {
		return fmt.Errorf("underpays: fee left %s < quoted fee %s for the estimated final size (std %d + data %d bytes), short by %s [%s]",
			left, fA, szA.Std, szA.Data, new(big.Int).Sub(fA, left), desc())
	}
	if over := new(big.Int).Sub(left, fA); over.Cmp(slack) > 0 {
		return fmt.Errorf("burns change: fee left %s exceeds the quoted fee %s for the estimated final size (std %d + data %d bytes) by %s > slack %s [%s]",
			left, fA, szA.Std, szA.Data, over, slack, desc())
	}
	cross := c.Dest != destExisting && len(before.Out) == 252
	if cross {
		ctx.Label("crosses-252-253")
	}
	destP2PKH := c.Dest == destAddress || (c.Dest == destScript && ref.FeeIsP2PKH(c.Script))
	if !(c.Quote.Std.Sat == 5 && c.Quote.Std.Bytes == 100) || cross || hasData || !destP2PKH {
		ctx.NonTrivial()
	}
	if c.Dest == destScript {
		switch l := len(c.Script); {
		case ref.FeeIsP2PKH(c.Script):
			ctx.Label("script=p2pkh")
		case l < 25:
			ctx.Label("script<25")
		case l < 253:
			ctx.Label("script=25..252")
		default:
			ctx.Label("script>=253")
		}
	}
	return nil
}

// ---------------------------------------------------------------------------
// generator

func genUnit(t *rapid.T, label string) ref.FeeUnit {
	switch rapid.IntRange(0, 9).Draw(t, label+"_k") {
	case 0:
		return ref.FeeUnit{Sat: 5, Bytes: 100}
	case 1:
		return rapid.SampledFrom([]ref.FeeUnit{{1, 1}, {500, 1000}, {50, 1}, {5, 1}, {2, 1}, {0, 1}, {0, 1000}, {5000, 1}, {5000, 1000}, {1, 1000}, {3, 2}, {999, 1000}, {1001, 1000}}).Draw(t, label)
	}
	return ref.FeeUnit{Sat: rapid.IntRange(0, 5000).Draw(t, label+"_sat"), Bytes: rapid.IntRange(1, 1000).Draw(t, label+"_bytes")}
}

// GenQuote draws a fee quote: standard and data mining rates independent, relay
// rates unrelated (the library documents the mining fee as the one that counts).
func genQuote(t *rapid.T) ref.FeeQuote {
	q := ref.FeeQuote{Std: genUnit(t, "std"), Data: genUnit(t, "data"), StdRelay: genUnit(t, "stdrelay"), DataRelay: genUnit(t, "datarelay"),
		StdTag: genFeeTag(t, "stdtag"), DataTag: genFeeTag(t, "datatag")}
	genQuoteBuild(t, &q)
	genQuoteWiden(t, &q)
	return q
}

// genQuoteWiden rewrites, in about one quote in eight, one or both mining rates with huge
// numbers (gen.C10UnitWide: ordinary rates scaled by 2^31..2^40 or 10^9, the 2^53 neighbourhood,
// 2^62, the largest int); two thirds of those quotes arrive through JSON.
func genQuoteWiden(t *rapid.T, q *ref.FeeQuote) {
	switch rapid.IntRange(0, 23).Draw(t, "wide") {
	case 7:
		q.Std = gen.C10UnitWide(t, "wstd")
	case 11:
		q.Data = gen.C10UnitWide(t, "wdata")
	case 13:
		q.Std, q.Data = gen.C10UnitWide(t, "wstd"), gen.C10UnitWide(t, "wdata")
	default:
		return
	}
	if rapid.IntRange(0, 2).Draw(t, "wide_json") != 0 {
		q.Build = []int{ref.FeeBuildUnmarshal, ref.FeeBuildUsedBefore}[rapid.IntRange(0, 1).Draw(t, "wide_build")]
	}
	if q.Build == ref.FeeBuildShared {
		q.Data, q.DataRelay = q.Std, q.StdRelay
	}
}

// genEditWiden does the same to a quote edit, in about one edit in eight.
func genEditWiden(t *rapid.T, unit, unit2 *ref.FeeUnit, via *string) {
	if rapid.IntRange(0, 7).Draw(t, "wide_edit") != 5 {
		return
	}
	*unit = gen.C10UnitWide(t, "wunit")
	if rapid.Bool().Draw(t, "wide2") {
		*unit2 = gen.C10UnitWide(t, "wunit2")
	}
	if rapid.IntRange(0, 2).Draw(t, "wide_json") != 0 {
		*via = "unmarshal"
	}
}

func wideLabel(ctx *pbt.Ctx, q ref.FeeQuote) {
	if !ref.FeeQuoteIsWide(q) {
		return
	}
	ctx.Label("fee-unit-numbers>10^6")
	for _, u := range []ref.FeeUnit{q.Std, q.Data} {
		if u.Sat >= 1<<32 {
			ctx.Label("fee-unit-satoshis>=2^32")
		}
		if u.Sat > 1<<53 || u.Bytes > 1<<53 {
			ctx.Label("fee-unit-numbers>2^53")
		}
	}
}

// genQuoteVia draws the exported way a quote object in use is changed.
func genQuoteVia(t *rapid.T, label string) string {
	return rapid.SampledFrom([]string{"addquote", "addquote", "addquote", "unmarshal", "unmarshal", "shared", "fetched", "fetched-other-quote", "unmarshal-partial", "updateminerfees", "expiry"}).Draw(t, label)
}

// genQuoteBuild draws how the quote object is filled in the first place and adapts the model
// where the way implies it (one shared fee object: both types carry the same rates).
func genQuoteBuild(t *rapid.T, q *ref.FeeQuote) {
	q.Build = []int{ref.FeeBuildAddQuote, ref.FeeBuildAddQuote, ref.FeeBuildAddQuote, ref.FeeBuildShared, ref.FeeBuildFetched, ref.FeeBuildUnmarshal, ref.FeeBuildContainer, ref.FeeBuildUsedBefore}[rapid.IntRange(0, 7).Draw(t, "quote_build")]
	if q.Build == ref.FeeBuildShared {
		q.Data, q.DataRelay = q.Std, q.StdRelay
	}
}

// genFeeTag draws what the informational FeeType field of a registered *bt.Fee carries: equal
// to the key it is registered under, empty, or the other fee type (a copied and edited object).
func genFeeTag(t *rapid.T, label string) int {
	return []int{ref.FeeTagKey, ref.FeeTagKey, ref.FeeTagEmpty, ref.FeeTagOther}[rapid.IntRange(0, 3).Draw(t, label)]
}

func feeTagLabel(q ref.FeeQuote) string {
	switch {
	case q.StdTag == ref.FeeTagOther || q.DataTag == ref.FeeTagOther:
		return "fee-type-field=other-type"
	case q.StdTag == ref.FeeTagEmpty || q.DataTag == ref.FeeTagEmpty:
		return "fee-type-field=empty"
	}
	return "fee-type-field=key"
}

func nonData(b []byte) []byte {
	if ref.FeeIsData(b) {
		b[0] = 0x51
	}
	return b
}

func genOut(t *rapid.T, small bool) ref.Out {
	var o ref.Out
	switch rapid.IntRange(0, 7).Draw(t, "okind") {
	case 0, 1, 2:
		o.Script = ref.FeeP2PKH(gen.Bytes(t, 20, "ohash"))
	case 3, 4:
		max := 2000
		if small {
			max = 40
		}
		n := gen.EdgeLen(t, max, "dlen", 0, 1, 75, 76, 252, 253, 2000)
		pre := []byte{0x6a}
		if rapid.Bool().Draw(t, "false_return") {
			pre = []byte{0x00, 0x6a}
		}
		o.Script = append(pre, gen.FillBytes(t, n, "payload")...)
		if rapid.IntRange(0, 3).Draw(t, "template_payload") == 2 { // pushes that start with opcode-valued bytes
			o.Script = append(pre, gen.C10DataPayload(t, "tpl")...)
		}
	case 5:
		o.Script = pbt.Hex{}
	default:
		max := 300
		if small {
			max = 30
		}
		o.Script = nonData(gen.FillBytes(t, 1+gen.EdgeLen(t, max-1, "slen", 0, 1, 24, 34, 252, 253), "oscript"))
	}
	switch rapid.IntRange(0, 5).Draw(t, "vkind") {
	case 0:
		o.Sats = 0
	case 1:
		o.Sats = rapid.Uint64Range(1, 1000000000000).Draw(t, "sats")
	default:
		o.Sats = rapid.Uint64Range(0, 10000).Draw(t, "sats")
	}
	return o
}

const maxU64 = ^uint64(0)

// satAdd is a+b, saturating at 2^64-1.
func satAdd(a, b uint64) uint64 {
	if a > maxU64-b {
		return maxU64
	}
	return a + b
}

// genHugeAmount draws an amount in the upper part of the uint64 range: around 2^62, on both
// sides of 2^63 (where a signed 64-bit view changes sign) and just below 2^64.
func genHugeAmount(t *rapid.T, label string) (uint64, string) {
	k := rapid.Uint64Range(0, 1000000).Draw(t, label+"_k")
	switch rapid.IntRange(0, 5).Draw(t, label+"_class") {
	case 0:
		return 1<<62 + k, "2^62+k"
	case 1:
		return 1<<63 - 1 - k, "2^63-1-k"
	case 2:
		return 1<<63 - 1, "2^63-1"
	case 3:
		return 1 << 63, "2^63"
	case 4:
		return 1<<63 + 1 + k, "2^63+1+k"
	}
	return maxU64 - k, "2^64-1-k"
}

func genCase(t *rapid.T) Case {
	var c Case
	c.Tx.Version = rapid.SampledFrom([]uint32{1, 2, 0xffffffff}).Draw(t, "version")
	c.Tx.LockTime = rapid.SampledFrom([]uint32{0, 1, 500000000, 0xffffffff}).Draw(t, "locktime")
	nin := rapid.IntRange(1, 6).Draw(t, "nin")
	for i := 0; i < nin; i++ {
		in := ref.In{TxID: gen.Bytes(t, 32, "txid"), Vout: gen.U32(t, "vout"), Seq: 0xffffffff, PrevScript: ref.FeeP2PKH(gen.Bytes(t, 20, "pkh"))}
		if rapid.IntRange(0, 3).Draw(t, "seqk") == 0 {
			in.Seq = gen.U32(t, "seq")
		}
		switch rapid.IntRange(0, 5).Draw(t, "ukind") {
		case 0, 1, 2:
			in.UnlockNil = true // as From leaves it
		case 3:
			in.Unlock = pbt.Hex{} // present but empty
		case 4:
			sl := rapid.IntRange(70, 73).Draw(t, "siglen")
			u := append([]byte{byte(sl)}, gen.Bytes(t, sl, "sig")...)
			u = append(u, 33)
			in.Unlock = append(u, gen.Bytes(t, 33, "pub")...)
		default:
			in.Unlock = gen.FillBytes(t, 1+gen.EdgeLen(t, 299, "ulen", 0, 105, 106, 107, 251, 252, 253), "unlock")
		}
		c.Tx.In = append(c.Tx.In, in)
	}
	c.Tx.In = gen.C10SpecialOutpoints(t, c.Tx.In)
	nin = len(c.Tx.In)
	bigCount := rapid.IntRange(0, 9).Draw(t, "bigcount") == 9
	if bigCount {
		c.NOut = rapid.SampledFrom([]int{251, 252, 252, 252, 253, 254}).Draw(t, "nout")
		nt := rapid.IntRange(1, 3).Draw(t, "ntemplate")
		for i := 0; i < nt; i++ {
			c.Tx.Out = append(c.Tx.Out, genOut(t, true))
		}
	} else {
		n := rapid.IntRange(0, 6).Draw(t, "nout")
		for i := 0; i < n; i++ {
			c.Tx.Out = append(c.Tx.Out, genOut(t, false))
		}
		c.NOut = n
		// one output worth an amount in the upper half of the uint64 range (the others stay
		// small, so that the total of the outputs cannot overflow)
		if n > 0 && rapid.IntRange(0, 19).Draw(t, "huge_out") == 13 {
			v, class := genHugeAmount(t, "huge_out_v")
			at := rapid.IntRange(0, n-1).Draw(t, "huge_out_at")
			if class == "2^64-1-k" { // right below the end of the range: the other outputs carry nothing
				for i := range c.Tx.Out {
					c.Tx.Out[i].Sats = 0
				}
			}
			c.Tx.Out[at].Sats = v
		}
	}
	c.Quote = genQuote(t)
	// input count around the point where its prefix takes three bytes (independent of the output count)
	if rapid.IntRange(0, 49).Draw(t, "many_in") == 37 {
		c.RepIn = rapid.SampledFrom([]int{251, 252, 253, 254}).Draw(t, "total_in") - nin
	}
	m := expand(c)
	nout := len(m.Out)

	switch rapid.IntRange(0, 5).Draw(t, "destk") {
	case 0, 1:
		c.Dest = destAddress
		c.Hash = gen.Bytes(t, 20, "hash")
		c.Mainnet = rapid.Bool().Draw(t, "mainnet")
	case 2:
		c.Dest = destScript
		c.Script = ref.FeeP2PKH(gen.Bytes(t, 20, "hash"))
	case 3:
		c.Dest = destScript
		n := 1 + gen.EdgeLen(t, 399, "cslen", 0, 1, 23, 24, 25, 33, 74, 75, 76, 251, 252, 253, 299, 399)
		c.Script = nonData(gen.FillBytes(t, n, "cscript"))
		if rapid.IntRange(0, 7).Draw(t, "empty_script") == 0 {
			c.Script, c.ScriptForm = pbt.Hex{}, rapid.IntRange(0, 2).Draw(t, "script_form")
		}
	default:
		c.Dest = destExisting
		if nout > 0 && rapid.IntRange(0, 7).Draw(t, "badidx") != 0 {
			c.Index = uint64(rapid.IntRange(0, nout-1).Draw(t, "index"))
		} else {
			c.Index = rapid.SampledFrom([]uint64{uint64(nout), uint64(nout) + 1, 1 << 31, 1 << 32, 1 << 62}).Draw(t, "index")
		}
	}

	// amount relation, aimed with the reference fee of the transaction with its change output
	fWith, err := feeOfFinal(withChange(c, m), c.Quote)
	if err != nil {
		t.Fatalf("generator produced a transaction outside the domain: %v", err)
	}
	f := fWith.Uint64()
	outSum := ref.FeeSumOut(m).Uint64()
	dust := uint64(bt.DustLimit)
	c.Rel = rapid.SampledFrom([]string{"equal", "insufficient", "fee-1", "fee", "fee+1", "fee+dust", "fee+dust+1", "fee+dust+2", "ample", "ample", "ample", "huge", "surplus>=2^62"}).Draw(t, "rel")
	var total uint64
	switch c.Rel {
	case "surplus>=2^62": // the whole upper range of the amount type, up to the last value the total can take
		v, class := genHugeAmount(t, "surplus")
		c.Rel = "surplus=" + class
		if total = satAdd(satAdd(outSum, f), v); total == maxU64 {
			c.Rel = "total=2^64-1-k"
			total = maxU64 - rapid.Uint64Range(0, 1000000).Draw(t, "below_max")
		}
	case "insufficient":
		if outSum == 0 {
			c.Rel = "equal"
			total = 0
		} else {
			total = outSum - rapid.Uint64Range(1, outSum).Draw(t, "short")
		}
	case "equal":
		total = outSum
	case "fee-1":
		if f == 0 {
			c.Rel = "equal"
			total = outSum
		} else {
			total = outSum + f - 1
		}
	case "fee":
		total = outSum + f
	case "fee+1":
		total = outSum + f + 1
	case "fee+dust":
		total = outSum + f + dust
	case "fee+dust+1":
		total = outSum + f + dust + 1
	case "fee+dust+2":
		total = outSum + f + dust + 2
	case "ample":
		total = outSum + f + rapid.Uint64Range(3, 100000).Draw(t, "extra")
	default:
		total = satAdd(outSum+f, rapid.Uint64Range(100000, 2000000000000000).Draw(t, "extra"))
	}
	rem := total
	for i := range c.Tx.In {
		if i == len(c.Tx.In)-1 {
			c.Tx.In[i].PrevSats = rem
			break
		}
		p := rapid.Uint64Range(0, rem).Draw(t, "part")
		c.Tx.In[i].PrevSats = p
		rem -= p
	}
	return c
}

// enumCases is the complete product of output counts around the counter
// boundary x destination kinds x fee rates x amount relations, on a fixed
// one-input transaction.
func enumCases(yield func(Case)) {
	h := func(b byte) []byte { return bytes.Repeat([]byte{b}, 20) }
	rates := []ref.FeeUnit{{Sat: 5, Bytes: 100}, {Sat: 1, Bytes: 1}, {Sat: 2, Bytes: 1}, {Sat: 5, Bytes: 1}, {Sat: 50, Bytes: 1}, {Sat: 999, Bytes: 1000}, {Sat: 1, Bytes: 1000}, {Sat: 0, Bytes: 1}, {Sat: 5000, Bytes: 3}}
	rels := []string{"insufficient", "equal", "fee-1", "fee", "fee+1", "fee+dust", "fee+dust+1", "fee+dust+2", "ample", "huge", "surplus=2^63-1", "surplus=2^63", "surplus=2^63+12345", "total=2^64-1"}
	dests := []string{"address", "p2pkh", "script0", "script1", "script24", "script76", "script253", "script400", "existing0", "existingLast", "existingInvalid"}
	for _, nout := range []int{0, 1, 2, 251, 252, 253, 254} {
		for _, d := range dests {
			for ri, r := range rates {
				for _, rel := range rels {
					c := Case{NOut: nout, Rel: rel}
					c.Tx = ref.Tx{Version: 1, In: []ref.In{{TxID: bytes.Repeat([]byte{0x11}, 32), Vout: 1, Seq: 0xffffffff, UnlockNil: true, PrevScript: ref.FeeP2PKH(h(0x22))}}}
					if nout > 0 {
						c.Tx.Out = []ref.Out{{Sats: 1000, Script: ref.FeeP2PKH(h(0x33))}}
						if ri%2 == 1 {
							c.Tx.Out = append(c.Tx.Out, ref.Out{Sats: 0, Script: pbt.Hex{0x00, 0x6a, 0x02, 0xab, 0xcd}})
						}
					}
					c.Quote = ref.FeeQuote{Std: r, Data: rates[(ri+3)%len(rates)], StdRelay: ref.FeeUnit{Sat: 7, Bytes: 3}, DataRelay: ref.FeeUnit{Sat: 1, Bytes: 9}, StdTag: ri % 3, DataTag: (ri + 1) % 3, Build: []int{0, 2, 3, 4, 5}[(ri+nout)%5]}
					switch d {
					case "address":
						c.Dest, c.Hash, c.Mainnet = destAddress, h(0x44), ri%2 == 0
					case "p2pkh":
						c.Dest, c.Script = destScript, ref.FeeP2PKH(h(0x55))
					case "existing0", "existingLast", "existingInvalid":
						c.Dest = destExisting
						switch {
						case d == "existingInvalid":
							c.Index = uint64(nout)
						case nout == 0:
							continue
						case d == "existingLast":
							c.Index = uint64(nout - 1)
						}
					default:
						var n int
						fmt.Sscanf(d, "script%d", &n)
						c.Dest, c.Script = destScript, bytes.Repeat([]byte{0x51}, n)
						if n == 0 {
							c.ScriptForm = (nout + ri) % 3 // the empty script in each of its Go forms
						}
					}
					m := expand(c)
					fWith, err := feeOfFinal(withChange(c, m), c.Quote)
					if err != nil {
						panic(err)
					}
					f, out, dust := fWith.Uint64(), ref.FeeSumOut(m).Uint64(), uint64(bt.DustLimit)
					var total uint64
					switch rel {
					case "insufficient":
						if out == 0 {
							continue
						}
						total = out - 1
					case "equal":
						total = out
					case "fee-1":
						if f == 0 {
							continue
						}
						total = out + f - 1
					case "fee":
						total = out + f
					case "fee+1":
						total = out + f + 1
					case "fee+dust":
						total = out + f + dust
					case "fee+dust+1":
						total = out + f + dust + 1
					case "fee+dust+2":
						total = out + f + dust + 2
					case "ample":
						total = out + f + 12345
					case "surplus=2^63-1":
						total = out + f + 1<<63 - 1
					case "surplus=2^63":
						total = out + f + 1<<63
					case "surplus=2^63+12345":
						total = out + f + 1<<63 + 12345
					case "total=2^64-1":
						total = maxU64
					default:
						total = out + f + 2000000000000000
					}
					c.Tx.In[0].PrevSats = total
					yield(c)
				}
			}
		}
	}
}

func TestChange(t *testing.T) {
	pbt.Run(t, pbt.Sub[Case]{
		Name: "change", Quick: 300000, Thorough: 16000000,
		Gen:      genCase,
		Check:    check,
		EnumDesc: "one unsigned P2PKH input; output count in {0,1,2,251,252,253,254} x destination in {address, P2PKH script, the empty script (as empty slice / nil slice behind a pointer / NewFromBytes(nil)), scripts of 1/24/76/253/400 bytes, existing output first/last/invalid} x 9 standard rates (paired with a different data rate; every other one adds an OP_FALSE OP_RETURN output) x input total in {out-1, out, F-1, F, F+1, F+dust, F+dust+1, F+dust+2, ample, huge, F+2^63-1, F+2^63, F+2^63+12345, 2^64-1}, F = reference fee including the change output",
		Enum:     func(_ string, yield func(Case)) { enumCases(yield) },
	})
}
