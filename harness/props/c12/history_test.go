package c12

// Sub-check "history" (extension round 4): one *bt.Tx and one *bt.FeeQuote serve several
// Fund calls, with size / fee queries, in-place edits of exported fields, added and removed
// inputs and outputs, AddQuote updates of the quote object, a change operation or a Clone in
// between. Every Fund call is judged by the oracle of the "fund" sub-check against the
// transaction as it stands when Fund is called (an independent snapshot of the exported
// fields: whatever an earlier call - successful or failed - left behind is this call's
// "previous inputs"), with the rates the quote object holds at that moment. Anything the
// library remembered from an earlier call (a deficit, a size or fee estimate, a rate) shows up
// as a wrong deficit handed to the supplier, a missing or surplus supplier call, or an
// uncovered "success".

import (
	"bytes"
	"errors"
	"fmt"
	"math/big"
	"testing"

	"github.com/libsv/go-bt/v2"
	"github.com/libsv/go-bt/v2/bscript"
	"pgregory.net/rapid"

	"verif/harness/gen"
	"verif/harness/pbt"
	"verif/harness/ref"
)

// HStep is one step of a history.
type HStep struct {
	Kind string `json:"kind"`
	// fund
	Batches [][]U  `json:"batches,omitempty"`
	End     string `json:"end,omitempty"`
	Acts    []Act  `json:"acts,omitempty"` // what the supplier callback does during each call (see Case.Acts)
	RepBatch int   `json:"rep_batch,omitempty"` // see Case.RepBatch
	RepAt    int   `json:"rep_at,omitempty"`
	Ctx      CtxSpec `json:"ctx,omitempty"`       // see Case.Ctx
	EndBatch []U     `json:"end_batch,omitempty"` // see Case.EndBatch
	NilEmpty bool    `json:"nil_empty,omitempty"` // see Case.NilEmpty
	// edits
	At   int         `json:"at,omitempty"`
	N    int         `json:"n,omitempty"`
	U64  uint64      `json:"u64,omitempty"`
	B    pbt.Hex     `json:"b,omitempty"`
	Hash pbt.Hex     `json:"hash,omitempty"`
	Nil  bool        `json:"nil,omitempty"`
	Data bool        `json:"data,omitempty"`
	Unit ref.FeeUnit `json:"unit,omitempty"`
	Tag  int         `json:"tag,omitempty"` // quote: FeeType field of the registered fee object (ref.FeeTag*)
	Via   string      `json:"via,omitempty"`   // quote: the exported way the quote object is changed (ref.FeeQuoteEdit.Via)
	Unit2 ref.FeeUnit `json:"unit2,omitempty"` // quote via unmarshal: new rate of the other type
	R     *ref.C11Refused `json:"r,omitempty"` // refused: a call on the quote object that the library refuses
}

// HistCase is a starting transaction (prior inputs P2PKH-funded), a starting quote, the steps.
type HistCase struct {
	Tx    ref.Tx       `json:"tx"`
	Quote ref.FeeQuote `json:"quote"`
	Steps []HStep      `json:"steps"`
}

func hFiller(n, salt int) []byte {
	b := make([]byte, n)
	for i := range b {
		b[i] = byte(i*7 + salt*13 + 3)
	}
	return b
}

func hEdit(st HStep) ref.FeeQuoteEdit {
	return ref.FeeQuoteEdit{Via: st.Via, Data: st.Data, Unit: st.Unit, Unit2: st.Unit2, Tag: st.Tag}
}

func hStepValid(st HStep) string {
	switch st.Kind {
	case "oappend":
		if st.N < 0 || st.N > 2000 {
			return "length out of range"
		}
	case "repin":
		if st.N < 0 || st.N > 600 {
			return "count out of range"
		}
	case "addin":
		if len(st.B) != 32 || len(st.Hash) != 20 {
			return "malformed input"
		}
	case "change":
		if len(st.Hash) != 20 {
			return "malformed address hash"
		}
	case "quote":
		if !ref.FeeQuoteEditWideOK(hEdit(st)) {
			return "quote outside domain"
		}
	case "refused":
		if st.R == nil || !ref.C11RefusedOK(*st.R) {
			return "malformed refused call"
		}
	case "fund":
		if !endOK(st.End) {
			return "unknown terminator"
		}
		if !ctxOK(st.Ctx) || len(st.EndBatch) > 8 {
			return "malformed context / terminator batch"
		}
		n := 0
		for _, b := range st.Batches {
			n += len(b)
		}
		if len(st.Batches) > 9 || n > 40 || len(st.Acts) > 10 || st.RepBatch < 0 || st.RepBatch > 5000 {
			return "supplier history too long"
		}
		for _, a := range st.Acts {
			if !actOK(a) {
				return "callback action outside domain"
			}
		}
	}
	return ""
}

func hCopyModel(m ref.Tx) ref.Tx {
	o := ref.Tx{Version: m.Version, LockTime: m.LockTime}
	for _, in := range m.In {
		in.TxID = append(pbt.Hex{}, in.TxID...)
		if in.UnlockNil {
			in.Unlock = nil
		} else {
			in.Unlock = append(pbt.Hex{}, in.Unlock...)
		}
		if in.PrevNil {
			in.PrevScript = nil
		} else {
			in.PrevScript = append(pbt.Hex{}, in.PrevScript...)
		}
		o.In = append(o.In, in)
	}
	for _, out := range m.Out {
		o.Out = append(o.Out, ref.Out{Sats: out.Sats, Script: append(pbt.Hex{}, out.Script...)})
	}
	return o
}

// hModelEdit applies an edit step to the model; false = the step does not apply (no element).
func hModelEdit(m *ref.Tx, q *ref.FeeQuote, st HStep) bool {
	nin, nout := len(m.In), len(m.Out)
	switch st.Kind {
	case "query", "none", "refused": // a refused update is not an update
	case "addin":
		m.In = append(m.In, ref.In{TxID: append(pbt.Hex{}, st.B...), Vout: uint32(st.N), Seq: 0xffffffff, UnlockNil: true, PrevSats: st.U64, PrevScript: ref.FeeP2PKH(st.Hash)})
	case "isats":
		if nin == 0 {
			return false
		}
		m.In[st.At%nin].PrevSats = st.U64
	case "iunlock":
		if nin == 0 {
			return false
		}
		i := st.At % nin
		if st.Nil {
			m.In[i].Unlock, m.In[i].UnlockNil = nil, true
		} else {
			m.In[i].Unlock, m.In[i].UnlockNil = append(pbt.Hex{}, st.B...), false
		}
	case "rmin":
		if nin == 0 {
			return false
		}
		i := st.At % nin
		m.In = append(append([]ref.In{}, m.In[:i]...), m.In[i+1:]...)
	case "repin":
		if nin == 0 {
			return false
		}
		last := m.In[nin-1]
		for j := 0; j < st.N; j++ {
			in := last
			in.TxID = append(pbt.Hex{}, last.TxID...)
			if len(in.TxID) == 32 {
				in.TxID[0], in.TxID[1], in.TxID[2] = byte(j), byte(j>>8)^0x3c, byte(nin)
			}
			in.PrevSats = 0
			in.Unlock = append(pbt.Hex{}, last.Unlock...)
			in.PrevScript = append(pbt.Hex{}, last.PrevScript...)
			m.In = append(m.In, in)
		}
	case "addout":
		m.Out = append(m.Out, ref.Out{Sats: st.U64, Script: append(pbt.Hex{}, st.B...)})
	case "osats":
		if nout == 0 {
			return false
		}
		m.Out[st.At%nout].Sats = st.U64
	case "rmout":
		if nout == 0 {
			return false
		}
		i := st.At % nout
		m.Out = append(append([]ref.Out{}, m.Out[:i]...), m.Out[i+1:]...)
	case "oappend":
		if nout == 0 {
			return false
		}
		i := st.At % nout
		m.Out[i].Script = append(append(pbt.Hex{}, m.Out[i].Script...), hFiller(st.N, i)...)
	case "obyte":
		if nout == 0 {
			return false
		}
		i := st.At % nout
		if st.N < 0 || st.N >= len(m.Out[i].Script) {
			return false
		}
		sc := append(pbt.Hex{}, m.Out[i].Script...)
		sc[st.N] = byte(st.U64)
		m.Out[i].Script = sc
	case "quote":
		ref.FeeQuoteEditModel(q, hEdit(st))
	default:
		return false
	}
	return true
}

// hLibEdit performs the same edit on the library objects, in place.
func hLibEdit(tx *bt.Tx, lq *ref.FeeQuoteLib, qBefore ref.FeeQuote, m ref.Tx, st HStep) error {
	fq := lq.Q
	nin, nout := len(tx.Inputs), len(tx.Outputs)
	switch st.Kind {
	case "query":
		_ = tx.Size()
		_ = tx.SizeWithTypes()
		_, _ = tx.EstimateSize()
		_, _ = tx.EstimateSizeWithTypes()
		_, _ = tx.EstimateFeesPaid(fq)
		_, _ = tx.EstimateIsFeePaidEnough(fq)
		_, _ = tx.IsFeePaidEnough(fq)
		_ = tx.TxID()
	case "addin":
		u := &bt.UTXO{TxID: append([]byte{}, st.B...), Vout: uint32(st.N), Satoshis: st.U64, LockingScript: bscript.NewFromBytes(ref.FeeP2PKH(st.Hash))}
		if err := tx.FromUTXOs(u); err != nil {
			return fmt.Errorf("harness: FromUTXOs: %v", err)
		}
	case "isats":
		tx.Inputs[st.At%nin].PreviousTxSatoshis = st.U64
	case "iunlock":
		if st.Nil {
			tx.Inputs[st.At%nin].UnlockingScript = nil
		} else {
			tx.Inputs[st.At%nin].UnlockingScript = bscript.NewFromBytes(append([]byte{}, st.B...))
		}
	case "rmin":
		i := st.At % nin
		tx.Inputs = append(tx.Inputs[:i], tx.Inputs[i+1:]...)
	case "repin": // the model already holds the replicas
		for _, in := range m.In[nin:] {
			i := &bt.Input{PreviousTxOutIndex: in.Vout, SequenceNumber: in.Seq, PreviousTxSatoshis: in.PrevSats}
			if err := i.PreviousTxIDAdd(append([]byte{}, in.TxID...)); err != nil {
				return fmt.Errorf("harness: %v", err)
			}
			if !in.UnlockNil {
				i.UnlockingScript = bscript.NewFromBytes(append([]byte{}, in.Unlock...))
			}
			if !in.PrevNil {
				i.PreviousTxScript = bscript.NewFromBytes(append([]byte{}, in.PrevScript...))
			}
			tx.Inputs = append(tx.Inputs, i)
		}
	case "addout":
		tx.AddOutput(&bt.Output{Satoshis: st.U64, LockingScript: bscript.NewFromBytes(append([]byte{}, st.B...))})
	case "osats":
		tx.Outputs[st.At%nout].Satoshis = st.U64
	case "rmout":
		i := st.At % nout
		tx.Outputs = append(tx.Outputs[:i], tx.Outputs[i+1:]...)
	case "oappend":
		i := st.At % nout
		p := tx.Outputs[i].LockingScript
		*p = append(*p, hFiller(st.N, i)...)
	case "obyte":
		(*tx.Outputs[st.At%nout].LockingScript)[st.N] = byte(st.U64)
	case "quote":
		if err := lq.Apply(&qBefore, hEdit(st)); err != nil {
			return fmt.Errorf("updating the quote object (%s): %v", st.Via, err)
		}
	case "refused":
		if err := ref.C11RefusedApply(lq, *st.R); err != nil {
			if errors.Is(err, ref.C11ErrAccepted) {
				return errStopJudging
			}
			return fmt.Errorf("refused call %s: %v", ref.C11RefusedLabel(*st.R), err)
		}
	}
	return nil
}

func hKinds(steps []HStep) string {
	s := "["
	for i, st := range steps {
		if i > 0 {
			s += " "
		}
		s += st.Kind
	}
	return s + "]"
}

func checkHistory(ctx *pbt.Ctx, c HistCase) error {
	if len(c.Steps) > 12 {
		ctx.Discard("history too long")
		return nil
	}
	for _, st := range c.Steps {
		if why := hStepValid(st); why != "" {
			ctx.Discard(why)
			return nil
		}
	}
	q := c.Quote
	for _, u := range []ref.FeeUnit{q.Std, q.Data} {
		if !ref.FeeUnitWideOK(u) {
			ctx.Discard("quote outside domain")
			return nil
		}
	}
	for _, in := range c.Tx.In {
		if len(in.TxID) != 32 || in.PrevNil || !ref.FeeIsP2PKH(in.PrevScript) {
			ctx.Discard("prior input not P2PKH-funded")
			return nil
		}
	}
	m := hCopyModel(c.Tx)
	if ref.Ambiguous(m) {
		ctx.Discard("ambiguous extended-marker shape")
		return nil
	}
	tx := ref.ToLib(m)
	lq, err := ref.FeeQuoteBuild(q)
	if err != nil {
		return fmt.Errorf("building the quote object: %v", err)
	}
	fq := lq.Q
	ctx.After(lq.Unmodified)
	ctx.Labelf("steps=%d", len(c.Steps))
	nFund := 0
	prevKind, lastFund := "start", ""
	sawInPlace, sawQuote, sawQuery, sawRefused := false, false, false, false
	for i, st := range c.Steps {
		if ref.Ambiguous(m) {
			ctx.Discard("history reaches the ambiguous extended-marker shape")
			return nil
		}
		switch st.Kind {
		case "fund":
			snap := hCopyModel(ref.FromLib(tx))
			cc := Case{Tx: snap, Quote: q, Batches: expandBatches(st.Batches, st.RepAt, st.RepBatch), End: st.End, Acts: st.Acts,
				Ctx: st.Ctx, EndBatch: st.EndBatch, NilEmpty: st.NilEmpty}
			if st.Ctx.Kind != "" && st.Ctx.Kind != "todo" && st.Ctx.Kind != "deadline-future" {
				ctx.Label("fund-under-a-context-that-is-or-gets-done")
				if nFund >= 1 {
					ctx.Label("later-fund-under-a-context-that-is-or-gets-done")
				}
			}
			funded := true
			for _, in := range snap.In {
				if len(in.TxID) != 32 || in.PrevNil || !ref.FeeIsP2PKH(in.PrevScript) {
					funded = false
				}
			}
			if !funded {
				// an earlier failed call left an input the estimator refuses: outside the domain from here on
				ctx.Label("history-ended:transaction-no-longer-P2PKH-funded")
				return nil
			}
			if why := amountsOutside(cc); why != "" {
				ctx.Discard("history leaves the domain: " + why)
				return nil
			}
			want, err := runModel(cc)
			if err != nil {
				return fmt.Errorf("harness: %v", err)
			}
			jc := ctx
			if prevKind == "start" {
				jc = &pbt.Ctx{} // nothing precedes: this is the "fund" sub-check's own case
			}
			if err := judgeFund(jc, cc, want, tx, lq); err == errStopJudging {
				ctx.Label("history-ended:no-verdict-on-the-rest")
				return nil
			} else if err != nil {
				return fmt.Errorf("step %d of the history %s on one transaction object (%d inputs, %d outputs when Fund was called; earlier Fund in this history: %q): %v",
					i+1, hKinds(c.Steps[:i+1]), len(snap.In), len(snap.Out), lastFund, err)
			}
			nFund++
			ctx.Labelf("fund-number=%d", min(nFund, 4))
			ctx.Label("fund-after:" + prevKind)
			if nFund >= 2 {
				if len(want.deficits) > 0 {
					ctx.Label("later-fund-calls-supplier(after earlier " + lastFund + ")")
				}
				if len(want.deficits) >= 2 {
					ctx.NonTrivial()
				}
				if len(snap.In) < 253 && want.class == resOK && len(want.final.In) >= 253 {
					ctx.Label("input-count-crosses-253-in-later-fund")
				}
			}
			if len(want.deficits) > 0 {
				if sawInPlace {
					ctx.Label("supplier-called-after-in-place-script-edit")
				}
				if sawQuote {
					ctx.Label("supplier-called-after-quote-update")
				}
				if sawQuery {
					ctx.Label("supplier-called-after-size-query")
				}
				if sawRefused {
					ctx.Label("supplier-called-after-a-refused-call-on-the-quote")
				}
			}
			lastFund = want.class
			m = hCopyModel(ref.FromLib(tx))
			q = want.quote // the callback may have updated the quote object
		case "change": // C10's business; here it only moves the state on
			a, aerr := bscript.NewAddressFromPublicKeyHash(st.Hash, true)
			if aerr != nil {
				return fmt.Errorf("harness: %v", aerr)
			}
			before := ref.FromLib(tx)
			cerr := tx.ChangeToAddress(a.AddressString, fq)
			m = hCopyModel(ref.FromLib(tx))
			if cerr == nil && len(m.Out) == len(before.Out)+1 {
				ctx.Label("change-added")
			}
		case "clone":
			tx = tx.Clone()
			m = hCopyModel(ref.FromLib(tx))
		default:
			qBefore := q
			if !hModelEdit(&m, &q, st) {
				ctx.Label("step-skipped")
				continue
			}
			if err := hLibEdit(tx, lq, qBefore, m, st); err == errStopJudging {
				ctx.Label("history-ended:no-verdict-on-the-rest")
				return nil
			} else if err != nil {
				return err
			}
			switch st.Kind {
			case "oappend", "obyte":
				sawInPlace = true
			case "quote":
				sawQuote = true
				ctx.Label("quote-step:via=" + hEdit(st).Via)
				if st.Tag == ref.FeeTagOther {
					ctx.Label("quote-step:fee-type-field=other-type")
				} else if st.Tag == ref.FeeTagEmpty {
					ctx.Label("quote-step:fee-type-field=empty")
				}
			case "query":
				sawQuery = true
			case "refused":
				sawRefused = true
				ctx.Label(ref.C11RefusedLabel(*st.R))
			}
			if got := ref.FromLib(tx); !bytes.Equal(ref.Encode(got, true), ref.Encode(m, true)) {
				if st.Kind == "query" {
					return fmt.Errorf("step %d of %s: the size / fee queries modified the transaction", i+1, hKinds(c.Steps[:i+1]))
				}
				return fmt.Errorf("harness: step %d (%s) left object and model different", i+1, st.Kind)
			}
		}
		ctx.Label("step=" + st.Kind)
		prevKind = st.Kind
	}
	ctx.Labelf("funds=%d", min(nFund, 4))
	return nil
}

// ---------------------------------------------------------------------------
// generator

func genHOut(t *rapid.T) (pbt.Hex, uint64) {
	var s pbt.Hex
	switch rapid.IntRange(0, 5).Draw(t, "okind") {
	case 0, 1, 2:
		s = ref.FeeP2PKH(gen.Bytes(t, 20, "ohash"))
	case 3:
		s = append(pbt.Hex{0x6a}, gen.FillBytes(t, gen.EdgeLen(t, 400, "dlen", 0, 1, 75, 76, 251, 252, 253), "payload")...)
	case 4:
		s = append(pbt.Hex{0x00, 0x6a}, gen.FillBytes(t, gen.EdgeLen(t, 400, "dlen", 0, 1, 75, 76, 250, 251, 252), "payload")...)
		if rapid.IntRange(0, 3).Draw(t, "template_payload") == 2 { // pushes that start with opcode-valued bytes
			s = append(pbt.Hex{0x00, 0x6a}, gen.C10DataPayload(t, "tpl")...)
		}
	default:
		s = gen.FillBytes(t, gen.EdgeLen(t, 100, "slen", 0, 1, 25), "oscript")
	}
	var v uint64
	switch rapid.IntRange(0, 3).Draw(t, "vkind") {
	case 0:
		v = 0
	case 1:
		v = rapid.Uint64Range(1, 1000000000000).Draw(t, "osats")
	default:
		v = rapid.Uint64Range(0, 100000).Draw(t, "osats")
	}
	return s, v
}

func genHEdit(t *rapid.T, m ref.Tx) HStep {
	kinds := []string{"query", "query", "addout", "addout", "addout", "osats", "oappend", "oappend", "obyte", "rmout", "addin", "isats", "isats", "iunlock", "rmin", "rep", "quote", "quote", "change", "clone", "refused"}
	st := HStep{Kind: rapid.SampledFrom(kinds).Draw(t, "kind")}
	st.At = rapid.IntRange(0, 5).Draw(t, "at")
	switch st.Kind {
	case "addout":
		st.B, st.U64 = genHOut(t)
	case "osats":
		st.U64 = rapid.Uint64Range(0, 1000000).Draw(t, "amount")
		if rapid.IntRange(0, 5).Draw(t, "huge_amount") == 3 { // upper half of the uint64 range
			st.U64, _ = genHugeAmount(t, "huge_v")
		}
	case "isats":
		st.U64 = rapid.Uint64Range(0, 1000).Draw(t, "amount")
	case "oappend":
		st.N = rapid.SampledFrom([]int{1, 2, 3, 200, 227, 228, 229, 250, 251, 252, 253, 300, 1000}).Draw(t, "grow")
	case "obyte":
		st.N = rapid.SampledFrom([]int{0, 0, 1}).Draw(t, "pos")
		st.U64 = uint64(rapid.SampledFrom([]byte{0x6a, 0x6a, 0x00, 0x51, 0x76}).Draw(t, "val"))
	case "addin":
		st.B, st.N, st.Hash = gen.Bytes(t, 32, "txid"), int(gen.U32(t, "vout")&0x7fffffff), gen.Bytes(t, 20, "pkh")
		st.U64 = rapid.Uint64Range(0, 2000).Draw(t, "isats")
	case "iunlock":
		switch rapid.IntRange(0, 3).Draw(t, "uk") {
		case 0:
			st.Nil = true
		case 1:
			st.B = pbt.Hex{}
		default:
			st.B = gen.FillBytes(t, rapid.IntRange(1, 120).Draw(t, "ulen"), "unlock")
		}
	case "rep": // the next Fund starts a few inputs below the three-byte count prefix
		st.Kind = "repin"
		st.N = max(rapid.IntRange(247, 253).Draw(t, "total")-len(m.In), 0)
	case "quote":
		st.Data = rapid.Bool().Draw(t, "data")
		st.Unit = genUnit(t, "unit")
		st.Tag = genFeeTag(t, "tag")
		st.Via = genQuoteVia(t, "via")
		st.Unit2 = genUnit(t, "unit2")
		genEditWiden(t, &st.Unit, &st.Unit2, &st.Via)
	case "change":
		st.Hash = gen.Bytes(t, 20, "chash")
	case "refused":
		r := gen.C11Refused(t, "refused")
		st.R = &r
	}
	return st
}

func genHistCase(t *rapid.T) HistCase {
	var c HistCase
	c.Tx.Version = rapid.SampledFrom([]uint32{1, 2, 0xffffffff}).Draw(t, "version")
	c.Tx.LockTime = rapid.SampledFrom([]uint32{0, 1, 500000000, 0xffffffff}).Draw(t, "locktime")
	c.Quote = ref.FeeQuote{Std: genUnit(t, "std"), Data: genUnit(t, "data"), StdRelay: genUnit(t, "stdrelay"), DataRelay: genUnit(t, "datarelay"),
		StdTag: genFeeTag(t, "stdtag"), DataTag: genFeeTag(t, "datatag")}
	genQuoteBuild(t, &c.Quote)
	genQuoteWiden(t, &c.Quote)
	nout := rapid.IntRange(0, 3).Draw(t, "nout")
	for i := 0; i < nout; i++ {
		s, v := genHOut(t)
		c.Tx.Out = append(c.Tx.Out, ref.Out{Sats: v, Script: s})
	}
	nprior := rapid.IntRange(0, 2).Draw(t, "nprior")
	for i := 0; i < nprior; i++ {
		in := ref.In{TxID: gen.Bytes(t, 32, "txid"), Vout: gen.U32(t, "vout"), Seq: 0xffffffff, PrevScript: ref.FeeP2PKH(gen.Bytes(t, 20, "pkh")), UnlockNil: true,
			PrevSats: rapid.Uint64Range(0, 1000).Draw(t, "isats")}
		if rapid.IntRange(0, 2).Draw(t, "signed") == 2 {
			in.UnlockNil = false
			in.Unlock = gen.FillBytes(t, rapid.IntRange(1, 120).Draw(t, "ulen"), "unlock")
		}
		c.Tx.In = append(c.Tx.In, in)
	}
	c.Tx.In = gen.C10SpecialOutpoints(t, c.Tx.In)
	m := hCopyModel(c.Tx)
	q := c.Quote
	// the generator's running model: edits exactly, Fund by the loop model, change by the reference fee
	push := func(st HStep) {
		c.Steps = append(c.Steps, st)
		switch st.Kind {
		case "fund":
			if r, err := runModel(Case{Tx: m, Quote: q, Batches: expandBatches(st.Batches, st.RepAt, st.RepBatch), End: st.End, Acts: st.Acts}); err == nil {
				if r.class == resOK || r.class == resExhausted || r.class == resSupplierErr {
					m = hCopyModel(r.final)
				}
				q = r.quote
			}
		case "change":
			w := hCopyModel(m)
			w.Out = append(w.Out, ref.Out{Script: ref.FeeP2PKH(st.Hash)})
			if fin, _, err := ref.FeeEstimatedFinal(w); err == nil {
				fee, _, _ := ref.FeeCalc(ref.FeeSizesOf(fin), q)
				rem := new(big.Int).Sub(ref.FeeSumIn(m), ref.FeeSumOut(m))
				rem.Sub(rem, fee)
				if rem.Cmp(big.NewInt(int64(bt.DustLimit))) > 0 && rem.IsUint64() {
					w.Out[len(w.Out)-1].Sats = rem.Uint64()
					m = w
				}
			}
		case "clone":
		default:
			hModelEdit(&m, &q, st)
		}
	}
	genFund := func() HStep {
		st := HStep{Kind: "fund"}
		var room uint64
		st.Batches, st.Acts, room = genBatches(t, m, q)
		st.End, st.EndBatch, st.Ctx, st.NilEmpty = genFundArgs(t, m, len(st.Batches), room)
		if rapid.IntRange(0, 299).Draw(t, "long_run") == 177 && len(m.In) < 20 { // a run of empty batches somewhere
			fc := Case{Batches: st.Batches}
			longRunEmpty(&fc, rapid.IntRange(0, len(st.Batches)).Draw(t, "long_at"), rapid.SampledFrom(longRunCounts).Draw(t, "long_n"))
			st.Batches, st.RepAt, st.RepBatch = fc.Batches, fc.RepAt, fc.RepBatch
		}
		return st
	}
	// the first step is never a Fund call (that would be the "fund" sub-check's case)
	push(genHEdit(t, m))
	budget := rapid.IntRange(1, 7).Draw(t, "budget")
	for len(c.Steps) < 1+budget {
		if rapid.IntRange(0, 1).Draw(t, "what") == 0 {
			push(genHEdit(t, m))
		} else {
			push(genFund())
		}
	}
	if c.Steps[len(c.Steps)-1].Kind != "fund" {
		push(genFund())
	}
	return c
}

func TestHistory(t *testing.T) {
	pbt.Run(t, pbt.Sub[HistCase]{
		Name: "history", Quick: 50000, Thorough: 800000,
		Gen:   genHistCase,
		Check: checkHistory,
	})
}
