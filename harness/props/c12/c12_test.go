// Package c12 decides property C12 (the funding loop stops exactly when covered
// and consumes the supplier's UTXOs faithfully).
package c12

import (
	"bytes"
	"context"
	"errors"
	"fmt"
	"math/big"
	"strings"
	"testing"
	"time"

	"github.com/libsv/go-bt/v2"
	"github.com/libsv/go-bt/v2/bscript"
	"github.com/libsv/go-bt/v2/unlocker"
	"pgregory.net/rapid"

	"verif/harness/gen"
	"verif/harness/pbt"
	"verif/harness/ref"
)

func TestMain(m *testing.M) { pbt.Main(m) }

// U is one UTXO the supplier hands out.
type U struct {
	TxID      pbt.Hex `json:"txid"` // 32 bytes, or another length for the invalid-txid class
	Vout      uint32  `json:"vout"`
	Sats      uint64  `json:"sats"`
	Script    pbt.Hex `json:"script"`
	ScriptNil bool    `json:"script_nil,omitempty"`
	Seq       uint32  `json:"seq"` // UTXO.SequenceNumber as supplied (documented to be ignored: inputs are final)
	// Same (ninth round): the supplier hands out the very *bt.UTXO object it handed out just before
	// (the previous UTXO of its history) once more; the other fields then repeat that UTXO's
	Same bool `json:"same,omitempty"`
	// Unlocker: the UTXO carries a (never used) Unlocker
	Unlocker bool `json:"unlocker,omitempty"`
}

// Case is a whole supplier history: the starting transaction, the quote, the
// batches returned call after call and what the supplier answers once the
// batches are used up.
type Case struct {
	Tx      ref.Tx       `json:"tx"` // prior inputs are P2PKH-funded
	Quote   ref.FeeQuote `json:"quote"`
	Batches [][]U        `json:"batches"`
	End     string       `json:"end"` // "exhausted" (bt.ErrNoUTXO) | "exhausted-wrapped" (fmt.Errorf("...%w", bt.ErrNoUTXO)) | "error"
	// RepPrior appends that many further copies of the last prior input (own txid, worth
	// nothing) to the starting transaction: funding then starts a few inputs below the point
	// where the input count needs a three-byte prefix, without 250 inputs being drawn and stored
	RepPrior int `json:"rep_prior,omitempty"`
	// Acts[i] is what the supplier callback does, as the caller's own code, during supplier
	// call i before it returns its batch (or its terminator): nothing, size / fee queries on
	// the transaction, or an update of the caller's quote object with AddQuote. It never edits
	// the transaction. Calls beyond len(Acts) do nothing.
	Acts []Act `json:"acts,omitempty"`
	// RepBatch hands batch number RepAt out that many more times (every replica with its own
	// txids) before the supplier history goes on: a funding with hundreds or thousands of
	// supplier calls is stored as a number
	RepBatch int `json:"rep_batch,omitempty"`
	RepAt    int `json:"rep_at,omitempty"`
	// ninth round: arguments and callback results the earlier rounds held constant
	Ctx      CtxSpec `json:"ctx,omitempty"`       // the context Fund is given
	EndBatch []U     `json:"end_batch,omitempty"` // UTXOs the supplier returns TOGETHER WITH its terminator (an error)
	NilEmpty bool    `json:"nil_empty,omitempty"` // an empty batch is returned as a nil slice (else as an empty non-nil one)
}

// CtxSpec describes the context argument of Fund.
type CtxSpec struct {
	// Kind: "" (context.Background) | "todo" | "cancelled" (before Fund is called) | "deadline-past" |
	// "deadline-future" | "cancel-during" (the supplier callback cancels it during supplier call At)
	Kind   string `json:"kind,omitempty"`
	At     int    `json:"at,omitempty"`
	Values bool   `json:"values,omitempty"` // the context carries a value of the caller
}

type ctxKey struct{}

const ctxValue = "the caller's value"

func ctxOK(s CtxSpec) bool {
	switch s.Kind {
	case "", "todo", "cancelled", "deadline-past", "deadline-future", "cancel-during":
		return s.At >= 0
	}
	return false
}

// makeCtx builds the context. Deadlines are constants (no clock decides anything: a deadline in
// 1970 has passed, one in 2999 has not).
func makeCtx(s CtxSpec) (context.Context, context.CancelFunc) {
	var base context.Context = context.Background()
	if s.Kind == "todo" {
		base = context.TODO()
	}
	if s.Values {
		base = context.WithValue(base, ctxKey{}, ctxValue)
	}
	switch s.Kind {
	case "cancelled":
		c, cancel := context.WithCancel(base)
		cancel()
		return c, cancel
	case "cancel-during":
		return context.WithCancel(base)
	case "deadline-past":
		return context.WithDeadline(base, time.Unix(1, 0))
	case "deadline-future":
		return context.WithDeadline(base, time.Date(2999, 1, 1, 0, 0, 0, 0, time.UTC))
	}
	return base, func() {}
}

// terminators: how the supplier says that it has nothing (more), or that it failed
var endKinds = []string{"exhausted", "exhausted-wrapped", "error", "exhausted-wrapped-twice", "exhausted-joined", "exhausted-is-method", "exhausted-unwrap-type", "error-same-text"}

func endOK(kind string) bool {
	for _, k := range endKinds {
		if k == kind {
			return true
		}
	}
	return false
}

// endExhausted: errors.Is(endError(kind), bt.ErrNoUTXO) - "the supplier reports exhaustion".
func endExhausted(kind string) bool { return strings.HasPrefix(kind, "exhausted") }

type walletEmpty struct{}

func (walletEmpty) Error() string        { return "wallet: nothing left to spend" }
func (walletEmpty) Is(target error) bool { return target == bt.ErrNoUTXO }

type walletErr struct {
	op  string
	err error
}

func (e *walletErr) Error() string { return "wallet: " + e.op + ": " + e.err.Error() }
func (e *walletErr) Unwrap() error { return e.err }

// sameText reads exactly like bt.ErrNoUTXO and is not it: a failure of the supplier.
type sameText struct{}

func (sameText) Error() string { return bt.ErrNoUTXO.Error() }
func (sameText) Unwrap() error { return errSupplier }

func endError(kind string) error {
	switch kind {
	case "exhausted":
		return bt.ErrNoUTXO
	case "exhausted-wrapped":
		return fmt.Errorf("wallet empty: %w", bt.ErrNoUTXO)
	case "exhausted-wrapped-twice":
		return fmt.Errorf("funding: %w", fmt.Errorf("wallet empty: %w", bt.ErrNoUTXO))
	case "exhausted-joined":
		return errors.Join(errors.New("closing the cursor: connection reset"), bt.ErrNoUTXO)
	case "exhausted-is-method":
		return walletEmpty{}
	case "exhausted-unwrap-type":
		return &walletErr{"next page", bt.ErrNoUTXO}
	case "error-same-text":
		return sameText{}
	}
	return fmt.Errorf("wallet backend: %w", errSupplier)
}

// resolveSame gives every UTXO marked Same the fields of the UTXO handed out just before it
// (it IS that object); a Same with nothing before it is an ordinary UTXO.
func resolveSame(batches [][]U) [][]U {
	any := false
	for _, b := range batches {
		for _, u := range b {
			any = any || u.Same
		}
	}
	if !any {
		return batches
	}
	out := make([][]U, len(batches))
	var prev *U
	for i, b := range batches {
		out[i] = append([]U{}, b...)
		for k := range out[i] {
			u := &out[i][k]
			if u.Same {
				if prev == nil {
					u.Same = false
				} else {
					*u = *prev
					u.Same = true
				}
			}
			prev = u
		}
	}
	return out
}

// expandBatches materialises RepBatch.
func expandBatches(batches [][]U, at, n int) [][]U {
	if n <= 0 || n > 5000 || at < 0 || at >= len(batches) {
		return resolveSame(batches)
	}
	out := make([][]U, 0, len(batches)+n)
	out = append(out, batches[:at+1]...)
	for j := 1; j <= n; j++ {
		b := make([]U, len(batches[at]))
		for k, u := range batches[at] {
			u.TxID = append(pbt.Hex{}, u.TxID...)
			if len(u.TxID) == 32 {
				u.TxID[0], u.TxID[1], u.TxID[2] = byte(j), byte(j>>8)^0x96, byte(k)
			}
			b[k] = u
		}
		out = append(out, b)
	}
	return resolveSame(append(out, batches[at+1:]...))
}

// Act is one callback action.
type Act struct {
	Kind string      `json:"kind,omitempty"` // "" | "query" | "quote" | "refused"
	R    *ref.C11Refused `json:"r,omitempty"` // refused: a call on the quote object that the library refuses (the rates stay what they are)
	Data bool        `json:"data,omitempty"` // quote: the data fee is replaced (else the standard fee)
	Unit ref.FeeUnit `json:"unit,omitempty"`
	Tag  int         `json:"tag,omitempty"` // quote: FeeType field of the registered fee object
	Via   string      `json:"via,omitempty"`   // quote: the exported way the quote object is changed (ref.FeeQuoteEdit.Via)
	Unit2 ref.FeeUnit `json:"unit2,omitempty"` // quote via unmarshal: new rate of the other type
}

func (a Act) edit() ref.FeeQuoteEdit {
	return ref.FeeQuoteEdit{Via: a.Via, Data: a.Data, Unit: a.Unit, Unit2: a.Unit2, Tag: a.Tag}
}

func actOK(a Act) bool {
	switch a.Kind {
	case "", "query":
		return true
	case "quote":
		return ref.FeeQuoteEditWideOK(a.edit())
	case "refused":
		return a.R != nil && ref.C11RefusedOK(*a.R)
	}
	return false
}

// errStopJudging ends a case (a history) without a verdict on what follows: the library accepted
// a call that is expected to be refused (what the quote holds from then on is not defined by "a
// refused update is not an update"), or Fund returned the error of its done context (accepted,
// see judgeFund; which supplier calls and callback actions took place is then its choice).
var errStopJudging = errors.New("harness: no verdict on the rest of the case")

// actModel applies action i of the case to the model of the quote.
func actModel(c Case, i int, q *ref.FeeQuote) {
	if i >= len(c.Acts) || c.Acts[i].Kind != "quote" {
		return
	}
	ref.FeeQuoteEditModel(q, c.Acts[i].edit())
}

// actLib performs action i of the case on the caller's objects.
func actLib(c Case, i int, q *ref.FeeQuote, tx *bt.Tx, lq *ref.FeeQuoteLib) error {
	if i >= len(c.Acts) {
		return nil
	}
	fq := lq.Q
	switch a := c.Acts[i]; a.Kind {
	case "query":
		_ = tx.Size()
		_ = tx.SizeWithTypes()
		_, _ = tx.EstimateSize()
		_, _ = tx.EstimateFeesPaid(fq)
		_, _ = tx.EstimateIsFeePaidEnough(fq)
		_ = tx.TotalInputSatoshis()
	case "quote":
		return lq.Apply(q, a.edit())
	case "refused": // a refused update is not an update: the model is not touched
		return ref.C11RefusedApply(lq, *a.R)
	}
	return nil
}

func expand(c Case) Case {
	c.Batches, c.RepBatch = expandBatches(c.Batches, c.RepAt, c.RepBatch), 0
	n := len(c.Tx.In)
	if c.RepPrior <= 0 || c.RepPrior > 1000 || n == 0 {
		return c
	}
	c.Tx.In = append([]ref.In{}, c.Tx.In...)
	for j := 0; j < c.RepPrior; j++ {
		in := c.Tx.In[n-1]
		in.TxID = append(pbt.Hex{}, in.TxID...)
		if len(in.TxID) == 32 {
			in.TxID[0], in.TxID[1] = byte(j), byte(j>>8)^0x5a
		}
		in.PrevSats = 0
		c.Tx.In = append(c.Tx.In, in)
	}
	c.RepPrior = 0
	return c
}

var errSupplier = errors.New("harness: supplier failure")

// amountsOutside reports why the amounts of a case (c.Tx = the transaction as it stands when Fund
// is called) are outside the domain. Satoshi amounts and the deficit handed to the supplier are
// uint64, so every amount is in the domain as long as (a) the input total cannot overflow
// wherever the loop stops (inputs plus every UTXO of the supplier history below 2^64) and (b)
// outputs plus the estimated fee - what the inputs have to cover, and the largest deficit there can
// be - stays below 2^64 at every stage (the fee is bounded from above by the fee of the starting
// estimate plus 160 standard bytes per UTXO of the history).
func amountsOutside(c Case) string {
	in := ref.FeeSumIn(c.Tx)
	n := 0
	for _, b := range append(append([][]U{}, c.Batches...), c.EndBatch) {
		for _, u := range b {
			in.Add(in, new(big.Int).SetUint64(u.Sats))
			n++
		}
	}
	if !in.IsUint64() {
		return "the input total could overflow uint64"
	}
	fin, _, err := ref.FeeEstimatedFinal(c.Tx)
	if err != nil {
		return "" // not estimable: decided elsewhere
	}
	sz := ref.FeeSizesOf(fin)
	sz.Std += uint64(160*n + 16)
	q := c.Quote
	for i := -1; i < len(c.Acts); i++ { // under every state the quote goes through
		if i >= 0 {
			actModel(c, i, &q)
		}
		if !ref.FeeFits(sz, q) {
			return "bytes x satoshis could overflow uint64"
		}
		fee, _, _ := ref.FeeCalc(sz, q)
		if !fee.Add(fee, ref.FeeSumOut(c.Tx)).IsUint64() {
			return "outputs plus fee could overflow uint64"
		}
	}
	return ""
}

const maxU64 = ^uint64(0)

// satAdd is a+b, saturating at 2^64-1.
func satAdd(a, b uint64) uint64 {
	if a > maxU64-b {
		return maxU64
	}
	return a + b
}

// genHugeAmount draws an amount in the upper part of the uint64 range: around 2^62, on both sides
// of 2^63 (where a signed 64-bit view changes sign) and near 2^64 (2^40 below it, which leaves
// room for any fee of the generated transactions).
func genHugeAmount(t *rapid.T, label string) (uint64, string) {
	k := rapid.Uint64Range(0, 1000000).Draw(t, label+"_k")
	switch rapid.IntRange(0, 5).Draw(t, label+"_class") {
	case 0:
		return 1<<62 + k, "2^62+k"
	case 1:
		return 1<<63 - 1 - k, "2^63-1-k"
	case 2:
		return 1<<63 - 1, "2^63-1"
	case 3:
		return 1 << 63, "2^63"
	case 4:
		return 1<<63 + 1 + k, "2^63+1+k"
	}
	return maxU64 - 1<<40 - k, "2^64-2^40-k"
}

// genHugeOutput gives one output an amount in the upper half of the uint64 range (the others
// stay small, or carry nothing when the amount is near 2^64: the output total cannot overflow).
func genHugeOutput(t *rapid.T, outs []ref.Out) {
	v, class := genHugeAmount(t, "huge_out_v")
	at := rapid.IntRange(0, len(outs)-1).Draw(t, "huge_out_at")
	if class == "2^64-2^40-k" {
		for i := range outs {
			outs[i].Sats = 0
		}
	}
	outs[at].Sats = v
}

// result classes of the model
const (
	resOK          = "ok"
	resExhausted   = "insufficient-funds"
	resSupplierErr = "supplier-error"
	resBadTxID     = "invalid-txid"
	resUnsupported = "unsupported-script"
	resMissing     = "missing-script"
)

// deficitOf is the reference deficit: max(0, out + fee(estimated final size) - in).
func deficitOf(m ref.Tx, q ref.FeeQuote) (d *big.Int, both bool, err error) {
	fin, both, err := ref.FeeEstimatedFinal(m)
	if err != nil {
		return nil, both, err
	}
	fee, _, _ := ref.FeeCalc(ref.FeeSizesOf(fin), q)
	need := new(big.Int).Add(ref.FeeSumOut(m), fee)
	need.Sub(need, ref.FeeSumIn(m))
	if need.Sign() < 0 {
		need.SetInt64(0)
	}
	return need, false, nil
}

func inputOf(u U) ref.In {
	return ref.In{TxID: u.TxID, Vout: u.Vout, Seq: 0xffffffff, UnlockNil: true, PrevSats: u.Sats, PrevScript: u.Script, PrevNil: u.ScriptNil}
}

type modelResult struct {
	deficits []*big.Int // argument of every supplier call, in order
	final    ref.Tx     // meaningful when class == resOK
	quote    ref.FeeQuote // the rates the quote object holds when Fund returns
	class    string
	alts     []string // other acceptable classes (error precedence is not part of the property)
	handed   int      // number of batches handed out
}

// runModel is the independent model of the loop.
func runModel(c Case) (modelResult, error) {
	cur := c.Tx
	cur.In = append([]ref.In{}, c.Tx.In...)
	var r modelResult
	r.quote = c.Quote
	d, _, err := deficitOf(cur, r.quote)
	if err != nil {
		return r, fmt.Errorf("starting transaction outside the domain: %v", err)
	}
	for d.Sign() != 0 {
		r.deficits = append(r.deficits, d)
		// the callback runs: whatever it does to the caller's quote counts from here on
		actModel(c, len(r.deficits)-1, &r.quote)
		if r.handed == len(c.Batches) {
			// whatever accompanies the terminator is not "a UTXO the supplier returned": the call failed
			if endExhausted(c.End) {
				r.class = resExhausted
			} else {
				r.class = resSupplierErr
			}
			r.final = cur
			return r, nil
		}
		b := c.Batches[r.handed]
		r.handed++
		badTxID := false
		for _, u := range b {
			if len(u.TxID) != 32 {
				badTxID = true
			}
		}
		if badTxID {
			// Inputs are built one by one and the txid is validated on the way, so the
			// invalid txid is what the library documents to report; an implementation
			// that inspects the spent scripts of the batch first is equally acceptable.
			r.class = resBadTxID
			for _, u := range b {
				switch {
				case u.ScriptNil:
					r.alts = append(r.alts, resMissing)
				case !ref.FeeIsP2PKH(u.Script):
					r.alts = append(r.alts, resUnsupported)
				}
			}
			return r, nil
		}
		for _, u := range b {
			cur.In = append(cur.In, inputOf(u))
		}
		var both bool
		d, both, err = deficitOf(cur, r.quote)
		if err != nil {
			if errors.Is(err, ref.ErrFeeMissingPrev) {
				r.class = resMissing
				if both {
					r.alts = append(r.alts, resUnsupported)
				}
			} else {
				r.class = resUnsupported
				if both {
					r.alts = append(r.alts, resMissing)
				}
			}
			return r, nil
		}
	}
	r.class = resOK
	r.final = cur
	return r, nil
}

// abbrev prints a list of deficits, shortened in the middle when it is long.
func abbrev[T any](l []T) string {
	if len(l) <= 12 {
		return fmt.Sprint(l)
	}
	return fmt.Sprintf("[%v %v %v %v ... (%d in all) ... %v %v %v]", l[0], l[1], l[2], l[3], len(l), l[len(l)-3], l[len(l)-2], l[len(l)-1])
}

func emptyBatchHanded(c Case, handed int) bool {
	for i := 0; i < handed && i < len(c.Batches); i++ {
		if len(c.Batches[i]) == 0 {
			return true
		}
	}
	return false
}

func classOf(err error) string {
	switch {
	case err == nil:
		return resOK
	case errors.Is(err, bt.ErrInsufficientFunds):
		return resExhausted
	case errors.Is(err, errSupplier):
		return resSupplierErr
	case errors.Is(err, bt.ErrInvalidTxID):
		return resBadTxID
	case errors.Is(err, bt.ErrUnsupportedScript):
		return resUnsupported
	case errors.Is(err, bt.ErrEmptyPreviousTxScript):
		return resMissing
	}
	return "other: " + err.Error()
}

func check(ctx *pbt.Ctx, c Case) error {
	c = expand(c)
	// ---- domain ------------------------------------------------------------------
	for _, u := range []ref.FeeUnit{c.Quote.Std, c.Quote.Data} {
		if !ref.FeeUnitWideOK(u) { // any positive byte denominator, any non-negative amount (judged where the products fit, see amountsOutside)
			ctx.Discard("quote outside domain")
			return nil
		}
	}
	for _, in := range c.Tx.In {
		if len(in.TxID) != 32 || in.PrevNil || !ref.FeeIsP2PKH(in.PrevScript) {
			ctx.Discard("prior input not P2PKH-funded")
			return nil
		}
	}
	if ref.Ambiguous(c.Tx) {
		ctx.Discard("ambiguous extended-marker shape")
		return nil
	}
	for _, a := range c.Acts {
		if !actOK(a) {
			ctx.Discard("callback action outside domain")
			return nil
		}
	}
	if why := amountsOutside(c); why != "" {
		ctx.Discard(why)
		return nil
	}
	if !endOK(c.End) {
		ctx.Discard("unknown terminator")
		return nil
	}
	if !ctxOK(c.Ctx) || len(c.EndBatch) > 8 {
		ctx.Discard("malformed context / terminator batch")
		return nil
	}
	want, err := runModel(c)
	if err != nil {
		ctx.Discard(err.Error())
		return nil
	}
	lq, err := ref.FeeQuoteBuild(c.Quote)
	if err != nil {
		return fmt.Errorf("building the quote object: %v", err)
	}
	ctx.After(lq.Unmodified)
	ctx.Labelf("quote-build=%d", c.Quote.Build)
	if err := judgeFund(ctx, c, want, ref.ToLib(c.Tx), lq); err != errStopJudging {
		return err
	}
	return nil
}

// judgeFund runs one Fund call on the library object tx with the quote object fq and the
// supplier history of c (batches, terminator) and compares it with want, the model's run from
// c.Tx - the independent model of the transaction as it stands when Fund is called - under
// the rates c.Quote.
func judgeFund(ctx *pbt.Ctx, c Case, want modelResult, tx *bt.Tx, lq *ref.FeeQuoteLib) error {
	fq := lq.Q
	var actErr error
	// ---- run the library with an instrumented supplier --------------------------------
	before := ref.FromLib(tx)
	var got []uint64
	handed := 0
	var handedOut []U
	afterEnd := 0
	libQ := c.Quote // the callback's own view of the quote it updates
	fctx, cancel := makeCtx(c.Ctx)
	defer cancel()
	var ctxErr error
	var lastObj *bt.UTXO
	var simpleUnlocker bt.Unlocker = &unlocker.Simple{}
	mkUTXO := func(u U) *bt.UTXO {
		if u.Same && lastObj != nil {
			return lastObj // the same object once more
		}
		x := &bt.UTXO{TxID: append([]byte{}, u.TxID...), Vout: u.Vout, Satoshis: u.Sats, SequenceNumber: u.Seq}
		if !u.ScriptNil {
			x.LockingScript = bscript.NewFromBytes(append([]byte{}, u.Script...))
		}
		if u.Unlocker {
			x.Unlocker = &simpleUnlocker
		}
		lastObj = x
		return x
	}
	next := func(sctx context.Context, deficit uint64) ([]*bt.UTXO, error) {
		// the context is the caller's: the supplier sees the caller's values and the caller's cancellation
		if ctxErr == nil {
			switch {
			case sctx == nil:
				ctxErr = fmt.Errorf("supplier call %d was handed a nil context", len(got))
			case c.Ctx.Values && sctx.Value(ctxKey{}) != ctxValue:
				ctxErr = fmt.Errorf("supplier call %d was handed a context that does not carry the value the caller put into the context given to Fund", len(got))
			case fctx.Err() != nil && sctx.Err() == nil:
				ctxErr = fmt.Errorf("supplier call %d was handed a live context although the context given to Fund is done (%v)", len(got), fctx.Err())
			}
		}
		if c.Ctx.Kind == "cancel-during" && len(got) == c.Ctx.At {
			cancel() // the caller gives up while the supplier is at work; the supplier still delivers
		}
		got = append(got, deficit)
		if handed >= len(c.Batches) {
			if handed > len(c.Batches) {
				// asked again after the terminator was reported: stop the loop for good
				afterEnd++
				return nil, bt.ErrNoUTXO
			}
			if err := actLib(c, len(got)-1, &libQ, tx, lq); err != nil && actErr == nil {
				actErr = err
			}
			handed++
			var with []*bt.UTXO // io.Reader style: the last (partial) page comes together with the terminator
			for _, u := range c.EndBatch {
				with = append(with, mkUTXO(u))
			}
			return with, endError(c.End)
		}
		if err := actLib(c, len(got)-1, &libQ, tx, lq); err != nil && actErr == nil {
			actErr = err
		}
		b := c.Batches[handed]
		handed++
		out := make([]*bt.UTXO, 0, len(b))
		if len(b) == 0 && c.NilEmpty {
			out = nil
		}
		for _, u := range b {
			out = append(out, mkUTXO(u))
			handedOut = append(handedOut, u)
		}
		return out, nil
	}
	ferr := tx.Fund(fctx, fq, next)
	if errors.Is(actErr, ref.C11ErrAccepted) {
		ctx.Label("refused-call-was-accepted")
		return errStopJudging
	}
	if actErr != nil {
		return fmt.Errorf("the supplier callback could not update the caller's quote object: %v", actErr)
	}
	// A done context is no exhaustion. What the statement fixes: the supplier is asked while a
	// deficit remains, and insufficient funds is reported only after the supplier reported
	// exhaustion. An implementation that stops asking once the context it was given is done and
	// returns THAT context's error has not claimed either; it is accepted (ctxAlt) as long as the
	// calls it did make are the model's first calls. (The library as it stands only hands the
	// context through.)
	ctxAlt := ferr != nil && fctx.Err() != nil && errors.Is(ferr, fctx.Err()) && !errors.Is(ferr, bt.ErrInsufficientFunds)
	after := ref.FromLib(tx)
	gotClass := classOf(ferr)

	// ---- labels --------------------------------------------------------------------
	ctx.Label("result=" + want.class)
	ctx.Label(feeTagLabel(c.Quote))
	wideLabel(ctx, want.quote)
	if sh := gen.C10OutpointShape(c.Tx.In); sh != "" {
		ctx.Label("start:" + sh)
	}
	if want.class == resOK {
		if sh := gen.C10OutpointShape(want.final.In); sh != "" {
			ctx.Label("funded:" + sh)
		}
	}
	ctx.Labelf("calls=%d", min(len(want.deficits), 6))
	switch n := len(want.deficits); {
	case n > 1000:
		ctx.Label("supplier-calls>1000")
	case n == 1000:
		ctx.Label("supplier-calls=1000")
	case n >= 250:
		ctx.Label("supplier-calls=250..999")
	}
	ctx.Labelf("prior-inputs=%d", min(len(c.Tx.In), 5))
	if c.Ctx.Kind != "" || c.Ctx.Values {
		k := c.Ctx.Kind
		if k == "" {
			k = "background"
		}
		if c.Ctx.Values {
			k += "+values"
		}
		ctx.Label("ctx=" + k)
		switch {
		case (c.Ctx.Kind == "cancelled" || c.Ctx.Kind == "deadline-past") && len(want.deficits) > 0:
			ctx.Label("ctx:supplier-needed-under-a-done-context")
		case c.Ctx.Kind == "cancel-during" && len(want.deficits) > c.Ctx.At+1:
			ctx.Label("ctx:supplier-needed-again-after-the-context-was-cancelled-during-a-call")
		}
	}
	if want.class == resExhausted || want.class == resSupplierErr { // the terminator was reached
		ctx.Label("end=" + c.End)
		if len(c.EndBatch) > 0 {
			ctx.Label("terminator-carries-utxos")
		}
	}
	if c.NilEmpty && emptyBatchHanded(c, want.handed) {
		ctx.Label("empty-batch-as-nil-slice")
	}
	for i := 0; i < want.handed; i++ {
		for _, u := range c.Batches[i] {
			if u.Same {
				ctx.Label("same-utxo-object-handed-out-twice")
			}
			if u.Unlocker {
				ctx.Label("utxo-carries-unlocker")
			}
		}
	}
	if len(c.Tx.In) < 253 && want.class == resOK && len(want.final.In) >= 253 {
		ctx.Label("input-count-crosses-253-while-funding")
	}
	emptyBatch := false
	for i := 0; i < want.handed; i++ {
		if len(c.Batches[i]) == 0 {
			emptyBatch = true
		}
	}
	if emptyBatch {
		ctx.Label("empty-batch-consumed")
	}
	if want.handed < len(c.Batches) {
		ctx.Label("supplier-not-drained")
	}
	hasData := false
	for _, o := range c.Tx.Out {
		if ref.FeeIsData(o.Script) {
			hasData = true
		}
	}
	if hasData {
		ctx.Label("data-outputs")
	}
	for i := 0; i < len(want.deficits) && i < len(c.Acts); i++ {
		switch c.Acts[i].Kind {
		case "quote":
			ctx.Label("callback-updates-quote")
			ctx.Label("callback-updates-quote:via=" + c.Acts[i].edit().Via)
			if i < want.handed {
				ctx.Label("callback-updates-quote-before-a-later-estimate")
			}
		case "query":
			ctx.Label("callback-queries-transaction")
		case "refused":
			ctx.Label("callback-makes-a-refused-call-on-the-quote")
			if i < want.handed {
				ctx.Label("callback-makes-a-refused-call-before-a-later-estimate")
			}
		}
	}
	two63 := new(big.Int).Lsh(big.NewInt(1), 63)
	if ref.FeeSumOut(c.Tx).Cmp(two63) >= 0 {
		ctx.Label("outputs>=2^63")
	}
	if len(want.deficits) > 0 && want.deficits[0].Cmp(two63) >= 0 {
		ctx.Label("first-deficit>=2^63")
	}
	if want.class == resOK && ref.FeeSumIn(want.final).Cmp(two63) >= 0 {
		ctx.Label("funded-inputs>=2^63")
		if new(big.Int).Sub(ref.FeeSumIn(want.final), ref.FeeSumOut(want.final)).Cmp(two63) >= 0 {
			ctx.Label("funded-surplus>=2^63")
		}
	}
	if len(want.deficits) >= 2 || emptyBatch || (want.class != resOK && want.handed > 0) {
		ctx.NonTrivial()
	}
	desc := func() string {
		return fmt.Sprintf("[model: class=%s deficits=%s batches handed=%d of %d; library: err=%v deficits=%s]", want.class, abbrev(want.deficits), want.handed, len(c.Batches), ferr, abbrev(got))
	}

	// ---- outputs untouched, in every case ----------------------------------------------
	if len(after.Out) != len(before.Out) {
		return fmt.Errorf("Fund changed the number of outputs %d -> %d %s", len(before.Out), len(after.Out), desc())
	}
	for i := range before.Out {
		if after.Out[i].Sats != before.Out[i].Sats || !bytes.Equal(after.Out[i].Script, before.Out[i].Script) {
			return fmt.Errorf("Fund modified output %d %s", i, desc())
		}
	}

	if ctxErr != nil {
		return fmt.Errorf("%v %s", ctxErr, desc())
	}

	// ---- the supplier is called only while a deficit remains, with the current deficit --
	if afterEnd > 0 {
		return fmt.Errorf("supplier called %d more time(s) after it had reported %q %s", afterEnd, c.End, desc())
	}
	for i := 0; i < len(got) || i < len(want.deficits); i++ {
		switch {
		case i >= len(want.deficits):
			return fmt.Errorf("supplier call %d (deficit %d) made although the model makes only %d call(s) %s", i, got[i], len(want.deficits), desc())
		case i >= len(got):
			if ctxAlt {
				ctx.Label("fund-returned-the-error-of-its-done-context")
				return errStopJudging // which callback actions ran is the library's choice from here on
			}
			if fctx.Err() != nil {
				return fmt.Errorf("supplier call %d (deficit %s) never made, and Fund returned %q although the supplier had not reported exhaustion: a done context (%v) is not an exhausted supplier %s", i, want.deficits[i], fmt.Sprint(ferr), fctx.Err(), desc())
			}
			return fmt.Errorf("supplier call %d (deficit %s) never made %s", i, want.deficits[i], desc())
		case new(big.Int).SetUint64(got[i]).Cmp(want.deficits[i]) != 0:
			return fmt.Errorf("supplier call %d was given deficit %d, current deficit is %s %s", i, got[i], want.deficits[i], desc())
		case got[i] == 0:
			return fmt.Errorf("supplier call %d made with deficit 0 %s", i, desc())
		}
	}

	// ---- result class -----------------------------------------------------------------------
	// the statement fixes two results: success, and an insufficient-funds error once the supplier has
	// reported exhaustion. Every other ending of the model (supplier error, a UTXO with a bad txid, an
	// unsupported or missing spent script) must fail - funding cannot have succeeded - but with WHICH
	// error is the library's choice (benign round 2: sentinels re-ordered, wrapped, renamed)
	failed := func(cl string) bool { return cl != resOK && cl != resExhausted }
	okClass := gotClass == want.class || (failed(want.class) && ferr != nil)
	for _, a := range want.alts {
		if gotClass == a || (failed(a) && ferr != nil) {
			okClass = true
		}
	}
	if !okClass && ctxAlt {
		ctx.Label("fund-returned-the-error-of-its-done-context")
		return errStopJudging
	}
	if !okClass {
		return fmt.Errorf("Fund returned %q (class %s), model says %s %s", fmt.Sprint(ferr), gotClass, want.class, desc())
	}

	// ---- success: inputs = prior inputs ++ every returned UTXO, in order; covered --------------
	if ferr == nil {
		wantIn := append([]ref.In{}, before.In...)
		for _, u := range handedOut {
			wantIn = append(wantIn, inputOf(u))
		}
		if len(after.In) != len(wantIn) {
			return fmt.Errorf("funded transaction has %d inputs, expected %d prior + %d supplied %s", len(after.In), len(before.In), len(handedOut), desc())
		}
		for i := range wantIn {
			a, w := after.In[i], wantIn[i]
			if !bytes.Equal(a.TxID, w.TxID) || a.Vout != w.Vout || a.PrevSats != w.PrevSats || !bytes.Equal(a.PrevScript, w.PrevScript) || a.PrevNil != w.PrevNil {
				return fmt.Errorf("input %d is %x:%d %d sat script %x, expected %x:%d %d sat script %x %s", i,
					[]byte(a.TxID), a.Vout, a.PrevSats, []byte(a.PrevScript), []byte(w.TxID), w.Vout, w.PrevSats, []byte(w.PrevScript), desc())
			}
			if i < len(before.In) {
				if a.Seq != w.Seq || !bytes.Equal(a.Unlock, w.Unlock) {
					return fmt.Errorf("prior input %d modified (sequence %#x -> %#x, unlocking script %x -> %x) %s", i, w.Seq, a.Seq, []byte(w.Unlock), []byte(a.Unlock), desc())
				}
			} else {
				if a.Seq != 0xffffffff {
					return fmt.Errorf("supplied input %d has sequence %#x, not final %s", i, a.Seq, desc())
				}
				if len(a.Unlock) != 0 {
					return fmt.Errorf("supplied input %d carries an unlocking script %x %s", i, []byte(a.Unlock), desc())
				}
			}
		}
		if after.Version != before.Version || after.LockTime != before.LockTime {
			return fmt.Errorf("Fund changed version/locktime %s", desc())
		}
		d, _, derr := deficitOf(after, want.quote) // at the rates the caller's quote holds now
		if derr != nil {
			return fmt.Errorf("funded transaction cannot be estimated: %v %s", derr, desc())
		}
		if d.Sign() != 0 {
			return fmt.Errorf("Fund succeeded but inputs %s do not cover outputs %s plus the estimated fee: %s short %s", ref.FeeSumIn(after), ref.FeeSumOut(after), d, desc())
		}
	}
	return nil
}

// ---------------------------------------------------------------------------
// generator

func genUnit(t *rapid.T, label string) ref.FeeUnit {
	switch rapid.IntRange(0, 9).Draw(t, label+"_k") {
	case 0:
		return ref.FeeUnit{Sat: 5, Bytes: 100}
	case 1:
		return rapid.SampledFrom([]ref.FeeUnit{{Sat: 1, Bytes: 1}, {Sat: 500, Bytes: 1000}, {Sat: 50, Bytes: 1}, {Sat: 5, Bytes: 1}, {Sat: 0, Bytes: 1}, {Sat: 5000, Bytes: 1}, {Sat: 1, Bytes: 1000}, {Sat: 3, Bytes: 2}}).Draw(t, label)
	}
	return ref.FeeUnit{Sat: rapid.IntRange(0, 5000).Draw(t, label+"_sat"), Bytes: rapid.IntRange(1, 1000).Draw(t, label+"_bytes")}
}

// genFeeTag draws what the informational FeeType field of a registered *bt.Fee carries: equal
// to the key it is registered under, empty, or the other fee type (a copied and edited object).
func genFeeTag(t *rapid.T, label string) int {
	return []int{ref.FeeTagKey, ref.FeeTagKey, ref.FeeTagEmpty, ref.FeeTagOther}[rapid.IntRange(0, 3).Draw(t, label)]
}

func feeTagLabel(q ref.FeeQuote) string {
	switch {
	case q.StdTag == ref.FeeTagOther || q.DataTag == ref.FeeTagOther:
		return "fee-type-field=other-type"
	case q.StdTag == ref.FeeTagEmpty || q.DataTag == ref.FeeTagEmpty:
		return "fee-type-field=empty"
	}
	return "fee-type-field=key"
}

// genQuoteVia draws the exported way a quote object in use is changed.
func genQuoteVia(t *rapid.T, label string) string {
	return rapid.SampledFrom([]string{"addquote", "addquote", "addquote", "unmarshal", "unmarshal", "shared", "fetched", "fetched-other-quote", "unmarshal-partial", "updateminerfees", "expiry"}).Draw(t, label)
}

// genQuoteBuild draws how the quote object is filled in the first place and adapts the model
// where the way implies it (one shared fee object: both types carry the same rates).
func genQuoteBuild(t *rapid.T, q *ref.FeeQuote) {
	q.Build = []int{ref.FeeBuildAddQuote, ref.FeeBuildAddQuote, ref.FeeBuildAddQuote, ref.FeeBuildShared, ref.FeeBuildFetched, ref.FeeBuildUnmarshal, ref.FeeBuildContainer, ref.FeeBuildUsedBefore}[rapid.IntRange(0, 7).Draw(t, "quote_build")]
	if q.Build == ref.FeeBuildShared {
		q.Data, q.DataRelay = q.Std, q.StdRelay
	}
}

// genQuoteWiden rewrites, in about one quote in eight, one or both mining rates with huge
// numbers (gen.C10UnitWide: ordinary rates scaled by 2^31..2^40 or 10^9, the 2^53 neighbourhood,
// 2^62, the largest int); two thirds of those quotes arrive through JSON.
func genQuoteWiden(t *rapid.T, q *ref.FeeQuote) {
	switch rapid.IntRange(0, 23).Draw(t, "wide") {
	case 7:
		q.Std = gen.C10UnitWide(t, "wstd")
	case 11:
		q.Data = gen.C10UnitWide(t, "wdata")
	case 13:
		q.Std, q.Data = gen.C10UnitWide(t, "wstd"), gen.C10UnitWide(t, "wdata")
	default:
		return
	}
	if rapid.IntRange(0, 2).Draw(t, "wide_json") != 0 {
		q.Build = []int{ref.FeeBuildUnmarshal, ref.FeeBuildUsedBefore}[rapid.IntRange(0, 1).Draw(t, "wide_build")]
	}
	if q.Build == ref.FeeBuildShared {
		q.Data, q.DataRelay = q.Std, q.StdRelay
	}
}

// genEditWiden does the same to a quote edit, in about one edit in eight.
func genEditWiden(t *rapid.T, unit, unit2 *ref.FeeUnit, via *string) {
	if rapid.IntRange(0, 7).Draw(t, "wide_edit") != 5 {
		return
	}
	*unit = gen.C10UnitWide(t, "wunit")
	if rapid.Bool().Draw(t, "wide2") {
		*unit2 = gen.C10UnitWide(t, "wunit2")
	}
	if rapid.IntRange(0, 2).Draw(t, "wide_json") != 0 {
		*via = "unmarshal"
	}
}

func wideLabel(ctx *pbt.Ctx, q ref.FeeQuote) {
	if !ref.FeeQuoteIsWide(q) {
		return
	}
	ctx.Label("fee-unit-numbers>10^6")
	for _, u := range []ref.FeeUnit{q.Std, q.Data} {
		if u.Sat >= 1<<32 {
			ctx.Label("fee-unit-satoshis>=2^32")
		}
		if u.Sat > 1<<53 || u.Bytes > 1<<53 {
			ctx.Label("fee-unit-numbers>2^53")
		}
	}
}

func genBadScript(t *rapid.T) pbt.Hex {
	switch rapid.IntRange(0, 3).Draw(t, "badscript_k") {
	case 0:
		return pbt.Hex{}
	case 1:
		return append(append([]byte{0xa9, 0x14}, gen.Bytes(t, 20, "sh")...), 0x87)
	case 2:
		s := ref.FeeP2PKH(gen.Bytes(t, 20, "h"))
		s[24] = 0xad
		return s
	}
	return append(append([]byte{33}, gen.Bytes(t, 33, "pk")...), 0xac)
}

func genCase(t *rapid.T) Case {
	var c Case
	c.Tx.Version = rapid.SampledFrom([]uint32{1, 2, 0xffffffff}).Draw(t, "version")
	c.Tx.LockTime = rapid.SampledFrom([]uint32{0, 1, 500000000, 0xffffffff}).Draw(t, "locktime")
	c.Quote = ref.FeeQuote{Std: genUnit(t, "std"), Data: genUnit(t, "data"), StdRelay: genUnit(t, "stdrelay"), DataRelay: genUnit(t, "datarelay"),
		StdTag: genFeeTag(t, "stdtag"), DataTag: genFeeTag(t, "datatag")}
	genQuoteBuild(t, &c.Quote)
	genQuoteWiden(t, &c.Quote)
	nout := []int{1, 2, 0, 3, 4, 5}[rapid.IntRange(0, 5).Draw(t, "nout")]
	for i := 0; i < nout; i++ {
		var o ref.Out
		switch rapid.IntRange(0, 5).Draw(t, "okind") {
		case 0, 1, 2:
			o.Script = ref.FeeP2PKH(gen.Bytes(t, 20, "ohash"))
		case 3:
			o.Script = append([]byte{0x6a}, gen.FillBytes(t, gen.EdgeLen(t, 1000, "dlen", 0, 1, 75, 76, 252, 253), "payload")...)
		case 4:
			o.Script = append([]byte{0x00, 0x6a}, gen.FillBytes(t, gen.EdgeLen(t, 1000, "dlen", 0, 1, 75, 76, 252, 253), "payload")...)
			if rapid.IntRange(0, 3).Draw(t, "template_payload") == 2 { // pushes that start with opcode-valued bytes
				o.Script = append([]byte{0x00, 0x6a}, gen.C10DataPayload(t, "tpl")...)
			}
		default:
			o.Script = gen.FillBytes(t, gen.EdgeLen(t, 100, "slen", 0, 1, 25), "oscript")
		}
		switch rapid.IntRange(0, 3).Draw(t, "vkind") {
		case 0:
			o.Sats = 0
		case 1:
			o.Sats = rapid.Uint64Range(1, 1000000000000).Draw(t, "osats")
		default:
			o.Sats = rapid.Uint64Range(0, 100000).Draw(t, "osats")
		}
		c.Tx.Out = append(c.Tx.Out, o)
	}
	if nout > 0 && rapid.IntRange(0, 19).Draw(t, "huge_out") == 13 {
		genHugeOutput(t, c.Tx.Out)
	}
	nprior := rapid.IntRange(0, 3).Draw(t, "nprior")
	for i := 0; i < nprior; i++ {
		in := ref.In{TxID: gen.Bytes(t, 32, "txid"), Vout: gen.U32(t, "vout"), Seq: 0xffffffff, PrevScript: ref.FeeP2PKH(gen.Bytes(t, 20, "pkh")), UnlockNil: true}
		if rapid.IntRange(0, 3).Draw(t, "seqk") == 3 {
			in.Seq = gen.U32(t, "seq")
		}
		if rapid.IntRange(0, 2).Draw(t, "signed") == 2 {
			in.UnlockNil = false
			in.Unlock = gen.FillBytes(t, rapid.IntRange(1, 120).Draw(t, "ulen"), "unlock")
		}
		c.Tx.In = append(c.Tx.In, in)
	}
	c.Tx.In = gen.C10SpecialOutpoints(t, c.Tx.In)
	nprior = len(c.Tx.In)
	if ref.Ambiguous(c.Tx) {
		c.Tx.LockTime = 0
	}
	rep := 0
	if nprior > 0 && rapid.IntRange(0, 19).Draw(t, "many_prior") == 0 {
		rep = rapid.IntRange(246, 253).Draw(t, "prior_total") - nprior
	}
	c.RepPrior = rep
	stored := c.Tx.In
	c = expand(c) // the aims below are computed for the transaction as it will be
	// value of the prior inputs relative to what is needed right now
	if nprior > 0 {
		d0, _, _ := deficitOf(c.Tx, c.Quote) // all prior inputs worth 0
		need := d0.Uint64()
		var total uint64
		switch rapid.IntRange(0, 5).Draw(t, "priorfund") {
		case 0, 1:
			total = 0
		case 2:
			total = need / 2
		case 3:
			if need > 0 {
				total = need - 1
			}
		case 4:
			total = need
		default:
			total = satAdd(need, rapid.Uint64Range(1, 1000000).Draw(t, "surplus"))
			if rapid.IntRange(0, 9).Draw(t, "huge_surplus") == 7 { // prior inputs worth far more than needed
				v, _ := genHugeAmount(t, "huge_surplus_v")
				total = satAdd(need, v)
			}
		}
		rem := total
		for i := range c.Tx.In {
			if i == nprior-1 {
				c.Tx.In[i].PrevSats = rem
				break
			}
			p := rapid.Uint64Range(0, rem).Draw(t, "part")
			c.Tx.In[i].PrevSats = p
			rem -= p
		}
	}

	var room uint64
	c.Batches, c.Acts, room = genBatches(t, c.Tx, c.Quote)
	c.End, c.EndBatch, c.Ctx, c.NilEmpty = genFundArgs(t, c.Tx, len(c.Batches), room)
	for i := range stored { // keep the short form; values were assigned on the expanded copy
		stored[i].PrevSats = c.Tx.In[i].PrevSats
	}
	c.Tx.In, c.RepPrior = stored, rep
	// very many supplier calls (the statement puts no bound on their number), stored as a count
	switch k := rapid.IntRange(0, 11999).Draw(t, "long_run"); {
	case (k == 3003 || k == 7001 || k == 9009) && rep == 0: // a run of empty batches somewhere in the history
		longRunEmpty(&c, rapid.IntRange(0, len(c.Batches)).Draw(t, "long_at"), rapid.SampledFrom(longRunCounts).Draw(t, "long_n"))
	case k == 5003 && rep == 0 && rapid.IntRange(0, 3).Draw(t, "long_small") == 2: // a run of small UTXOs every one of which is needed (costly: rare)
		longRunSmall(&c, rapid.SampledFrom(longRunCounts[:4]).Draw(t, "long_n"), gen.Bytes(t, 32, "long_txid"), gen.Bytes(t, 20, "long_pkh"))
	}
	return c
}

var longRunCounts = []int{250, 999, 1000, 1001, 1500, 3000}

// longRunEmpty inserts, before batch number at, a run of n supplier calls answered with an
// empty batch (the deficit stays what it is, the loop has to go on asking).
func longRunEmpty(c *Case, at, n int) {
	b := append([][]U{}, c.Batches[:at]...)
	b = append(b, []U{})
	c.Batches = append(b, c.Batches[at:]...)
	c.RepAt, c.RepBatch = at, n-1
}

// longRunSmall replaces the supplier history by n+1 calls each answered with one small UTXO
// that is worth 10 satoshis more than the fee its own input adds at most - every one of them is
// needed, none covers - followed by one covering UTXO. An output worth more than the whole run
// is added so that the deficit lasts.
func longRunSmall(c *Case, n int, txid, pkh []byte) {
	perInput := uint64(160*c.Quote.Std.Sat/c.Quote.Std.Bytes) + 1
	small := perInput + 10
	c.Tx.Out = append(c.Tx.Out, ref.Out{Sats: uint64(n+2) * small, Script: ref.FeeP2PKH(pkh)})
	u := U{TxID: append(pbt.Hex{}, txid...), Vout: 1, Sats: small, Script: ref.FeeP2PKH(pkh), Seq: 0xffffffff}
	last := u
	last.TxID = append(pbt.Hex{}, txid...)
	last.TxID[31] ^= 0xff
	last.Sats = 1 << 50
	for _, o := range c.Tx.Out {
		last.Sats += o.Sats % (1 << 50)
	}
	c.Batches, c.Acts = [][]U{{u}, {last}}, nil
	c.RepAt, c.RepBatch = 0, n
}

// enumLongRuns is the fixed set of fundings with 250 .. 3001 supplier calls.
func enumLongRuns(yield func(Case)) {
	h := func(b byte, n int) []byte { return bytes.Repeat([]byte{b}, n) }
	for qi, std := range []ref.FeeUnit{{Sat: 1, Bytes: 1}, {Sat: 5, Bytes: 100}} {
		base := Case{Tx: ref.Tx{Version: 1, Out: []ref.Out{{Sats: 1000, Script: ref.FeeP2PKH(h(0x33, 20))}}},
			Quote: ref.FeeQuote{Std: std, Data: ref.FeeUnit{Sat: 1, Bytes: 2}, StdRelay: ref.FeeUnit{Sat: 1, Bytes: 1}, DataRelay: ref.FeeUnit{Sat: 1, Bytes: 1}}}
		cover := U{TxID: h(0x44, 32), Vout: 2, Sats: 1 << 40, Script: ref.FeeP2PKH(h(0x55, 20)), Seq: 0xffffffff}
		for ni, n := range longRunCounts {
			c := base
			c.Tx.Out = append([]ref.Out{}, base.Tx.Out...)
			c.End = []string{"exhausted", "error", "exhausted-wrapped"}[(ni+qi)%3]
			c.Batches = [][]U{{cover}}
			if (ni+qi)%2 == 1 {
				c.Batches = nil // the run ends in the supplier's terminator instead of a covering batch
			}
			longRunEmpty(&c, 0, n)
			yield(c)
			if n <= 1001 {
				c := base
				c.Tx.Out = append([]ref.Out{}, base.Tx.Out...)
				c.End = "exhausted"
				longRunSmall(&c, n, h(byte(0x60+ni), 32), h(0x66, 20))
				yield(c)
			}
		}
	}
}

// genBatches draws a supplier history for a transaction that stands as start: values are
// aimed at the model's running deficit.
func genBatches(t *rapid.T, start ref.Tx, q ref.FeeQuote) (batches [][]U, acts []Act, room uint64) {
	// what the callback does during a supplier call, as the caller's own code: mostly nothing;
	// the running quote q follows, so that later values are aimed at the rates then in force
	genAct := func() {
		var a Act
		switch rapid.IntRange(0, 10).Draw(t, "act") {
		case 10:
			r := gen.C11Refused(t, "act_refused")
			a = Act{Kind: "refused", R: &r}
		case 8:
			a.Kind = "query"
		case 9:
			a = Act{Kind: "quote", Data: rapid.Bool().Draw(t, "act_data"), Unit: genUnit(t, "act_unit"), Tag: genFeeTag(t, "act_tag"),
				Via: genQuoteVia(t, "act_via"), Unit2: genUnit(t, "act_unit2")}
			genEditWiden(t, &a.Unit, &a.Unit2, &a.Via)
			ref.FeeQuoteEditModel(&q, a.edit())
		}
		acts = append(acts, a)
	}
	cur := start
	cur.In = append([]ref.In{}, start.In...)
	// what the supplier may still hand out before the input total would overflow uint64
	room = 0
	if s := ref.FeeSumIn(start); s.IsUint64() {
		room = maxU64 - s.Uint64()
	}
	nb := rapid.IntRange(0, 6).Draw(t, "nbatches")
	var prevU *U
	for b := 0; b < nb; b++ {
		genAct()
		n := []int{1, 2, 0, 3, 4}[rapid.IntRange(0, 4).Draw(t, "batchlen")]
		batch := []U{}
		for i := 0; i < n; i++ {
			if prevU != nil && len(prevU.TxID) == 32 && prevU.Sats <= room && rapid.IntRange(0, 29).Draw(t, "usame") == 17 {
				u := *prevU // the object handed out just before, once more
				u.Same = true
				room -= u.Sats
				batch = append(batch, u)
				cur.In = append(cur.In, inputOf(u))
				continue
			}
			u := U{TxID: gen.Bytes(t, 32, "utxid"), Vout: gen.U32(t, "uvout"), Script: ref.FeeP2PKH(gen.Bytes(t, 20, "upkh")), Seq: 0xffffffff}
			u.Unlocker = rapid.IntRange(0, 9).Draw(t, "uunlocker") == 3
			if rapid.Bool().Draw(t, "useq") {
				u.Seq = gen.U32(t, "useqv")
			}
			// deficit that would remain if this UTXO were worth nothing
			probe := cur
			probe.In = append(append([]ref.In{}, cur.In...), inputOf(u))
			var need uint64
			if d, _, err := deficitOf(probe, q); err == nil {
				need = d.Uint64()
			}
			switch rapid.IntRange(0, 9).Draw(t, "uval") {
			case 0:
				u.Sats = 0
			case 1:
				u.Sats = rapid.Uint64Range(1, 100).Draw(t, "tiny")
			case 2, 3:
				u.Sats = need / uint64(rapid.IntRange(2, 5).Draw(t, "frac"))
			case 4:
				if need > 0 {
					u.Sats = need - 1
				}
			case 5:
				u.Sats = need
			case 6:
				u.Sats = satAdd(need, 1)
			case 7:
				u.Sats = satAdd(need, rapid.Uint64Range(2, 1000000000).Draw(t, "ample"))
			default:
				u.Sats = rapid.Uint64Range(0, satAdd(satAdd(need, need), 1000)).Draw(t, "any")
			}
			u.Sats = min(u.Sats, room)
			room -= u.Sats
			// rare invalid entries sit at the top of the range (rapid favours small values)
			switch k := rapid.IntRange(0, 63).Draw(t, "ubad"); {
			case k == 63:
				u.TxID = gen.Bytes(t, rapid.SampledFrom([]int{31, 33, 0, 64}).Draw(t, "badlen"), "badtxid")
			case k == 62:
				u.Script = genBadScript(t)
			case k == 61:
				u.Script, u.ScriptNil = nil, true
			case k == 37 || k == 41: // the null outpoint as a funding source (inputs get the final sequence)
				u.TxID = make(pbt.Hex, 32)
				u.Vout = rapid.SampledFrom([]uint32{0xffffffff, 0, 1}).Draw(t, "null_vout")
			}
			batch = append(batch, u)
			pu := u
			prevU = &pu
			if len(u.TxID) == 32 {
				cur.In = append(cur.In, inputOf(u))
			}
		}
		batches = append(batches, batch)
	}
	genAct() // during the call that reports the end
	for len(acts) > 0 && acts[len(acts)-1].Kind == "" {
		acts = acts[:len(acts)-1]
	}
	return batches, acts, room
}

// genFundArgs draws what the earlier rounds held constant: the form of the terminator, UTXOs
// that come together with it, the context, the form of an empty batch.
func genFundArgs(t *rapid.T, start ref.Tx, ncalls int, room uint64) (end string, endBatch []U, cs CtxSpec, nilEmpty bool) {
	end = rapid.SampledFrom(append([]string{"exhausted", "exhausted", "error", "error", "exhausted-wrapped"}, endKinds...)).Draw(t, "end")
	if rapid.IntRange(0, 4).Draw(t, "end_batch") == 2 {
		for i, n := 0, rapid.IntRange(1, 2).Draw(t, "end_batch_n"); i < n; i++ {
			u := U{TxID: gen.Bytes(t, 32, "etxid"), Vout: gen.U32(t, "evout"), Script: ref.FeeP2PKH(gen.Bytes(t, 20, "epkh")), Seq: 0xffffffff}
			switch rapid.IntRange(0, 3).Draw(t, "eval") {
			case 0:
				u.Sats = rapid.Uint64Range(0, 1000).Draw(t, "esmall")
			default: // would cover whatever is missing
				out := ref.FeeSumOut(start)
				v := uint64(1 << 40)
				if out.IsUint64() {
					v = satAdd(out.Uint64(), 1<<40)
				}
				u.Sats = v
			}
			u.Sats = min(u.Sats, room)
			room -= u.Sats
			endBatch = append(endBatch, u)
		}
	}
	switch rapid.IntRange(0, 11).Draw(t, "ctx") {
	case 0, 1:
		cs.Kind = "cancelled"
	case 2:
		cs.Kind = "deadline-past"
	case 3, 4:
		cs.Kind = "cancel-during"
		cs.At = rapid.IntRange(0, max(ncalls, 1)).Draw(t, "ctx_at")
	case 5:
		cs.Kind = "todo"
	case 6:
		cs.Kind = "deadline-future"
	case 7:
		cs.Values = true
	}
	if cs.Kind != "" && cs.Kind != "todo" {
		cs.Values = rapid.Bool().Draw(t, "ctx_values")
	}
	nilEmpty = rapid.Bool().Draw(t, "nil_empty")
	return
}

func TestFund(t *testing.T) {
	pbt.Run(t, pbt.Sub[Case]{
		Name: "fund", Quick: 200000, Thorough: 6000000,
		Gen:   genCase,
		Check: check,
		EnumDesc: "fundings with very many supplier calls: a run of 250 / 999 / 1000 / 1001 / 1500 / 3000 calls answered with an empty batch, followed by a covering batch or by the supplier's terminator, and a run of 251 / 1000 / 1001 / 1002 calls each answered with one small UTXO all of which are needed, followed by a covering UTXO; at 1 sat/byte and at 5 sat/100 bytes (20 cases)",
		Enum:     func(_ string, yield func(Case)) { enumLongRuns(yield) },
	})
}
