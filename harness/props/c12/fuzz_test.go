package c12

import (
	"testing"

	"verif/harness/pbt"
)

// FuzzFund (thorough tier): Go's native coverage-guided fuzzer drives the `fund` generator
// (rapid.MakeFuzz: supplier histories); same model-based oracle.
func FuzzFund(f *testing.F) {
	pbt.FuzzSub(f, "C12", pbt.Sub[Case]{Name: "fund", Gen: genCase, Check: check})
}
