package c17

// Round 7: EncodeBIP276 / DecodeBIP276 / ValidateAddress are pure functions of their arguments,
// so several goroutines may use them at the same time. 2..8 goroutines released together
// (harness/conc) encode DIFFERENT values (prefix script / template / custom, version and network
// 1..255, payloads of 0..4200 bytes incl. >= 1024; one case in twenty holds a 65535 / 65536-byte
// payload and then runs few rounds), encode-and-decode them, and decode / validate DIFFERENT
// texts: the BIP layout of each value (reference encoder), the layout the library writes, and
// damaged forms (one hex digit replaced, last character dropped, the checksum of another value,
// a character inserted) plus the corrupted texts of the `corruption` generator. Mode "shared":
// all goroutines are handed the same value (same Data slice, which must come out unchanged);
// mode "own": private copies per call. Every answer must be the reference answer for its own
// argument; every call is made alone first (a sequential defect is not reported as a
// concurrency one) and that is also where the UNCHANGED L25b matcher is applied: a text / a
// decoded value that differs from the reference exactly by version and network being exchanged
// (version != network) is the recorded finding when L25b is listed - the concurrent answers must
// then equal that same answer. Schedule dependent: listed in FLAKY_SUBS.txt.

import (
	"bytes"
	"encoding/hex"
	"fmt"
	"strings"
	"testing"

	"github.com/libsv/go-bt/v2/bscript"
	"pgregory.net/rapid"

	"verif/harness/conc"
	"verif/harness/gen"
	"verif/harness/pbt"
	"verif/harness/ref"
)

// CVal is a value to encode; the payload is Pat repeated (with a per-repeat increment) to Len bytes.
type CVal struct {
	Prefix  string  `json:"prefix"`
	Version int     `json:"version"`
	Network int     `json:"network"`
	Len     int     `json:"len"`
	Pat     pbt.Hex `json:"pat"`
}

func (v CVal) data() []byte {
	out := make([]byte, v.Len)
	for i := range out {
		if len(v.Pat) > 0 {
			out[i] = v.Pat[i%len(v.Pat)] + byte(i/len(v.Pat))
		}
	}
	return out
}

// CDmg is a text derived from value Val: Op = ref (BIP layout), lib (version and network
// exchanged, the layout the library writes), digit (hex digit at Pos from the end replaced by Ch),
// drop (last character dropped), sum (checksum of value Other), insert (Ch inserted at Pos from the end).
type CDmg struct {
	Val   int    `json:"val"`
	Op    string `json:"op"`
	Pos   int    `json:"pos"`
	Ch    byte   `json:"ch"`
	Other int    `json:"other"`
}

// ConcCase is one concurrent session.
type ConcCase struct {
	Vals       []CVal `json:"vals"`
	Derived    []CDmg `json:"derived"`
	Texts      []Text `json:"texts"`
	Shared     bool   `json:"shared"`
	Goroutines int    `json:"goroutines"`
	Rounds     int    `json:"rounds"`
}

func digest(s string) string {
	if len(s) <= 120 {
		return s
	}
	return fmt.Sprintf("%s… %d characters sha256d %x", s[:60], len(s), ref.Sha256d([]byte(s)))
}

func decAnswer(v *bscript.BIP276, err error) string {
	if err != nil || v == nil {
		return "refused"
	}
	return fmt.Sprintf("ok %q v=%d n=%d %s", v.Prefix, v.Version, v.Network, digest(hex.EncodeToString(v.Data)))
}

func checkConcurrent(ctx *pbt.Ctx, c ConcCase) error {
	if c.Goroutines < 2 || c.Goroutines > 16 || c.Rounds < 1 || c.Rounds > 200 || len(c.Vals) < 2 {
		ctx.Discard("malformed case")
		return nil
	}
	type cand struct {
		name      string
		f         func() string
		want, alt string // alt = the answer with version and network exchanged ("" if there is none)
	}
	var cands []cand
	datas := make([][]byte, len(c.Vals))
	shared := make([]bscript.BIP276, len(c.Vals))
	refText := make([]string, len(c.Vals))
	libText := make([]string, len(c.Vals))
	for i, v := range c.Vals {
		if v.Version < 1 || v.Version > 255 || v.Network < 1 || v.Network > 255 || v.Len < 0 || v.Len > 70000 {
			return fmt.Errorf("harness: value outside the domain")
		}
		i, v := i, v
		datas[i] = v.data()
		shared[i] = bscript.BIP276{Prefix: v.Prefix, Version: v.Version, Network: v.Network, Data: append([]byte(nil), datas[i]...)}
		refText[i] = ref.EncodeBIP276(ref.BIP276{Prefix: v.Prefix, Version: v.Version, Network: v.Network, Data: datas[i]})
		libText[i] = ref.EncodeBIP276(ref.BIP276{Prefix: v.Prefix, Version: v.Network, Network: v.Version, Data: datas[i]})
		arg := func() bscript.BIP276 {
			if c.Shared {
				return shared[i]
			}
			return bscript.BIP276{Prefix: v.Prefix, Version: v.Version, Network: v.Network, Data: append([]byte(nil), datas[i]...)}
		}
		alt := ""
		if v.Version != v.Network {
			alt = digest(libText[i])
		}
		switch {
		case v.Len >= 60000:
			ctx.Label("payload >= 64 KiB")
		case v.Len >= 1024:
			ctx.Label("payload 1024..4200")
		default:
			ctx.Label("payload < 1024")
		}
		tag := fmt.Sprintf("[value %d: %s v=%d n=%d %d bytes]", i, v.Prefix, v.Version, v.Network, v.Len)
		cands = append(cands, cand{name: "EncodeBIP276" + tag, want: digest(refText[i]), alt: alt, f: func() string { return digest(bscript.EncodeBIP276(arg())) }})
		cands = append(cands, cand{name: "DecodeBIP276(EncodeBIP276)" + tag,
			want: fmt.Sprintf("ok %q v=%d n=%d %s", v.Prefix, v.Version, v.Network, digest(hex.EncodeToString(datas[i]))),
			f:    func() string { return decAnswer(bscript.DecodeBIP276(bscript.EncodeBIP276(arg()))) }})
	}
	var texts []string
	for _, d := range c.Derived {
		if d.Val < 0 || d.Val >= len(c.Vals) || d.Other < 0 || d.Other >= len(c.Vals) {
			return fmt.Errorf("harness: derived text refers to value %d / %d", d.Val, d.Other)
		}
		s := refText[d.Val]
		at := func() int { return len(s) - 1 - d.Pos%len(s) }
		switch d.Op {
		case "ref":
		case "lib":
			s = libText[d.Val]
		case "digit":
			b := []byte(s)
			b[at()] = d.Ch
			s = string(b)
		case "drop":
			s = s[:len(s)-1]
		case "sum":
			o := refText[d.Other]
			s = s[:len(s)-8] + o[len(o)-8:]
		case "insert":
			i := at()
			s = s[:i] + string(d.Ch) + s[i:]
		default:
			return fmt.Errorf("harness: unknown derivation %q", d.Op)
		}
		ctx.Label("derived text: " + d.Op)
		texts = append(texts, s)
	}
	for _, t := range c.Texts {
		ctx.Label("corruption text: " + t.Op)
		texts = append(texts, t.Text)
	}
	for i, s := range texts {
		s := s
		want, rerr := ref.DecodeBIP276(s)
		w, alt := "refused", ""
		if rerr == nil {
			w = fmt.Sprintf("ok %q v=%d n=%d %s", want.Prefix, want.Version, want.Network, digest(hex.EncodeToString(want.Data)))
			if want.Version != want.Network {
				alt = fmt.Sprintf("ok %q v=%d n=%d %s", want.Prefix, want.Network, want.Version, digest(hex.EncodeToString(want.Data)))
			}
		}
		tag := fmt.Sprintf("[text %d %s]", i, digest(s))
		cands = append(cands, cand{name: "DecodeBIP276" + tag, want: w, alt: alt, f: func() string { return decAnswer(bscript.DecodeBIP276(s)) }})
		if strings.HasPrefix(s, "bitcoin-script:") {
			cands = append(cands, cand{name: "ValidateAddress" + tag, want: fmt.Sprint(rerr == nil), f: func() string {
				ok, err := bscript.ValidateAddress(s)
				return fmt.Sprint(ok && err == nil)
			}})
		}
	}
	// each call alone first; the L25b matcher decides which of the two answers stands
	var calls []conc.Call
	for _, cd := range cands {
		cd := cd
		got := cd.f()
		want := cd.want
		if got != want {
			if cd.alt != "" && got == cd.alt && ctx.Known("L25b") {
				want = cd.alt
				ctx.Label("L25b: version and network exchanged")
			} else {
				return fmt.Errorf("%s called alone gives %q, the reference answer is %q", cd.name, got, cd.want)
			}
		}
		calls = append(calls, conc.Call{Name: cd.name, Want: []byte(want), F: func() ([]byte, error) { return []byte(cd.f()), nil }})
	}
	if err := conc.Readers(calls, c.Goroutines, c.Rounds); err != nil {
		return fmt.Errorf("%v\n(answers are text, shown as hex; %d calls on %d values and %d texts, shared=%v)", err, len(calls), len(c.Vals), len(texts), c.Shared)
	}
	for i := range shared {
		if !bytes.Equal(shared[i].Data, datas[i]) {
			return fmt.Errorf("the payload of value %d changed while %d goroutines encoded it", i, c.Goroutines)
		}
	}
	if c.Shared {
		ctx.Label("mode: shared values")
	} else {
		ctx.Label("mode: own values")
	}
	ctx.Labelf("goroutines=%d", c.Goroutines)
	ctx.NonTrivial()
	return nil
}

func genConcurrent(t *rapid.T) ConcCase {
	c := ConcCase{Shared: rapid.Bool().Draw(t, "shared"), Goroutines: rapid.SampledFrom([]int{2, 3, 4, 8}).Draw(t, "goroutines"), Rounds: rapid.SampledFrom([]int{2, 4, 10}).Draw(t, "rounds")}
	n := rapid.IntRange(2, 6).Draw(t, "nvals")
	huge := rapid.IntRange(0, 19).Draw(t, "huge") == 7
	for i := 0; i < n; i++ {
		v := CVal{Prefix: rapid.SampledFrom([]string{bscript.PrefixScript, bscript.PrefixScript, bscript.PrefixTemplate, "x-custom"}).Draw(t, "prefix"),
			Version: rapid.IntRange(1, 255).Draw(t, "v"), Pat: gen.Bytes(t, rapid.IntRange(1, 6).Draw(t, "patlen"), "pat")}
		v.Network = v.Version
		if rapid.IntRange(0, 2).Draw(t, "other_n") == 0 {
			v.Network = rapid.IntRange(1, 255).Draw(t, "n")
		}
		v.Len = gen.EdgeLen(t, 300, "len", 0, 1, 2, 20, 75, 76, 255, 256)
		if i == 1 && rapid.IntRange(0, 1).Draw(t, "kb") == 0 {
			// one payload of a kilobyte or more per second session (decoding costs ~0.1 ms per KiB)
			v.Len = rapid.SampledFrom([]int{1000, 1023, 1024, 1025, 2048, 4096, 4200, 0}).Draw(t, "len")
			if v.Len == 0 {
				v.Len = rapid.IntRange(1024, 4200).Draw(t, "len")
			}
		}
		c.Vals = append(c.Vals, v)
		for _, op := range []string{"ref", rapid.SampledFrom([]string{"lib", "digit", "digit", "drop", "sum", "insert"}).Draw(t, "op")} {
			c.Derived = append(c.Derived, CDmg{Val: i, Op: op, Pos: rapid.IntRange(0, 40).Draw(t, "pos"), Ch: "0123456789abcdefg:"[rapid.IntRange(0, 17).Draw(t, "ch")], Other: rapid.IntRange(0, i).Draw(t, "other")})
		}
		if rapid.IntRange(0, 2).Draw(t, "corruption") == 0 {
			c.Texts = append(c.Texts, genText(t))
		}
	}
	if huge {
		// decoding a 128 k-character text takes ~25 ms (the pattern matcher leaves its fast path): two goroutines, one round, one derived text
		c.Rounds, c.Goroutines = 1, 2
		var d []CDmg
		for _, x := range c.Derived {
			if x.Val != 0 || x.Op != "ref" {
				d = append(d, x)
			}
		}
		c.Derived = d
		c.Vals[0].Len = rapid.SampledFrom([]int{65535, 65536}).Draw(t, "huge_len")
	}
	return c
}

func TestConcurrent(t *testing.T) {
	pbt.Run(t, pbt.Sub[ConcCase]{
		Name: "concurrent", Quick: 1200, Thorough: 24000,
		Gen: genConcurrent, Check: checkConcurrent,
	})
}
