package c17

import (
	"bytes"
	"fmt"
	"strings"
	"testing"

	"github.com/libsv/go-bt/v2/bscript"
	"pgregory.net/rapid"

	"verif/harness/gen"
	"verif/harness/pbt"
	"verif/harness/ref"
)

// ---------------------------------------------------------------------------
// sub-check 3: sequences with retained results.
//
// 2..8 calls of EncodeBIP276 / DecodeBIP276 / ValidateAddress are made one
// after the other with *different but related* inputs (same header and payload
// length but other payload bytes, version and network exchanged, payload one
// byte longer, other prefix, a corrupted copy of an earlier text ...). Every
// string, every *BIP276 (fields and Data slice), every verdict is kept and is
// compared with the reference only after the last call. Then each decoded
// value is overwritten by the caller, one at a time: no other retained result
// and no later call may be affected.
// ---------------------------------------------------------------------------

// SeqOp is one call.
//
//	enc: EncodeBIP276{Prefix, Version, Network, Data}
//	rt : the same, and the string it returned is handed to DecodeBIP276 at once
//	dec: DecodeBIP276(Text)
//	val: ValidateAddress(Text)   (Text always starts with "bitcoin-script:")
type SeqOp struct {
	Kind    string  `json:"kind"`
	Prefix  string  `json:"prefix,omitempty"`
	Version int     `json:"version,omitempty"`
	Network int     `json:"network,omitempty"`
	Data    pbt.Hex `json:"data,omitempty"`
	Text    string  `json:"text,omitempty"`
}

// Seq is a sequence of calls.
type Seq struct {
	Ops      []SeqOp `json:"ops"`
	Scribble bool    `json:"scribble"`
}

type seqHeld struct {
	// what was handed in
	dataIn []byte // the slice handed to EncodeBIP276 (must be unchanged afterwards)
	// what came back
	enc  string
	dec  *bscript.BIP276
	derr error
	ok   bool
	verr error
}

// seqAt renders "when: call i (kind)" only when a message is needed.
type seqAt struct {
	when string
	i    int
	kind string
}

func (a seqAt) String() string { return fmt.Sprintf("%s: call %d (%s)", a.when, a.i, a.kind) }

func seqCall(op SeqOp) seqHeld {
	var h seqHeld
	switch op.Kind {
	case "enc", "rt":
		h.dataIn = ref.Canary(op.Data)
		h.enc = bscript.EncodeBIP276(bscript.BIP276{Prefix: op.Prefix, Version: op.Version, Network: op.Network, Data: h.dataIn})
		if op.Kind == "rt" {
			h.dec, h.derr = bscript.DecodeBIP276(h.enc)
		}
	case "dec":
		h.dec, h.derr = bscript.DecodeBIP276(op.Text)
	case "val":
		h.ok, h.verr = bscript.ValidateAddress(op.Text)
	}
	return h
}

// seqVerify compares what call i handed out with the reference for call i's own input.
func seqVerify(ctx *pbt.Ctx, when string, i int, op SeqOp, h seqHeld) error {
	at := seqAt{when, i, op.Kind}
	switch op.Kind {
	case "enc", "rt":
		if !bytes.Equal(h.dataIn, op.Data) {
			return fmt.Errorf("%s: EncodeBIP276 changed the payload slice it was given: %x became %x", at, []byte(op.Data), h.dataIn)
		}
		if ref.CanaryDamaged(h.dataIn) {
			return fmt.Errorf("%s: EncodeBIP276 wrote into the spare capacity behind the payload slice it was given (%x)", at, []byte(op.Data))
		}
		want := ref.EncodeBIP276(ref.BIP276{Prefix: op.Prefix, Version: op.Version, Network: op.Network, Data: op.Data})
		if h.enc == "ERROR" && op.Prefix != bscript.PrefixScript && op.Prefix != bscript.PrefixTemplate {
			return nil // the encoder refuses a prefix outside the quantified ones: nothing to judge
		}
		if h.enc != want {
			swapped := ref.EncodeBIP276(ref.BIP276{Prefix: op.Prefix, Version: op.Network, Network: op.Version, Data: op.Data})
			if op.Version != op.Network && h.enc == swapped && ctx.Known("L25b") {
				// recorded finding (network written before version), exactly as in roundtrip
			} else {
				return fmt.Errorf("%s: EncodeBIP276({%s %d %d %x}) is held as %q, BIP layout is %q", at, op.Prefix, op.Version, op.Network, []byte(op.Data), h.enc, want)
			}
		}
		if op.Kind == "rt" {
			if h.derr != nil || h.dec == nil {
				return fmt.Errorf("%s: DecodeBIP276 of the library's own encoding %q failed: %v", at, h.enc, h.derr)
			}
			g := h.dec
			if g.Prefix != op.Prefix || g.Version != op.Version || g.Network != op.Network || !bytes.Equal(g.Data, op.Data) {
				return fmt.Errorf("%s: {%s %d %d %x} -> %q is held as {%s %d %d %x}", at, op.Prefix, op.Version, op.Network, []byte(op.Data), h.enc, g.Prefix, g.Version, g.Network, g.Data)
			}
		}
	case "dec":
		want, rerr := ref.DecodeBIP276(op.Text)
		switch {
		case h.derr == nil && rerr != nil:
			return fmt.Errorf("%s: accepted malformed text %q (reference: %v)", at, op.Text, rerr)
		case h.derr != nil && rerr == nil:
			return fmt.Errorf("%s: rejected well-formed text %q: %v", at, op.Text, h.derr)
		case h.derr == nil:
			g := h.dec
			if g == nil {
				return fmt.Errorf("%s: nil result without an error for %q", at, op.Text)
			}
			if g.Prefix != want.Prefix || !bytes.Equal(g.Data, want.Data) {
				return fmt.Errorf("%s: %q is held as {%s %x}, reference {%s %x}", at, op.Text, g.Prefix, g.Data, want.Prefix, want.Data)
			}
			if g.Version != want.Version || g.Network != want.Network {
				if g.Version == want.Network && g.Network == want.Version && ctx.Known("L25b") {
					break
				}
				return fmt.Errorf("%s: %q is held as version=%d network=%d, BIP layout says version=%d network=%d", at, op.Text, g.Version, g.Network, want.Version, want.Network)
			}
		}
	case "val":
		_, rerr := ref.DecodeBIP276(op.Text)
		if h.ok != (rerr == nil) || (h.verr == nil) != (rerr == nil) {
			return fmt.Errorf("%s: ValidateAddress(%q) = %v,%v but the text decodes: %v (reference: %v)", at, op.Text, h.ok, h.verr, rerr == nil, rerr)
		}
	}
	return nil
}

func checkSeq(ctx *pbt.Ctx, c Seq) error {
	if len(c.Ops) < 2 {
		ctx.Discard("malformed case")
		return nil
	}
	for _, op := range c.Ops {
		switch op.Kind {
		case "enc", "rt":
			if op.Version < 1 || op.Version > 255 || op.Network < 1 || op.Network > 255 || op.Prefix == "" || strings.ContainsAny(op.Prefix, ":\n") {
				ctx.Discard("outside domain")
				return nil
			}
		case "val":
			if !strings.HasPrefix(op.Text, "bitcoin-script:") {
				ctx.Discard("outside domain")
				return nil
			}
		case "dec":
		default:
			ctx.Discard("malformed case")
			return nil
		}
	}
	// 1. all the calls, nothing examined
	held := make([]seqHeld, len(c.Ops))
	for i, op := range c.Ops {
		held[i] = seqCall(op)
	}
	// 2. everything examined after the last call
	for i, op := range c.Ops {
		if err := seqVerify(ctx, "after the last call", i, op, held[i]); err != nil {
			return err
		}
	}
	// 3. the caller overwrites what it was given, one decoded value at a time
	if c.Scribble {
		for i := range held {
			g := held[i].dec
			if g == nil {
				continue
			}
			for k := range g.Data {
				g.Data[k] ^= 0xff
			}
			g.Data = append(g.Data, 0xee)
			g.Prefix, g.Version, g.Network = "scribbled", -1, -1
			for j := i + 1; j < len(held); j++ {
				if err := seqVerify(ctx, "after the caller overwrote an earlier decoded value", j, c.Ops[j], held[j]); err != nil {
					return fmt.Errorf("(value decoded by call %d overwritten) %v", i, err)
				}
			}
		}
		for i, op := range c.Ops {
			if err := seqVerify(ctx, "called again after the caller overwrote every decoded value", i, op, seqCall(op)); err != nil {
				return err
			}
		}
		ctx.Label("scribble")
	}

	// evidence
	ctx.Labelf("ops=%d", len(c.Ops))
	texts := map[string]bool{}
	kinds := map[string]bool{}
	sameHdrLen, swappedPair, acc, rej := false, false, 0, 0
	for i, op := range c.Ops {
		kinds[op.Kind] = true
		if op.Kind == "dec" || op.Kind == "val" {
			texts[op.Text] = true
			if _, rerr := ref.DecodeBIP276(op.Text); rerr == nil {
				acc++
			} else {
				rej++
			}
			continue
		}
		texts[ref.EncodeBIP276(ref.BIP276{Prefix: op.Prefix, Version: op.Version, Network: op.Network, Data: op.Data})] = true
		for _, o := range c.Ops[:i] {
			if o.Kind != "enc" && o.Kind != "rt" {
				continue
			}
			if o.Prefix == op.Prefix && o.Version == op.Version && o.Network == op.Network && len(o.Data) == len(op.Data) && !bytes.Equal(o.Data, op.Data) {
				sameHdrLen = true
			}
			if o.Version == op.Network && o.Network == op.Version && op.Version != op.Network {
				swappedPair = true
			}
		}
	}
	for _, k := range []string{"enc", "rt", "dec", "val"} {
		if kinds[k] {
			ctx.Label("kind:" + k)
		}
	}
	if sameHdrLen {
		ctx.Label("pair:same-header-same-length-other-payload")
	}
	if swappedPair {
		ctx.Label("pair:version-network-exchanged")
	}
	if acc > 0 && rej > 0 {
		ctx.Label("texts:accepted-and-rejected")
	} else if acc > 1 {
		ctx.Label("texts:several-accepted")
	}
	if len(texts) >= 2 {
		ctx.NonTrivial()
	}
	return nil
}

// genSeq draws related inputs: most calls are a small variation of an earlier one.
func genSeq(t *rapid.T) Seq {
	type item struct {
		p    string
		v, n int
		d    []byte
	}
	fresh := func() item {
		p := rapid.SampledFrom([]string{bscript.PrefixScript, bscript.PrefixScript, bscript.PrefixTemplate, ""}).Draw(t, "prefix")
		if p == "" {
			p = rapid.StringMatching(`[a-z0-9-]{1,12}`).Draw(t, "prefix_custom")
		}
		n := gen.EdgeLen(t, 300, "dlen", 0, 1, 2, 20, 75, 76, 255, 256)
		return item{p, rapid.IntRange(1, 255).Draw(t, "v"), rapid.IntRange(1, 255).Draw(t, "n"), gen.FillBytes(t, n, "data")}
	}
	vary := func(b item) item {
		it := item{b.p, b.v, b.n, append([]byte{}, b.d...)}
		switch rapid.IntRange(0, 7).Draw(t, "vary") {
		case 0, 1: // same header, same length, other payload bytes
			if len(it.d) == 0 {
				it.d = []byte{byte(rapid.IntRange(0, 255).Draw(t, "b"))}
			} else {
				k := rapid.IntRange(0, len(it.d)-1).Draw(t, "pos")
				it.d[k] ^= byte(rapid.IntRange(1, 255).Draw(t, "xor"))
			}
		case 2: // version and network exchanged
			it.v, it.n = it.n, it.v
		case 3: // other version / network
			it.v = rapid.IntRange(1, 255).Draw(t, "v2")
			it.n = rapid.IntRange(1, 255).Draw(t, "n2")
		case 4: // one byte longer
			it.d = append(it.d, byte(rapid.IntRange(0, 255).Draw(t, "b")))
		case 5: // one byte shorter / empty
			if len(it.d) > 0 {
				it.d = it.d[:len(it.d)-1]
			}
		case 6: // other prefix
			if it.p == bscript.PrefixScript {
				it.p = bscript.PrefixTemplate
			} else {
				it.p = bscript.PrefixScript
			}
		default: // identical
		}
		return it
	}
	n := rapid.IntRange(2, 8).Draw(t, "nops")
	var items []item
	var c Seq
	for i := 0; i < n; i++ {
		var it item
		if len(items) == 0 || rapid.IntRange(0, 3).Draw(t, "fresh") == 0 {
			it = fresh()
		} else {
			it = vary(items[rapid.IntRange(0, len(items)-1).Draw(t, "from")])
		}
		items = append(items, it)
		kind := rapid.SampledFrom([]string{"enc", "rt", "rt", "dec", "dec", "dec", "val"}).Draw(t, "kind")
		op := SeqOp{Kind: kind}
		switch kind {
		case "enc", "rt":
			op.Prefix, op.Version, op.Network, op.Data = it.p, it.v, it.n, it.d
		default:
			if kind == "val" {
				it.p = bscript.PrefixScript
			}
			// a text in the BIP layout (the library reads the two header bytes in the
			// other order: finding L25b), sometimes damaged
			s := []byte(ref.EncodeBIP276(ref.BIP276{Prefix: it.p, Version: it.v, Network: it.n, Data: it.d}))
			body := len(it.p) + 1
			switch rapid.IntRange(0, 9).Draw(t, "damage") {
			case 0: // one hex digit of header / payload / checksum replaced
				k := rapid.IntRange(body, len(s)-1).Draw(t, "pos")
				s[k] = "0123456789abcdef"[rapid.IntRange(0, 15).Draw(t, "digit")]
			case 1: // checksum of another text
				o := items[rapid.IntRange(0, len(items)-1).Draw(t, "other")]
				os := ref.EncodeBIP276(ref.BIP276{Prefix: o.p, Version: o.v, Network: o.n, Data: o.d})
				copy(s[len(s)-8:], os[len(os)-8:])
			case 2: // truncated by one character
				s = s[:len(s)-1]
			}
			op.Text = string(s)
		}
		c.Ops = append(c.Ops, op)
	}
	c.Scribble = rapid.Bool().Draw(t, "scribble")
	return c
}

func TestSequence(t *testing.T) {
	pbt.Run(t, pbt.Sub[Seq]{
		Name: "sequence", Quick: 120000, Thorough: 3000000,
		Gen:   genSeq,
		Check: checkSeq,
	})
}

// ---------------------------------------------------------------------------
// sub-check 4: the caller's payload buffers are reused.
//
// A program that encodes many scripts keeps one buffer and refills it. The
// case owns one to three buffers (0 .. 65536 bytes, incl. 1024 / 4096); every
// enc call refills one of them IN PLACE (same slice, same length, new
// contents) and hands it to EncodeBIP276 - often several times in a row with
// no other call in between. A redec call decodes a text the library produced
// earlier in the sequence, refills the returned Data slice in place and encodes
// the returned value again. Every text is kept and compared after the last
// call with the reference encoding of the payload as it was AT THAT CALL.
// ---------------------------------------------------------------------------

// BufOp is one call.
type BufOp struct {
	Kind    string  `json:"kind"` // enc | redec
	Prefix  string  `json:"prefix,omitempty"`
	Version int     `json:"version,omitempty"`
	Network int     `json:"network,omitempty"`
	Buf     int     `json:"buf"`  // enc: which buffer; redec: which of the texts produced so far (mod)
	Fill    pbt.Hex `json:"fill"` // byte i of the refilled slice = Fill[i mod len] + i div len
}

// Bufs is one case.
type Bufs struct {
	Sizes []int   `json:"sizes"`
	Ops   []BufOp `json:"ops"`
}

func fillInPlace(b, pat []byte) {
	if len(pat) == 0 {
		pat = []byte{0}
	}
	for i := range b {
		b[i] = pat[i%len(pat)] + byte(i/len(pat))
	}
}

func checkBufs(ctx *pbt.Ctx, c Bufs) error {
	if len(c.Sizes) == 0 || len(c.Sizes) > 3 || len(c.Ops) < 2 {
		ctx.Discard("malformed case")
		return nil
	}
	bufs := make([][]byte, len(c.Sizes))
	for i, n := range c.Sizes {
		if n < 0 || n > 1<<17 {
			ctx.Discard("outside domain")
			return nil
		}
		bufs[i] = ref.Canary(make([]byte, n)) // a window onto a longer array, as a script read out of a serialised buffer is
	}
	type held struct {
		what string
		text string
		want ref.BIP276 // header as the caller / the reference reads it, payload as it was at that call
		l25b bool       // the exchange of the two header bytes (finding L25b) may apply
	}
	var kept []held
	sameBufRefilled, encRuns, run, redecs := 0, 0, 0, 0
	lastFill := map[int]string{}
	for i, op := range c.Ops {
		switch op.Kind {
		case "enc":
			if op.Version < 1 || op.Version > 255 || op.Network < 1 || op.Network > 255 || op.Prefix == "" || strings.ContainsAny(op.Prefix, ":\n") || op.Buf < 0 {
				ctx.Discard("outside domain")
				return nil
			}
			k := op.Buf % len(bufs)
			b := bufs[k]
			fillInPlace(b, op.Fill) // same slice, same length, new contents
			text := bscript.EncodeBIP276(bscript.BIP276{Prefix: op.Prefix, Version: op.Version, Network: op.Network, Data: b})
			if ref.CanaryDamaged(b) {
				return fmt.Errorf("call %d (enc from buffer %d, %d bytes): EncodeBIP276 wrote behind the end of the payload slice, into the array the slice is a window of", i, k, len(b))
			}
			kept = append(kept, held{what: fmt.Sprintf("call %d (enc from buffer %d, %d bytes)", i, k, len(b)), text: text,
				want: ref.BIP276{Prefix: op.Prefix, Version: op.Version, Network: op.Network, Data: append([]byte{}, b...)}, l25b: true})
			if prev, ok := lastFill[k]; ok && prev != string(b) {
				sameBufRefilled++
			}
			lastFill[k] = string(b)
			run++
			if run >= 2 {
				encRuns++
			}
		case "redec":
			run = 0
			if len(kept) == 0 || op.Buf < 0 {
				continue
			}
			src := kept[op.Buf%len(kept)]
			hdr, rerr := ref.DecodeBIP276(src.text)
			if rerr != nil {
				continue // the text was already wrong; it is reported below when the kept texts are compared
			}
			got, err := bscript.DecodeBIP276(src.text)
			if err != nil || got == nil {
				return fmt.Errorf("call %d (redec): DecodeBIP276 of the text produced by %s failed: %v", i, src.what, err)
			}
			if !bytes.Equal(got.Data, hdr.Data) {
				return fmt.Errorf("call %d (redec): the text produced by %s decodes to %d payload bytes that differ from the reference's %d", i, src.what, len(got.Data), len(hdr.Data))
			}
			fillInPlace(got.Data, op.Fill) // the caller edits the value it was given, in place
			text := bscript.EncodeBIP276(*got)
			kept = append(kept, held{what: fmt.Sprintf("call %d (decoded the text of %s, refilled the returned Data in place, encoded again)", i, src.what), text: text,
				want: ref.BIP276{Prefix: hdr.Prefix, Version: hdr.Version, Network: hdr.Network, Data: append([]byte{}, got.Data...)}})
			redecs++
		default:
			ctx.Discard("malformed case")
			return nil
		}
	}
	// everything examined after the last call
	for _, h := range kept {
		want := ref.EncodeBIP276(h.want)
		if h.text == want {
			continue
		}
		if h.l25b && h.want.Version != h.want.Network && ctx.Known("L25b") &&
			h.text == ref.EncodeBIP276(ref.BIP276{Prefix: h.want.Prefix, Version: h.want.Network, Network: h.want.Version, Data: h.want.Data}) {
			continue // recorded finding (network written before version), the unchanged matcher
		}
		got, derr := ref.DecodeBIP276(h.text)
		return fmt.Errorf("%s returned a text that does not describe the payload as it was at that call: the text decodes (reference) to {%s %d %d, %d bytes %s, err %v}, handed in {%s %d %d, %d bytes %s}",
			h.what, got.Prefix, got.Version, got.Network, len(got.Data), clipHex(got.Data), derr, h.want.Prefix, h.want.Version, h.want.Network, len(h.want.Data), clipHex(h.want.Data))
	}
	big := 0
	for _, n := range c.Sizes {
		if n > big {
			big = n
		}
	}
	ctx.Labelf("largest_buffer=%s", sizeClass(big))
	if sameBufRefilled > 0 {
		ctx.Label("buffer-refilled-in-place")
		ctx.NonTrivial()
	}
	if encRuns > 0 {
		ctx.Label("enc-enc-without-other-call")
	}
	if redecs > 0 {
		ctx.Label("decode-edit-encode")
	}
	return nil
}

func clipHex(b []byte) string {
	if len(b) > 16 {
		return fmt.Sprintf("%x..", b[:16])
	}
	return fmt.Sprintf("%x", b)
}

func sizeClass(n int) string {
	switch {
	case n < 1024:
		return "<1024"
	case n < 4096:
		return "1024-4095"
	case n < 65536:
		return "4096-65535"
	}
	return ">=65536"
}

func genBufs(t *rapid.T) Bufs {
	var c Bufs
	for i, n := 0, rapid.IntRange(1, 3).Draw(t, "nbufs"); i < n; i++ {
		size := rapid.SampledFrom([]int{0, 1, 2, 20, 20, 75, 76, 255, 256, 1000, 1023, 1024, 1024, 1025, 2048, 4096}).Draw(t, "size")
		if rapid.IntRange(0, 39).Draw(t, "huge") == 0 {
			size = rapid.SampledFrom([]int{4097, 65535, 65536}).Draw(t, "size_huge")
		}
		c.Sizes = append(c.Sizes, size)
	}
	pattern := rapid.SampledFrom([]string{"enc-only", "mixed", "mixed"}).Draw(t, "pattern")
	p := rapid.SampledFrom([]string{bscript.PrefixScript, bscript.PrefixTemplate}).Draw(t, "prefix")
	v, nw := rapid.IntRange(1, 255).Draw(t, "v"), rapid.IntRange(1, 255).Draw(t, "n")
	for i, n := 0, rapid.IntRange(2, 8).Draw(t, "nops"); i < n; i++ {
		op := BufOp{Kind: "enc", Prefix: p, Version: v, Network: nw, Buf: rapid.IntRange(0, 2).Draw(t, "buf"),
			Fill: rapid.SliceOfN(rapid.Byte(), 1, 8).Draw(t, "fill")}
		if pattern == "mixed" && i > 0 && rapid.IntRange(0, 5).Draw(t, "redec") == 0 {
			op = BufOp{Kind: "redec", Buf: rapid.IntRange(0, 7).Draw(t, "src"), Fill: op.Fill}
		}
		switch rapid.IntRange(0, 5).Draw(t, "header") { // mostly the same script under the same or another header
		case 0:
			op.Version, op.Network = rapid.IntRange(1, 255).Draw(t, "v2"), rapid.IntRange(1, 255).Draw(t, "n2")
		case 1:
			if op.Prefix == bscript.PrefixScript {
				op.Prefix = bscript.PrefixTemplate
			} else if op.Kind == "enc" {
				op.Prefix = bscript.PrefixScript
			}
		}
		c.Ops = append(c.Ops, op)
	}
	return c
}

func TestBuffers(t *testing.T) {
	pbt.Run(t, pbt.Sub[Bufs]{
		Name: "buffers", Quick: 24000, Thorough: 400000,
		Gen:   genBufs,
		Check: checkBufs,
	})
}

// ---------------------------------------------------------------------------
// sub-check 5: the PREFIX is a field like the others.
//
// Texts are built for prefixes outside the two standard ones - empty, one
// character, containing ':' (several, leading, trailing), newline, CR, tab, NUL,
// non-ASCII and invalid UTF-8 bytes, very long - by the reference encoder (or
// by the library's own encoder), always with the checksum computed over exactly
// that text, so that only the layout rule decides. Everything after the prefix's
// colon is hex, hence the only possible split is at the LAST colon. Asserted is
// what the layout leaves no doubt about: an empty prefix is refused; a prefix
// with a newline is refused; a non-empty prefix of printable ASCII without ':'
// is accepted and returned; whatever is accepted decodes to fields whose
// re-encoding is the text; ValidateAddress agrees with DecodeBIP276 on every
// text that starts with "bitcoin-script:".
// ---------------------------------------------------------------------------

// Pfx is one case.
type Pfx struct {
	Prefix  pbt.Hex `json:"prefix"` // raw bytes of the prefix
	Version int     `json:"version"`
	Network int     `json:"network"`
	Data    pbt.Hex `json:"data"`
	Rep     int     `json:"rep,omitempty"` // > 0: the prefix is Prefix repeated up to Rep bytes
	Via     string  `json:"via"`           // ref | lib: which encoder lays the text out
}

func (c Pfx) prefix() string {
	if c.Rep <= 0 || len(c.Prefix) == 0 {
		return string(c.Prefix)
	}
	b := make([]byte, c.Rep)
	for i := range b {
		b[i] = c.Prefix[i%len(c.Prefix)]
	}
	return string(b)
}

func printableNoColon(p string) bool {
	if p == "" {
		return false
	}
	for i := 0; i < len(p); i++ {
		if p[i] < 0x20 || p[i] > 0x7e || p[i] == ':' {
			return false
		}
	}
	return true
}

func clipStr(s string) string {
	if len(s) > 120 {
		return fmt.Sprintf("%q..(%d bytes)", s[:120], len(s))
	}
	return fmt.Sprintf("%q", s)
}

func checkPfx(ctx *pbt.Ctx, c Pfx) error {
	if c.Version < 1 || c.Version > 255 || c.Network < 1 || c.Network > 255 || c.Rep > 1<<16 {
		ctx.Discard("outside domain")
		return nil
	}
	p := c.prefix()
	text := ref.EncodeBIP276(ref.BIP276{Prefix: p, Version: c.Version, Network: c.Network, Data: c.Data})
	if c.Via == "lib" {
		lt := bscript.EncodeBIP276(bscript.BIP276{Prefix: p, Version: c.Version, Network: c.Network, Data: append([]byte{}, c.Data...)})
		if lt == "ERROR" && p != bscript.PrefixScript && p != bscript.PrefixTemplate {
			// the statement quantifies over the prefixes script / template; an encoder that REFUSES another
			// prefix (benign change C17-b2-2: empty, or one its own decoder could never read back) has not
			// produced a text, so there is no layout to judge
			ctx.Label("encoder refuses a non-standard prefix")
			return nil
		}
		if lt != text {
			swapped := ref.EncodeBIP276(ref.BIP276{Prefix: p, Version: c.Network, Network: c.Version, Data: c.Data})
			if !(c.Version != c.Network && lt == swapped && ctx.Known("L25b")) {
				return fmt.Errorf("EncodeBIP276 with prefix %s: %s, BIP layout is %s", clipStr(p), clipStr(lt), clipStr(text))
			}
		}
		text = lt
	}
	got, err := bscript.DecodeBIP276(text)
	class := "other"
	switch {
	case p == "":
		class = "empty"
		if err == nil {
			return fmt.Errorf("text %s has an EMPTY prefix and was accepted as {prefix %s version %d network %d data %x}", clipStr(text), clipStr(got.Prefix), got.Version, got.Network, got.Data)
		}
	case strings.Contains(p, "\n"):
		class = "newline"
		if err == nil {
			return fmt.Errorf("text %s has a prefix containing a NEWLINE and was accepted with prefix %s", clipStr(text), clipStr(got.Prefix))
		}
	case printableNoColon(p):
		class = "printable"
		if err != nil {
			return fmt.Errorf("text %s (printable prefix without colon, correct checksum) was rejected: %v", clipStr(text), err)
		}
		if got.Prefix != p {
			return fmt.Errorf("text %s decodes with prefix %s, laid out with prefix %s", clipStr(text), clipStr(got.Prefix), clipStr(p))
		}
	case strings.Contains(p, ":"):
		class = "colon"
	}
	if err == nil {
		if got == nil {
			return fmt.Errorf("text %s: nil result without an error", clipStr(text))
		}
		// what was accepted must re-encode to the text (the split cannot have been anywhere else)
		re := ref.EncodeBIP276(ref.BIP276{Prefix: got.Prefix, Version: got.Version, Network: got.Network, Data: got.Data})
		if re != text {
			sw := ref.EncodeBIP276(ref.BIP276{Prefix: got.Prefix, Version: got.Network, Network: got.Version, Data: got.Data})
			if !(got.Version != got.Network && sw == text && ctx.Known("L25b")) {
				return fmt.Errorf("text %s was accepted as {prefix %s version %d network %d data %x}, which is the text %s", clipStr(text), clipStr(got.Prefix), got.Version, got.Network, got.Data, clipStr(re))
			}
		}
		if !bytes.Equal(got.Data, c.Data) {
			return fmt.Errorf("text %s decodes to data %x, laid out with %x", clipStr(text), got.Data, []byte(c.Data))
		}
		ctx.Label("class:" + class + ":accepted")
	} else {
		ctx.Label("class:" + class + ":refused")
	}
	if strings.HasPrefix(text, "bitcoin-script:") {
		ok, verr := bscript.ValidateAddress(text)
		if ok != (err == nil) || (verr == nil) != (err == nil) {
			return fmt.Errorf("ValidateAddress(%s) = %v,%v but DecodeBIP276 err = %v", clipStr(text), ok, verr, err)
		}
		ctx.Label("validate-address-agrees")
	}
	if len(p) > 1000 {
		ctx.Label("long-prefix")
	}
	if class != "printable" {
		ctx.NonTrivial()
	}
	return nil
}

var pfxFixed = []string{"", ":", "::", ":::", "a", "a:", ":a", "a:b", "a::b", "a:b:c", "bitcoin-script:", "bitcoin-script::", "bitcoin-script:x", "bitcoin-script:0101",
	":bitcoin-script", "0101", "ab:0101", "\n", "a\n", "\na", "a\nb", "a\n:b", "a:\nb", "bitcoin-script\n", "\r", "a\rb", "\t", "\x00", "a\x00b", " ", "é", "\xff", "\xc3", "a\xffb", "ünï:cödé"}

func genPfx(t *rapid.T) Pfx {
	c := Pfx{Version: rapid.IntRange(1, 255).Draw(t, "v"), Network: rapid.IntRange(1, 255).Draw(t, "n"),
		Data: gen.FillBytes(t, gen.EdgeLen(t, 80, "dlen", 0, 1, 2, 20, 75, 76), "data"), Via: rapid.SampledFrom([]string{"ref", "ref", "lib"}).Draw(t, "via")}
	switch rapid.IntRange(0, 5).Draw(t, "pkind") {
	case 0:
		c.Prefix = pbt.Hex(rapid.SampledFrom(pfxFixed).Draw(t, "fixed"))
	case 1: // a soup of the characters that matter
		n := rapid.IntRange(0, 6).Draw(t, "soup_n")
		var b []byte
		for i := 0; i < n; i++ {
			b = append(b, rapid.SampledFrom([]string{":", ":", "\n", "\r", "\t", "\x00", "a", "0", "f", "-", "é", "\xff", "bitcoin-script", "01"}).Draw(t, "soup")...)
		}
		c.Prefix = b
	case 2: // arbitrary bytes
		c.Prefix = rapid.SliceOfN(rapid.Byte(), 0, 12).Draw(t, "bytes")
	case 3: // a standard prefix with something inserted
		s := []byte(rapid.SampledFrom([]string{bscript.PrefixScript, bscript.PrefixTemplate}).Draw(t, "std"))
		i := rapid.IntRange(0, len(s)).Draw(t, "ins_at")
		ins := rapid.SampledFrom([]string{":", "\n", "\x00", "::", "\r\n", "é"}).Draw(t, "ins")
		c.Prefix = append(append(append([]byte{}, s[:i]...), ins...), s[i:]...)
	case 4: // very long
		c.Prefix = pbt.Hex(rapid.SampledFrom([]string{"a", "ab", "a:", ":", "a\n", "bitcoin-script", "é"}).Draw(t, "unit"))
		c.Rep = rapid.SampledFrom([]int{255, 256, 1000, 4096, 65535}).Draw(t, "rep")
	default:
		c.Prefix = pbt.Hex(rapid.StringMatching(`[ -~]{1,24}`).Draw(t, "ascii"))
	}
	return c
}

func TestPrefixes(t *testing.T) {
	pbt.Run(t, pbt.Sub[Pfx]{
		Name: "prefixes", Quick: 60000, Thorough: 1500000,
		Gen:   genPfx,
		Check: checkPfx,
		EnumDesc: "35 fixed prefixes (empty, colons in every position, newline / CR / tab / NUL / space, non-ASCII and invalid UTF-8, hex-looking, standard prefix + colon) and the long ones x {ref, lib encoder} x (version, network) in {(1,1), (1,2), (255,16)} x payload lengths {0, 1, 20}",
		Enum: func(tier string, yield func(Pfx)) {
			for _, via := range []string{"ref", "lib"} {
				for _, vn := range [][2]int{{1, 1}, {1, 2}, {255, 16}} {
					for _, dl := range []int{0, 1, 20} {
						for _, p := range pfxFixed {
							yield(Pfx{Prefix: pbt.Hex(p), Version: vn[0], Network: vn[1], Data: fixedData(dl, vn[0]), Via: via})
						}
						for _, u := range []string{"a", "a:", "a\n"} {
							yield(Pfx{Prefix: pbt.Hex(u), Rep: 4096, Version: vn[0], Network: vn[1], Data: fixedData(dl, vn[1]), Via: via})
						}
					}
				}
			}
		},
	})
}
