package c17

import (
	"testing"
	"unicode/utf8"

	"github.com/libsv/go-bt/v2/bscript"

	"verif/harness/pbt"
	"verif/harness/ref"
)

// FuzzText is the coverage-guided target of the thorough tier: arbitrary text through
// DecodeBIP276 / ValidateAddress with the oracle of the `corruption` sub-check (the library
// accepts exactly what the reference layout predicate accepts, with the same fields).
func FuzzText(f *testing.F) {
	for _, p := range []string{bscript.PrefixScript, bscript.PrefixTemplate, "x", ""} {
		for _, d := range [][]byte{nil, {0}, {1, 2, 3}, make([]byte, 40)} {
			f.Add(ref.EncodeBIP276(ref.BIP276{Prefix: p, Version: 1, Network: 1, Data: d}))
			f.Add(ref.EncodeBIP276(ref.BIP276{Prefix: p, Version: 2, Network: 1, Data: d}))
			f.Add(ref.EncodeBIP276(ref.BIP276{Prefix: p, Version: 255, Network: 254, Data: d}))
		}
	}
	f.Add("bitcoin-script:")
	f.Add("bitcoin-script:0101")
	f.Add(":010100000000")
	f.Fuzz(func(t *testing.T, s string) {
		if len(s) > 600 || !utf8.ValidString(s) {
			t.Skip()
		}
		pbt.FuzzCheck(t, "C17", "corruption", checkText, Text{Op: "fuzz", Text: s})
	})
}
