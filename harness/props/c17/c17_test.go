// Package c17 decides property C17 (BIP276 text encoding).
package c17

import (
	"bytes"
	"fmt"
	"strings"
	"testing"

	"github.com/libsv/go-bt/v2/bscript"
	"pgregory.net/rapid"

	"verif/harness/gen"
	"verif/harness/pbt"
	"verif/harness/ref"
)

func TestMain(m *testing.M) { pbt.Main(m) }

// RT is a round-trip / layout case.
type RT struct {
	Prefix  string  `json:"prefix"`
	Version int     `json:"version"`
	Network int     `json:"network"`
	Data    pbt.Hex `json:"data"`
}

func checkRT(ctx *pbt.Ctx, c RT) error {
	// the payload slice owns spare capacity with a recognisable pattern (ref.Canary): an encoder that
	// appends to the caller's slice writes there without changing the slice the caller holds
	arg := ref.Canary(c.Data)
	in := bscript.BIP276{Prefix: c.Prefix, Version: c.Version, Network: c.Network, Data: arg}
	text := bscript.EncodeBIP276(in)
	if ref.CanaryDamaged(arg) {
		return fmt.Errorf("EncodeBIP276(%+v) wrote into the spare capacity behind the payload slice it was given", c)
	}
	if !bytes.Equal(arg, c.Data) {
		return fmt.Errorf("EncodeBIP276(%+v) changed the payload slice it was given to %x", c, arg)
	}
	in.Data = c.Data
	if c.Version != c.Network || len(c.Data) == 0 || c.Version >= 10 || (c.Prefix != bscript.PrefixScript) {
		ctx.NonTrivial()
	}
	ctx.Labelf("len=%d", lenClass(len(c.Data)))
	if c.Version == c.Network {
		ctx.Label("v==n")
	} else {
		ctx.Label("v!=n")
	}
	// 1. layout, decided by the reference encoder (BIP text order: version then network)
	want := ref.EncodeBIP276(ref.BIP276{Prefix: c.Prefix, Version: c.Version, Network: c.Network, Data: c.Data})
	if text == "ERROR" && c.Prefix != bscript.PrefixScript && c.Prefix != bscript.PrefixTemplate {
		ctx.Label("encoder refuses a non-standard prefix") // outside the quantified prefixes: nothing to judge
		return nil
	}
	if text != want {
		swapped := ref.EncodeBIP276(ref.BIP276{Prefix: c.Prefix, Version: c.Network, Network: c.Version, Data: c.Data})
		if c.Version != c.Network && text == swapped && ctx.Known("L25b") {
			// recorded finding: the encoder writes network before version; any other
			// layout deviation of these pairs is still reported.
		} else {
			return fmt.Errorf("layout: EncodeBIP276(%+v) = %q, BIP layout is %q", c, text, want)
		}
	}
	// 2. round trip through the library's own decoder
	got, err := bscript.DecodeBIP276(text)
	if err != nil {
		return fmt.Errorf("round trip: DecodeBIP276(EncodeBIP276(%+v)=%q) failed: %v", c, text, err)
	}
	if got.Prefix != c.Prefix || got.Version != c.Version || got.Network != c.Network || !bytes.Equal(got.Data, c.Data) {
		return fmt.Errorf("round trip: %+v -> %q -> {%s %d %d %x}", c, text, got.Prefix, got.Version, got.Network, got.Data)
	}
	// 3. ValidateAddress accepts a bitcoin-script string exactly when it decodes
	if strings.HasPrefix(text, "bitcoin-script:") {
		ok, verr := bscript.ValidateAddress(text)
		if !ok || verr != nil {
			return fmt.Errorf("ValidateAddress(%q) = %v, %v although it decodes", text, ok, verr)
		}
	}
	return nil
}

func lenClass(n int) int {
	switch {
	case n <= 2:
		return n
	case n < 76:
		return 20
	case n < 256:
		return 76
	}
	return 256
}

func fixedData(n int, salt int) []byte {
	b := make([]byte, n)
	for i := range b {
		b[i] = byte(i*7 + salt*13 + 1)
	}
	return b
}

func TestRoundTrip(t *testing.T) {
	pbt.Run(t, pbt.Sub[RT]{
		Name: "roundtrip", Quick: 120000, Thorough: 6000000,
		EnumDesc: "all 255x255 (version, network) pairs x {bitcoin-script, bitcoin-template} x payload lengths {0,1,20} (quick) / {0,1,2,20,75,76,255,1000} (thorough); every payload length 0..4200 (quick) / 0..20000 (thorough) for both prefixes",
		Enum: func(tier string, yield func(RT)) {
			lens := []int{0, 1, 20}
			if tier == "thorough" {
				lens = []int{0, 1, 2, 20, 75, 76, 255, 1000}
			}
			// every payload length in a range (length-dependent fast paths and buffers have their
			// boundary somewhere): 0..4200 quick, 0..20000 thorough, both prefixes
			top := 4200
			if tier == "thorough" {
				top = 20000
			}
			for l := 0; l <= top; l++ {
				for pi, p := range []string{bscript.PrefixScript, bscript.PrefixTemplate} {
					yield(RT{Prefix: p, Version: 1 + l%255, Network: 1 + l%255, Data: fixedData(l, l+pi)})
				}
			}
			for v := 1; v <= 255; v++ {
				for n := 1; n <= 255; n++ {
					for pi, p := range []string{bscript.PrefixScript, bscript.PrefixTemplate} {
						for _, l := range lens {
							yield(RT{Prefix: p, Version: v, Network: n, Data: fixedData(l, v+n+pi)})
						}
					}
				}
			}
		},
		Gen: func(t *rapid.T) RT {
			p := rapid.SampledFrom([]string{bscript.PrefixScript, bscript.PrefixTemplate, ""}).Draw(t, "prefix")
			if p == "" {
				p = rapid.StringMatching(`[a-z0-9-]{1,20}`).Draw(t, "prefix_custom")
			}
			n := gen.EdgeLen(t, 1200, "dlen", 0, 1, 2, 20, 75, 76, 255, 256, 1000)
			return RT{Prefix: p, Version: rapid.IntRange(1, 255).Draw(t, "v"), Network: rapid.IntRange(1, 255).Draw(t, "n"), Data: gen.FillBytes(t, n, "data")}
		},
		Check: checkRT,
	})
}

// Text is an arbitrary (usually corrupted) string handed to the decoder.
type Text struct {
	Base string `json:"base"` // the valid encoding it was derived from (informational)
	Op   string `json:"op"`
	Text string `json:"text"`
}

func checkText(ctx *pbt.Ctx, c Text) error {
	got, err := bscript.DecodeBIP276(c.Text)
	want, rerr := ref.DecodeBIP276(c.Text)
	ctx.Label(c.Op)
	if c.Text != c.Base {
		ctx.NonTrivial()
	}
	switch {
	case err == nil && rerr != nil:
		// the library's field order makes it accept exactly the strings that are
		// valid with version/network exchanged; that is finding L25b, nothing else is.
		return fmt.Errorf("accepted malformed text %q (%s of %q): reference says %v; decoded {%s %d %d %x}", c.Text, c.Op, c.Base, rerr, got.Prefix, got.Version, got.Network, got.Data)
	case err != nil && rerr == nil:
		return fmt.Errorf("rejected well-formed text %q (%s of %q): %v", c.Text, c.Op, c.Base, err)
	case err == nil:
		ctx.Label("accepted")
		if got.Prefix != want.Prefix || !bytes.Equal(got.Data, want.Data) {
			return fmt.Errorf("decoded %q differently: lib {%s %x} ref {%s %x}", c.Text, got.Prefix, got.Data, want.Prefix, want.Data)
		}
		if got.Version != want.Version || got.Network != want.Network {
			if got.Version == want.Network && got.Network == want.Version && ctx.Known("L25b") {
				break
			}
			return fmt.Errorf("decoded %q: lib version=%d network=%d, BIP layout says version=%d network=%d", c.Text, got.Version, got.Network, want.Version, want.Network)
		}
	default:
		ctx.Label("rejected")
	}
	if strings.HasPrefix(c.Text, "bitcoin-script:") {
		ok, verr := bscript.ValidateAddress(c.Text)
		if ok != (err == nil) || (verr == nil) != (err == nil) {
			return fmt.Errorf("ValidateAddress(%q) = %v,%v but DecodeBIP276 err = %v", c.Text, ok, verr, err)
		}
	}
	return nil
}

const alphabet = "0123456789abcdefABCDEFgxz:-_ \n"

func genText(t *rapid.T) Text {
	p := rapid.SampledFrom([]string{bscript.PrefixScript, bscript.PrefixTemplate}).Draw(t, "prefix")
	v := rapid.IntRange(1, 255).Draw(t, "v")
	n := v
	if rapid.IntRange(0, 3).Draw(t, "same") == 0 {
		n = rapid.IntRange(1, 255).Draw(t, "n")
	}
	dl := gen.EdgeLen(t, 80, "dlen", 0, 1, 2, 20, 75, 76)
	// the base is laid out the way the library itself writes it, so that the
	// corruption starts from a string the library accepts
	base := bscript.EncodeBIP276(bscript.BIP276{Prefix: p, Version: v, Network: n, Data: gen.Bytes(t, dl, "data")})
	op := rapid.SampledFrom([]string{"none", "subst", "subst", "subst", "delete", "insert", "truncate", "append", "swap", "upper", "suffix", "suffix", "lead"}).Draw(t, "op")
	s := []byte(base)
	switch op {
	case "subst":
		i := rapid.IntRange(0, len(s)-1).Draw(t, "i")
		s[i] = alphabet[rapid.IntRange(0, len(alphabet)-1).Draw(t, "c")]
	case "delete":
		i := rapid.IntRange(0, len(s)-1).Draw(t, "i")
		s = append(s[:i:i], s[i+1:]...)
	case "insert":
		i := rapid.IntRange(0, len(s)).Draw(t, "i")
		c := alphabet[rapid.IntRange(0, len(alphabet)-1).Draw(t, "c")]
		s = append(s[:i:i], append([]byte{c}, s[i:]...)...)
	case "truncate":
		s = s[:rapid.IntRange(0, len(s)-1).Draw(t, "i")]
	case "append":
		s = append(s, alphabet[rapid.IntRange(0, len(alphabet)-1).Draw(t, "c")])
	case "suffix": // the complete valid text followed by what a URI, a query string or a line of a file would carry on with
		sep := rapid.SampledFrom([]string{"?", "#", "&", ";", "/", "=", "%", "+", ",", " ", "\t", "\r\n", "\x00", "|", "'", "\""}).Draw(t, "sep")
		tail := rapid.SampledFrom([]string{"", "amount=1", "a", "00", "label=x&amount=2", "bitcoin-script:0101", "\n"}).Draw(t, "tail")
		s = append(s, (sep + tail)...)
	case "lead": // something in front of the complete valid text
		s = append([]byte(rapid.SampledFrom([]string{" ", "\n", "bitcoin:", "?", "//", "BITCOIN-SCRIPT:", "\x00", "x"}).Draw(t, "lead")), s...)
	case "swap":
		if len(s) >= 2 {
			i := rapid.IntRange(0, len(s)-2).Draw(t, "i")
			s[i], s[i+1] = s[i+1], s[i]
		}
	case "upper":
		i := rapid.IntRange(0, len(s)-1).Draw(t, "i")
		s[i] = strings.ToUpper(string(s[i]))[0]
	}
	return Text{Base: base, Op: op, Text: string(s)}
}

func TestCorruption(t *testing.T) {
	pbt.Run(t, pbt.Sub[Text]{
		Name: "corruption", Quick: 400000, Thorough: 20000000,
		Gen:      genText,
		Check:    checkText,
		EnumDesc: "every single-character substitution (31-symbol alphabet incl. ':' and non-hex) at every position of 6 (quick) / 40 (thorough) valid encodings",
		Enum: func(tier string, yield func(Text)) {
			nb := 6
			if tier == "thorough" {
				nb = 40
			}
			for b := 0; b < nb; b++ {
				v := 1 + (b*37)%255
				base := bscript.EncodeBIP276(bscript.BIP276{Prefix: []string{bscript.PrefixScript, bscript.PrefixTemplate}[b%2], Version: v, Network: v, Data: fixedData(b%23, b)})
				for i := 0; i < len(base); i++ {
					for j := 0; j < len(alphabet); j++ {
						s := []byte(base)
						s[i] = alphabet[j]
						yield(Text{Base: base, Op: "subst", Text: string(s)})
					}
				}
			}
		},
	})
}
