package c14

// Round 8: the format's own markers inside FREE fields. Every template instance the generators
// build gets the marker byte strings of the OTHER templates embedded in its free fields - the
// P2PKH / P2SH hash, the P2PK key, each multisig key, the inscription content type and data,
// OP_RETURN payloads and the inscription's OP_RETURN tail - at every offset: the ord envelope
// start 00 63 03 6f 72 64, 6a, 00 6a, 76 a9 14, 88 ac, 87, ae, ac, 51 ae, 68, "bitcoin-script:",
// "bitcoin-template:". The property says "P2PK with a valid-length key": a 33 / 65-byte key
// (prefix 02 / 03 / 04 kept) containing a marker is in the domain. The case stores template,
// field, marker and offset. Oracle = check(): the reference recognisers read the script
// structurally (a marker inside push data is data), so a strict instance stays a strict
// instance and must keep its type in ScriptType, its predicate, PublicKeyHash / Addresses,
// ParseInscription and both node JSON renderings.

import (
	"fmt"
	"testing"

	"pgregory.net/rapid"

	"verif/harness/gen"
	"verif/harness/pbt"
	"verif/harness/ref"
)

var markerBytes = [][]byte{
	{0x00, 0x63, 0x03, 0x6f, 0x72, 0x64}, {0x6a}, {0x00, 0x6a}, {0x76, 0xa9, 0x14}, {0x88, 0xac}, {0x87}, {0xae}, {0xac}, {0x51, 0xae}, {0x68},
	[]byte("bitcoin-script:"), []byte("bitcoin-template:"), {0x63, 0x03, 0x6f, 0x72, 0x64, 0x51}, {0x4c, 0x00}, {0x4e, 0xff, 0xff, 0xff, 0xff},
}

// markerTemplates: name -> number of free fields.
var markerTemplates = []string{"p2pkh", "p2sh", "p2pk33", "p2pk65", "multisig", "data", "false-data", "inscription", "inscription-tail"}

// Marker describes one instance.
type Marker struct {
	Tpl    string `json:"tpl"`
	Field  int    `json:"field"`
	Marker int    `json:"marker"`
	Offset int    `json:"offset"`
	In     int    `json:"in"`
	Salt   byte   `json:"salt"`
}

// fields returns the free fields of the template (fresh slices) and the first offset a marker
// may take in each (keys keep their prefix byte).
func (c Marker) fields() (fs [][]byte, from []int) {
	f := func(n int, k byte) []byte { return fill(n, c.Salt+k) }
	key33 := func(k byte) []byte { b := f(33, k); b[0] = 0x02 + k%2; return b }
	key65 := func(k byte) []byte { b := f(65, k); b[0] = 0x04; return b }
	switch c.Tpl {
	case "p2pkh", "p2sh":
		return [][]byte{f(20, 1)}, []int{0}
	case "p2pk33":
		return [][]byte{key33(1)}, []int{1}
	case "p2pk65":
		return [][]byte{key65(1)}, []int{1}
	case "multisig":
		return [][]byte{key33(1), key65(2), key33(3)}, []int{1, 1, 1}
	case "data", "false-data":
		return [][]byte{f(24, 1), f(80, 2)}, []int{0, 0}
	case "inscription":
		return [][]byte{f(20, 1), f(24, 2), f(90, 3)}, []int{0, 0, 0}
	default: // inscription-tail
		return [][]byte{f(20, 1), f(10, 2), f(30, 3), f(24, 4)}, []int{0, 0, 0, 0}
	}
}

func (c Marker) build() ([]byte, error) {
	fs, from := c.fields()
	if c.Field < 0 || c.Field >= len(fs) || c.Marker < 0 || c.Marker >= len(markerBytes) {
		return nil, fmt.Errorf("harness: field %d / marker %d outside the template %s", c.Field, c.Marker, c.Tpl)
	}
	m := markerBytes[c.Marker]
	if c.Offset < from[c.Field] || c.Offset+len(m) > len(fs[c.Field]) {
		return nil, fmt.Errorf("harness: marker of %d bytes at offset %d does not fit field %d (%d bytes) of %s", len(m), c.Offset, c.Field, len(fs[c.Field]), c.Tpl)
	}
	copy(fs[c.Field][c.Offset:], m)
	switch c.Tpl {
	case "p2pkh":
		return gen.TplP2PKH(fs[0]), nil
	case "p2sh":
		return gen.TplP2SH(fs[0]), nil
	case "p2pk33", "p2pk65":
		return gen.TplP2PK(fs[0]), nil
	case "multisig":
		return gen.TplMultisig(2, fs), nil
	case "data":
		return gen.TplData(false, fs), nil
	case "false-data":
		return gen.TplData(true, fs), nil
	case "inscription":
		return gen.TplInscription(fs[0], fs[1], fs[2], nil), nil
	case "inscription-tail":
		return gen.TplInscription(fs[0], fs[1], fs[2], [][]byte{fs[3]}), nil
	}
	return nil, fmt.Errorf("harness: unknown template %q", c.Tpl)
}

func checkMarker(ctx *pbt.Ctx, c Marker) error {
	s, err := c.build()
	if err != nil {
		return err
	}
	ctx.Labelf("marker:%x", markerBytes[c.Marker])
	ctx.Labelf("field:%s/%d", c.Tpl, c.Field)
	if ref.StrictTemplate(s) == ref.TplNone {
		ctx.Label("marker took the instance out of the strict template (type not claimed)")
	}
	return check(ctx, Case{How: "markers:" + c.Tpl, In: c.In, Script: s})
}

func TestMarkers(t *testing.T) {
	pbt.Run(t, pbt.Sub[Marker]{
		Name: "markers", Quick: 24000, Thorough: 600000,
		Gen: func(t *rapid.T) Marker {
			c := Marker{Tpl: rapid.SampledFrom(markerTemplates).Draw(t, "tpl"), Marker: rapid.IntRange(0, len(markerBytes)-1).Draw(t, "marker"),
				In: rapid.IntRange(0, 2).Draw(t, "in"), Salt: rapid.Byte().Draw(t, "salt")}
			fs, from := c.fields()
			// draw a field the marker fits into
			var ok []int
			for i := range fs {
				if from[i]+len(markerBytes[c.Marker]) <= len(fs[i]) {
					ok = append(ok, i)
				}
			}
			if len(ok) == 0 {
				c.Marker = 1
				ok = []int{0}
			}
			c.Field = rapid.SampledFrom(ok).Draw(t, "field")
			c.Offset = rapid.IntRange(from[c.Field], len(fs[c.Field])-len(markerBytes[c.Marker])).Draw(t, "offset")
			return c
		},
		Check:    checkMarker,
		EnumDesc: "9 template instances (P2PKH, P2SH, P2PK 33 / 65, 2-of-3 multisig with mixed keys, OP_RETURN and OP_FALSE OP_RETURN data, inscription without / with tail) x every free field x 15 marker strings x every offset the marker fits at (keys keep their prefix byte), two salts, transaction shapes in rotation",
		Enum: func(tier string, yield func(Marker)) {
			n := 0
			for _, salt := range []byte{0x31, 0xc7} {
				for _, tpl := range markerTemplates {
					fs, from := Marker{Tpl: tpl}.fields()
					for fi := range fs {
						for mi, m := range markerBytes {
							for off := from[fi]; off+len(m) <= len(fs[fi]); off++ {
								yield(Marker{Tpl: tpl, Field: fi, Marker: mi, Offset: off, In: n % 3, Salt: salt})
								n++
							}
						}
					}
				}
			}
		},
	})
}
