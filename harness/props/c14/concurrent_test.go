package c14

import (
	"bytes"
	"encoding/json"
	"fmt"
	"strings"
	"testing"

	"github.com/libsv/go-bt/v2"
	"github.com/libsv/go-bt/v2/bscript"
	"pgregory.net/rapid"

	"verif/harness/conc"
	"verif/harness/gen"
	"verif/harness/pbt"
	"verif/harness/ref"
)

// ConcCase: the inspection queries read the script and nothing else, so several goroutines may
// ask one shared script object (inside one shared output) at once. Every answer must be the one
// the same query gives when it is asked alone on a private copy - which the other sub-checks
// judge against the reference classifier. Schedule dependent: listed in FLAKY_SUBS.txt.
type ConcCase struct {
	Script     pbt.Hex `json:"script"`
	Goroutines int     `json:"goroutines"`
	Rounds     int     `json:"rounds"`
}

func answersOf(s *bscript.Script, out *bt.Output) map[string][]byte {
	a := map[string][]byte{}
	a["ScriptType"] = []byte(s.ScriptType())
	a["flags"] = []byte(fmt.Sprint(s.IsP2PKH(), s.IsP2PK(), s.IsP2SH(), s.IsData(), s.IsMultiSigOut(), s.IsP2PKHInscription(), s.IsInscribed()))
	asm, err := s.ToASM()
	a["ToASM"] = []byte(fmt.Sprint(asm, err))
	parts, err := bscript.DecodeParts(*s)
	a["DecodeParts"] = []byte(fmt.Sprintf("%x %v", parts, err))
	h, err := s.PublicKeyHash()
	a["PublicKeyHash"] = []byte(fmt.Sprintf("%x %v", h, err))
	ad, err := s.Addresses()
	a["Addresses"] = []byte(fmt.Sprint(strings.Join(ad, ","), err))
	ins, err := s.ParseInscription()
	if ins != nil {
		var pre []byte
		if ins.LockingScriptPrefix != nil {
			pre = *ins.LockingScriptPrefix
		}
		a["ParseInscription"] = []byte(fmt.Sprintf("%x %x %s %v", ins.Data, pre, ins.ContentType, err))
	} else {
		a["ParseInscription"] = []byte(fmt.Sprint(err))
	}
	js, err := json.Marshal(out.NodeJSON())
	a["NodeJSON"] = []byte(fmt.Sprint(string(js), err))
	return a
}

func checkConcurrent(ctx *pbt.Ctx, c ConcCase) error {
	if c.Goroutines < 2 || c.Goroutines > 16 || c.Rounds < 1 || c.Rounds > 300 {
		ctx.Discard("malformed case")
		return nil
	}
	private := bscript.NewFromBytes(append([]byte{}, c.Script...))
	want := answersOf(private, &bt.Output{Satoshis: 1, LockingScript: private})
	shared := bscript.NewFromBytes(ref.Canary(c.Script))
	out := &bt.Output{Satoshis: 1, LockingScript: shared}
	var calls []conc.Call
	for _, name := range []string{"ScriptType", "flags", "ToASM", "DecodeParts", "PublicKeyHash", "Addresses", "ParseInscription", "NodeJSON"} {
		name := name
		calls = append(calls, conc.Call{Name: name, F: func() ([]byte, error) { return answersOf(shared, out)[name], nil }, Want: want[name]})
	}
	if err := conc.Readers(calls, c.Goroutines, c.Rounds); err != nil {
		return fmt.Errorf("%v (script %x)", err, []byte(c.Script))
	}
	if !bytes.Equal(*shared, c.Script) || ref.CanaryDamaged(*shared) {
		return fmt.Errorf("the script changed while %d goroutines inspected it (script %x)", c.Goroutines, []byte(c.Script))
	}
	ctx.Label("type=" + string(want["ScriptType"]))
	ctx.NonTrivial()
	return nil
}

func TestConcurrent(t *testing.T) {
	pbt.Run(t, pbt.Sub[ConcCase]{
		Name: "concurrent", Quick: 1800, Thorough: 36000,
		Gen: func(t *rapid.T) ConcCase {
			_, s := gen.Template(t)
			if rapid.IntRange(0, 2).Draw(t, "mutate") == 0 {
				s = append(append([]byte{}, s...), gen.Bytes(t, rapid.IntRange(0, 3).Draw(t, "tail_n"), "tail")...)
			}
			return ConcCase{Script: s, Goroutines: rapid.SampledFrom([]int{2, 3, 4, 8}).Draw(t, "goroutines"), Rounds: rapid.SampledFrom([]int{5, 20, 60}).Draw(t, "rounds")}
		},
		Check: checkConcurrent,
	})
}
