package c14

import (
	"testing"

	"verif/harness/pbt"
)

// FuzzInspect is the coverage-guided target of the thorough tier: arbitrary script bytes through
// every inspection query with the oracle of the `random` sub-check.
func FuzzInspect(f *testing.F) {
	for _, s := range [][]byte{
		{}, {0x00}, {0x6a}, {0x00, 0x6a, 0x01, 0x02},
		{0x76, 0xa9, 0x14, 1, 2, 3, 4, 5, 6, 7, 8, 9, 10, 11, 12, 13, 14, 15, 16, 17, 18, 19, 20, 0x88, 0xac},
		{0xa9, 0x14, 1, 2, 3, 4, 5, 6, 7, 8, 9, 10, 11, 12, 13, 14, 15, 16, 17, 18, 19, 20, 0x87},
		append(append([]byte{0x21, 0x02}, make([]byte, 32)...), 0xac),
		append(append([]byte{0x51, 0x21, 0x03}, make([]byte, 32)...), 0x51, 0xae),
		{0x4c}, {0x4d, 0x01}, {0x4e, 0xff, 0xff, 0xff, 0xff}, {0x4c, 0x00, 0xac}, {0x51, 0x00, 0x51, 0xae},
		append([]byte{0x76, 0xa9, 0x14, 1, 2, 3, 4, 5, 6, 7, 8, 9, 10, 11, 12, 13, 14, 15, 16, 17, 18, 19, 20, 0x88, 0xac},
			0x00, 0x63, 0x03, 'o', 'r', 'd', 0x51, 0x04, 't', 'e', 'x', 't', 0x00, 0x02, 'h', 'i', 0x68),
	} {
		f.Add(s, uint8(0))
		f.Add(s, uint8(1))
	}
	f.Fuzz(func(t *testing.T, script []byte, in uint8) {
		if len(script) > 4096 {
			t.Skip()
		}
		pbt.FuzzCheck(t, "C14", "random", check, Case{How: "fuzz", In: int(in % 3), Script: script})
	})
}
