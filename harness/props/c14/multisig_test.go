package c14

// Round 5: the complete grid of bare multisig templates. OP_m <n keys> OP_n OP_CHECKMULTISIG
// for every n = 1..16, every m = 1..n and every split of compressed (33-byte, 02/03) and
// uncompressed (65-byte, 04) keys given as a bit mask: none, all, k uncompressed keys at
// the front / at the back / spread, for every k; generated cases draw arbitrary masks. The
// instances run from 37 bytes (1-of-1 compressed) to 1059 bytes (m-of-16 uncompressed), so
// every size in between that a standard template can have occurs. n = 17..20 (no small-int
// opcode exists: outside the template) and m = 0 / m > n (outside too) are included for the
// universal oracles only. The oracle is check(): every strict template instance must be
// reported as "multisig" by ScriptType AND by IsMultiSigOut AND in both node JSON renderings,
// and no other key-bearing predicate may contradict the reported type.

import (
	"fmt"
	"math/bits"
	"testing"

	"pgregory.net/rapid"

	"verif/harness/gen"
	"verif/harness/pbt"
	"verif/harness/ref"
)

// Multi describes one instance.
type Multi struct {
	N    int    `json:"n"`
	M    int    `json:"m"`
	Mask uint32 `json:"mask"` // bit i: key i is uncompressed
	In   int    `json:"in"`
	Salt byte   `json:"salt"`
}

func (c Multi) build() []byte {
	keys := make([][]byte, c.N)
	for i := range keys {
		if c.Mask>>uint(i)&1 == 1 {
			keys[i] = append([]byte{0x04}, fill(64, c.Salt+byte(i*5))...)
		} else {
			keys[i] = append([]byte{0x02 + byte(i+int(c.Salt))%2}, fill(32, c.Salt+byte(i*3))...)
		}
	}
	return gen.TplMultisig(c.M, keys)
}

func checkMulti(ctx *pbt.Ctx, c Multi) error {
	if c.N < 1 || c.N > 20 || c.M < 0 || c.M > 16 {
		return fmt.Errorf("harness: %d-of-%d outside the grid", c.M, c.N)
	}
	s := c.build()
	u := bits.OnesCount32(c.Mask & (1<<uint(c.N) - 1))
	ctx.Labelf("n=%d", c.N)
	switch {
	case u == 0:
		ctx.Label("keys: all compressed")
	case u == c.N:
		ctx.Label("keys: all uncompressed")
	default:
		ctx.Label("keys: mixed")
	}
	ctx.Labelf("size:%d..", len(s)/100*100)
	strict := ref.StrictTemplate(s) == ref.TplMultisig
	if want := c.N <= 16 && c.M >= 1 && c.M <= c.N; want != strict {
		return fmt.Errorf("harness: %d-of-%d (mask %x): strict template = %v", c.M, c.N, c.Mask, strict)
	}
	return check(ctx, Case{How: "multisig-grid", In: c.In, Script: s})
}

func multiMasks(n int) []uint32 {
	all := uint32(1)<<uint(n) - 1
	seen := map[uint32]bool{}
	var out []uint32
	add := func(m uint32) {
		m &= all
		if !seen[m] {
			seen[m] = true
			out = append(out, m)
		}
	}
	add(0)
	add(all)
	for k := 1; k < n; k++ {
		low := uint32(1)<<uint(k) - 1
		add(low)              // k uncompressed keys first
		add(low << uint(n-k)) // k uncompressed keys last
		add(all &^ low)       // k compressed keys first
		var spread uint32     // every other key, k of them
		for i, c := 0, 0; i < n && c < k; i += 2 {
			spread |= 1 << uint(i)
			c++
		}
		add(spread)
	}
	return out
}

func TestMultisigGrid(t *testing.T) {
	pbt.Run(t, pbt.Sub[Multi]{
		Name: "multisig-grid", Quick: 12000, Thorough: 300000,
		Gen: func(t *rapid.T) Multi {
			n := rapid.IntRange(1, 16).Draw(t, "n")
			if rapid.IntRange(0, 2).Draw(t, "max") == 0 {
				n = rapid.SampledFrom([]int{15, 16, 16, 16, 17, 20}).Draw(t, "n")
			}
			c := Multi{N: n, M: rapid.IntRange(1, min(n, 16)).Draw(t, "m"), In: rapid.IntRange(0, 2).Draw(t, "in"), Salt: rapid.Byte().Draw(t, "salt")}
			switch rapid.IntRange(0, 3).Draw(t, "mask_kind") {
			case 0:
				c.Mask = 1<<uint(n) - 1
			case 1:
				c.Mask = (1<<uint(n) - 1) &^ (1 << uint(rapid.IntRange(0, n-1).Draw(t, "one_compressed")))
			default:
				c.Mask = rapid.Uint32Range(0, 1<<uint(n)-1).Draw(t, "mask")
			}
			if rapid.IntRange(0, 15).Draw(t, "odd_m") == 0 {
				c.M = rapid.SampledFrom([]int{0, min(n+1, 16), 16}).Draw(t, "m")
			}
			return c
		},
		Check:    checkMulti,
		EnumDesc: "every n = 1..16 x every m = 1..n x key masks {all compressed, all uncompressed, k uncompressed keys first / last / on every other position, k compressed keys first; k = 1..n-1}; n = 17..20 with m = 1, 16 and m = 0, n+1 for n <= 15 (outside the template: universal oracles only); transaction shapes in rotation",
		Enum: func(tier string, yield func(Multi)) {
			i := 0
			y := func(n, m int, mask uint32) {
				yield(Multi{N: n, M: m, Mask: mask, In: i % 3, Salt: byte(i * 31)})
				i++
			}
			for n := 1; n <= 16; n++ {
				masks := multiMasks(n)
				for m := 1; m <= n; m++ {
					for _, mk := range masks {
						y(n, m, mk)
					}
				}
				if n <= 15 {
					y(n, 0, 0)
					y(n, n+1, 1<<uint(n)-1)
				}
			}
			for n := 17; n <= 20; n++ {
				for _, m := range []int{1, 16} {
					for _, mk := range []uint32{0, 1<<uint(n) - 1, 1, 1 << uint(n-1)} {
						y(n, m, mk)
					}
				}
			}
		},
	})
}
