package c14

// Round 6: multisig-SHAPED scripts whose announced numbers are independent of what is there:
// <OP_m> <k key pushes> <OP_n> OP_CHECKMULTISIG with m and n each 0..20 (0 = OP_0, 1..16 =
// OP_1..OP_16, 17..20 = the opcode values 0x61..0x64, which are no small-int opcodes), k = 0..5
// keys of 0 / 1 / 32 / 33 / 65 bytes (a 0-byte key is OP_0 or a zero-length PUSHDATA1/2/4). n may
// announce many more or fewer keys than present (OP_1 <key> OP_4 OP_CHECKMULTISIG ...). The
// oracle is check(): nothing may panic, only the instances the reference recognises as the
// strict template (k = n valid keys, 1 <= m <= n) must be "multisig" everywhere, type X =>
// predicate X, undecodable => not key-bearing, node JSON consistent. Optionally the last
// Drop bytes are missing.

import (
	"fmt"
	"testing"

	"pgregory.net/rapid"

	"verif/harness/gen"
	"verif/harness/pbt"
	"verif/harness/ref"
)

// Shape describes one script.
type Shape struct {
	M        int   `json:"m"`
	N        int   `json:"n"`
	Keys     []int `json:"keys"`      // key lengths
	ZeroForm int   `json:"zero_form"` // how a 0-byte key is pushed: index into gen.ZeroPushForms
	Drop     int   `json:"drop"`
	In       int   `json:"in"`
	Salt     byte  `json:"salt"`
}

func numOp(v int) byte {
	if v == 0 {
		return 0x00
	}
	return byte(0x50 + v)
}

func (c Shape) build() []byte {
	s := []byte{numOp(c.M)}
	for i, l := range c.Keys {
		if l == 0 {
			s = append(s, gen.ZeroPushForms[c.ZeroForm%len(gen.ZeroPushForms)]...)
			continue
		}
		k := fill(l, c.Salt+byte(i*7))
		switch l {
		case 33:
			k[0] = 0x02 + byte(i)%2
		case 65:
			k[0] = 0x04
		}
		s = append(s, ref.PushForm(k, 0)...)
	}
	s = append(s, numOp(c.N), 0xae)
	if c.Drop > 0 {
		s = s[:max(len(s)-c.Drop, 0)]
	}
	return s
}

func checkShape(ctx *pbt.Ctx, c Shape) error {
	if c.M < 0 || c.M > 20 || c.N < 0 || c.N > 20 || len(c.Keys) > 8 {
		return fmt.Errorf("harness: shape outside the grid")
	}
	ctx.Labelf("keys=%d", len(c.Keys))
	switch d := c.N - len(c.Keys); {
	case d >= 3:
		ctx.Label("n announces >= 3 more keys than present")
	case d > 0:
		ctx.Label("n announces 1..2 more keys than present")
	case d == 0:
		ctx.Label("n = keys present")
	default:
		ctx.Label("n announces fewer keys than present")
	}
	if c.M > c.N {
		ctx.Label("m > n")
	}
	if c.M == 0 || c.N == 0 {
		ctx.Label("m or n is OP_0")
	}
	if c.M > 16 || c.N > 16 {
		ctx.Label("m or n beyond OP_16")
	}
	return check(ctx, Case{How: "multisig-shape", In: c.In, Script: c.build()})
}

var shapeLens = []int{0, 1, 32, 33, 65}

func shapeKeySets(tier string) [][]int {
	out := [][]int{{}}
	for k := 1; k <= 5; k++ {
		for _, l := range shapeLens {
			ks := make([]int, k)
			for i := range ks {
				ks[i] = l
			}
			out = append(out, ks)
		}
	}
	out = append(out, []int{33, 65}, []int{65, 33}, []int{65, 0, 33}, []int{0, 33}, []int{33, 0}, []int{1, 32, 33, 65, 0}, []int{33, 33, 32}, []int{32, 65, 65, 33})
	if tier == "thorough" {
		// every combination of lengths for up to three keys
		for _, a := range shapeLens {
			for _, b := range shapeLens {
				out = append(out, []int{a, b})
				for _, c := range shapeLens {
					out = append(out, []int{a, b, c})
				}
			}
		}
	}
	return out
}

func TestMultisigShape(t *testing.T) {
	pbt.Run(t, pbt.Sub[Shape]{
		Name: "multisig-shape", Quick: 12000, Thorough: 300000,
		Gen: func(t *rapid.T) Shape {
			c := Shape{M: rapid.IntRange(0, 20).Draw(t, "m"), N: rapid.IntRange(0, 20).Draw(t, "n"), ZeroForm: rapid.IntRange(0, 3).Draw(t, "zero_form"),
				In: rapid.IntRange(0, 2).Draw(t, "in"), Salt: rapid.Byte().Draw(t, "salt")}
			k := rapid.IntRange(0, 5).Draw(t, "k")
			for i := 0; i < k; i++ {
				c.Keys = append(c.Keys, rapid.SampledFrom(shapeLens).Draw(t, "key_len"))
			}
			if rapid.IntRange(0, 5).Draw(t, "cut") == 0 {
				c.Drop = rapid.IntRange(1, 4).Draw(t, "drop")
			}
			return c
		},
		Check:    checkShape,
		EnumDesc: "m = 0..20 x n = 0..20 x key lists {none; 1..5 keys all of 0 / 1 / 32 / 33 / 65 bytes; 8 mixed lists; thorough: every combination of lengths for 2 and 3 keys} with the four zero-length push forms in rotation; the lists of 33/65-byte keys also with 1 and 2 bytes dropped from the end",
		Enum: func(tier string, yield func(Shape)) {
			i := 0
			for _, ks := range shapeKeySets(tier) {
				valid := len(ks) > 0
				for _, l := range ks {
					if l != 33 && l != 65 {
						valid = false
					}
				}
				for m := 0; m <= 20; m++ {
					for n := 0; n <= 20; n++ {
						yield(Shape{M: m, N: n, Keys: ks, ZeroForm: i, In: i % 3, Salt: byte(i * 41)})
						i++
						if valid && (n == len(ks) || n == len(ks)+3) && m <= 2 {
							yield(Shape{M: m, N: n, Keys: ks, Drop: 1, In: i % 3})
							yield(Shape{M: m, N: n, Keys: ks, Drop: 2, In: i % 3})
						}
					}
				}
			}
		},
	})
}
