package c14

// Round 4: a complete grid over push headers, run through every inspection entry point
// (check(): ScriptType and all Is* classifiers, PublicKeyHash, Addresses, ToASM,
// ParseInscription, DecodeParts, node JSON). Same axes as the push-header grid of C07:
// push opcode class x declared length at the edges of each length-field width (including
// the values within a few bytes of 2^8, 2^16, 2^31 and 2^32, where "offset + length" wraps
// in fixed-width arithmetic) x how much of the header and of the payload is really there
// x what precedes the push. The preceding context also covers the classifiers' own
// offsets: 76 a9 (PublicKeyHash decodes from offset 2), OP_1 (multisig shape), and a
// complete P2PKH + OP_FALSE OP_IF (inscription shape). The case stores the header and
// lengths, not the (up to 64 kB) script.

import (
	"fmt"
	"testing"

	"verif/harness/gen"
	"verif/harness/pbt"
)

// Grid is one cell.
type Grid struct {
	Ctx   string  `json:"ctx"` // nop0, nop1, nop2, nop5, nop9, dup-hash160, op1, p2pkh-if
	Hdr   pbt.Hex `json:"hdr"` // opcode + the length bytes that are present
	Avail int     `json:"avail"`
	Tail  pbt.Hex `json:"tail"` // appended after the payload (e.g. ac / 51 ae), may be swallowed by the push
	In    int     `json:"in"`
}

func (g Grid) build() ([]byte, error) {
	var s []byte
	switch g.Ctx {
	case "nop0", "nop1", "nop2", "nop5", "nop9":
		n := int(g.Ctx[3] - '0')
		for i := 0; i < n; i++ {
			s = append(s, 0x61)
		}
	case "dup-hash160":
		s = []byte{0x76, 0xa9}
	case "op1":
		s = []byte{0x51}
	case "p2pkh-if":
		s = append(gen.TplP2PKH(seq(20, 0x31, 3)), 0x00, 0x63)
	default:
		return nil, fmt.Errorf("harness: unknown context %q", g.Ctx)
	}
	s = append(s, g.Hdr...)
	for i := 0; i < g.Avail; i++ {
		s = append(s, byte(0x51+i%16)) // reads as OP_1..OP_16 if it is taken for code
	}
	return append(s, g.Tail...), nil
}

func checkGrid(ctx *pbt.Ctx, g Grid) error {
	s, err := g.build()
	if err != nil {
		return err
	}
	ctx.Label("ctx:" + g.Ctx)
	if len(g.Hdr) > 0 {
		ctx.Labelf("opcode:%02x", g.Hdr[0])
	}
	return check(ctx, Case{How: "header-grid", In: g.In, Script: s})
}

func gridCells(yield func(Grid)) {
	n := 0
	for _, cx := range []string{"nop0", "nop1", "nop2", "nop5", "nop9", "dup-hash160", "op1", "p2pkh-if"} {
		tails := []pbt.Hex{nil}
		switch cx {
		case "nop0":
			tails = append(tails, pbt.Hex{0xac})
		case "op1":
			tails = append(tails, pbt.Hex{0x51, 0xae})
		case "dup-hash160":
			tails = append(tails, pbt.Hex{0x88, 0xac})
		}
		emit := func(hdr []byte, l uint64, full bool) {
			avail := []int{0, 1, 3}
			if l <= 600 || (full && l <= 0x10000) {
				avail = append(avail, int(l), int(l)+1)
				if l > 0 {
					avail = append(avail, int(l)-1)
				}
			}
			for _, a := range avail {
				for _, tl := range tails {
					yield(Grid{Ctx: cx, Hdr: append(pbt.Hex{}, hdr...), Avail: a, Tail: tl, In: n % 3})
					n++
				}
			}
		}
		full := cx == "nop0" || cx == "nop9" || cx == "dup-hash160"
		for _, op := range []byte{0x01, 0x02, 0x4b} {
			emit([]byte{op}, uint64(op), full)
		}
		for _, l := range []uint64{0, 1, 0x4b, 0x4c, 0x7f, 0x80, 0xfe, 0xff} {
			emit([]byte{0x4c, byte(l)}, l, full)
		}
		yield(Grid{Ctx: cx, Hdr: pbt.Hex{0x4c}, In: n % 3})
		l16 := []uint64{0, 1, 0xff, 0x100, 0x208, 0x209, 0x7fff, 0x8000}
		for k := uint64(0); k <= 14; k++ {
			l16 = append(l16, 0xffff-k)
		}
		for _, l := range l16 {
			emit([]byte{0x4d, byte(l), byte(l >> 8)}, l, full)
		}
		for h := 0; h < 2; h++ {
			yield(Grid{Ctx: cx, Hdr: append(pbt.Hex{0x4d}, []byte{0xff, 0xff}[:h]...), In: (n + h) % 3})
		}
		l32 := []uint64{0, 1, 0xffff, 0x10000, 0x7ffffffe, 0x7fffffff, 0x80000000, 0x80000001}
		for k := uint64(0); k <= 20; k++ {
			l32 = append(l32, 0xffffffff-k)
		}
		for _, l := range l32 {
			emit([]byte{0x4e, byte(l), byte(l >> 8), byte(l >> 16), byte(l >> 24)}, l, full)
		}
		for h := 0; h < 4; h++ {
			yield(Grid{Ctx: cx, Hdr: append(pbt.Hex{0x4e}, []byte{0xff, 0xff, 0xff, 0xff}[:h]...), In: (n + h) % 3})
		}
	}
}

func TestHeaderGrid(t *testing.T) {
	pbt.Run(t, pbt.Sub[Grid]{
		Name:     "header-grid",
		EnumDesc: "push opcodes 01/02/4b/4c/4d/4e x declared lengths at the edges of each width (0, 1, 0x4b/0x4c, 0x7f/0x80, 0xfe/0xff, 0x100, 0x208/0x209, 0x7fff/0x8000, 0xffff-k k<=14, 0x10000, 0x7ffffffe..0x80000001, 0xffffffff-k k<=20) x payload really present (0, 1, 3, L-1, L, L+1 bytes; the complete ones for L > 600 in three contexts) x truncated length fields x preceded by 0/1/2/5/9 OP_NOPs, by 76 a9, by OP_1, by a complete P2PKH + OP_FALSE OP_IF x followed by nothing / ac / 51 ae / 88 ac x the three transaction shapes in rotation",
		Enum:     func(tier string, yield func(Grid)) { gridCells(yield) },
		Check:    checkGrid,
	})
}
