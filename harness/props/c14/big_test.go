package c14

// Round 4: template instances whose pushes sit on the push-form boundaries (75/76,
// 255/256, 65535/65536 bytes) - far beyond the 120-byte strings of "random" and the
// <= 400-byte payloads of "templates". The case stores lengths, not bytes (small replay
// files); the content type, the data and the tail cross their boundaries independently.
// Each instance is inspected whole (it must report its template type and, for an
// inscription, parse back to exactly its content type and data), with its data push
// re-encoded in a wider PUSHDATA form, and with 1.. bytes dropped from the end (an
// undecodable script: never key-bearing, assembly flagged). The oracle is check().

import (
	"fmt"
	"testing"

	"pgregory.net/rapid"

	"verif/harness/gen"
	"verif/harness/pbt"
	"verif/harness/ref"
)

// Big describes one instance.
type Big struct {
	// Kind: inscription (CtLen, DataLen; TailLen > 0 adds 6a <push TailLen>), data / false-data
	// (6a / 00 6a, pushes of DataLen and, if > 0, TailLen bytes), p2pkh-tail (the 25-byte
	// template followed by a push of DataLen bytes - not P2PKH any more), multisig (CtLen = m,
	// DataLen = n keys, every third key uncompressed).
	Kind    string `json:"kind"`
	CtLen   int    `json:"ct_len"`
	DataLen int    `json:"data_len"`
	TailLen int    `json:"tail_len"`
	Widen   int    `json:"widen"` // 0 = shortest form; 1 / 2 / 4 = the data push as PUSHDATA1/2/4 (if wide enough)
	Drop    int    `json:"drop"`  // bytes removed from the end
	In      int    `json:"in"`
	Salt    byte   `json:"salt"`
}

func fill(n int, salt byte) []byte {
	b := make([]byte, n)
	for i := range b {
		b[i] = salt + byte(i*11) + byte(i>>8)
	}
	if n > 0 && (b[0] == 0xac || b[0] == 0xae) {
		b[0] = 0x21 // keeps the data template unambiguous (see ref.StrictTemplate)
	}
	return b
}

func (c Big) build() ([]byte, error) {
	hash := fill(20, c.Salt^0x5a)
	push := func(d []byte) []byte {
		form := 0
		switch {
		case c.Widen == 1 && len(d) <= 0xff, c.Widen == 2 && len(d) <= 0xffff, c.Widen == 4:
			form = c.Widen
		}
		return ref.PushForm(d, form)
	}
	var s []byte
	switch c.Kind {
	case "inscription":
		if c.CtLen < 1 || c.DataLen < 1 {
			return nil, fmt.Errorf("harness: empty inscription field")
		}
		s = gen.TplP2PKH(hash)
		s = append(s, 0x00, 0x63, 0x03, 'o', 'r', 'd', 0x51)
		s = append(s, ref.PushForm(fill(c.CtLen, c.Salt+1), 0)...)
		s = append(s, 0x00)
		s = append(s, push(fill(c.DataLen, c.Salt))...)
		s = append(s, 0x68)
		if c.TailLen > 0 {
			s = append(s, 0x6a)
			s = append(s, ref.PushForm(fill(c.TailLen, c.Salt+2), 0)...)
		}
	case "data", "false-data":
		if c.Kind == "false-data" {
			s = append(s, 0x00)
		}
		s = append(s, 0x6a)
		s = append(s, push(fill(c.DataLen, c.Salt))...)
		if c.TailLen > 0 {
			s = append(s, ref.PushForm(fill(c.TailLen, c.Salt+2), 0)...)
		}
	case "p2pkh-tail":
		s = append(gen.TplP2PKH(hash), push(fill(c.DataLen, c.Salt))...)
	case "multisig":
		keys := make([][]byte, c.DataLen)
		for i := range keys {
			if i%3 == 2 {
				keys[i] = append([]byte{0x04}, fill(64, c.Salt+byte(i))...)
			} else {
				keys[i] = append([]byte{0x02 + byte(i%2)}, fill(32, c.Salt+byte(i))...)
			}
		}
		s = gen.TplMultisig(c.CtLen, keys)
	default:
		return nil, fmt.Errorf("harness: unknown kind %q", c.Kind)
	}
	if c.Drop > 0 {
		s = s[:max(len(s)-c.Drop, 0)]
	}
	return s, nil
}

func bigClass(n int) string {
	switch {
	case n < 75:
		return "<75"
	case n <= 76:
		return fmt.Sprint(n)
	case n < 255:
		return "77..254"
	case n <= 256:
		return fmt.Sprint(n)
	case n < 65535:
		return "257..65534"
	case n <= 65536:
		return fmt.Sprint(n)
	case n < 1<<20:
		return "65537..2^20-1"
	}
	return ">=2^20"
}

func checkBig(ctx *pbt.Ctx, c Big) error {
	s, err := c.build()
	if err != nil {
		return err
	}
	how := "big:" + c.Kind
	switch {
	case c.Drop > 0:
		how += " cut"
	case c.Widen > 0:
		how += " widened"
	}
	if c.Kind != "multisig" {
		ctx.Label("data:" + bigClass(c.DataLen))
		if c.TailLen > 0 {
			ctx.Label("tail:" + bigClass(c.TailLen))
		}
		if c.Kind == "inscription" {
			ctx.Label("ctype:" + bigClass(c.CtLen))
		}
	} else {
		ctx.Labelf("multisig n=%d", c.DataLen)
	}
	return check(ctx, Case{How: how, In: c.In, Script: s})
}

var bigLens = []int{75, 76, 255, 256, 65535, 65536}

func TestBig(t *testing.T) {
	pbt.Run(t, pbt.Sub[Big]{
		Name: "big", Quick: 4800, Thorough: 60000,
		Gen: func(t *rapid.T) Big {
			c := Big{
				Kind: rapid.SampledFrom([]string{"inscription", "inscription", "data", "false-data", "p2pkh-tail", "multisig"}).Draw(t, "kind"),
				In:   rapid.IntRange(0, 2).Draw(t, "in"),
				Salt: rapid.Byte().Draw(t, "salt"),
			}
			ln := func(label string, allowBig bool) int {
				n := rapid.SampledFrom([]int{1, 2, 74, 75, 76, 77, 254, 255, 256, 257}).Draw(t, label)
				if allowBig && rapid.IntRange(0, 7).Draw(t, label+"_big") == 3 {
					n = rapid.SampledFrom([]int{65534, 65535, 65536, 65537}).Draw(t, label)
				}
				return n
			}
			if c.Kind == "multisig" {
				c.DataLen = rapid.SampledFrom([]int{1, 2, 3, 15, 16, 16, 17, 20}).Draw(t, "n")
				c.CtLen = rapid.IntRange(1, min(c.DataLen, 16)).Draw(t, "m")
			} else {
				c.DataLen = ln("data_len", true)
				c.CtLen = ln("ct_len", false)
				if rapid.IntRange(0, 1).Draw(t, "tail") == 1 {
					c.TailLen = ln("tail_len", c.DataLen < 60000)
				}
				if rapid.IntRange(0, 3).Draw(t, "widen") == 0 {
					c.Widen = rapid.SampledFrom([]int{1, 2, 4}).Draw(t, "form")
				}
			}
			if rapid.IntRange(0, 2).Draw(t, "cut") == 0 {
				c.Drop = rapid.SampledFrom([]int{1, 2, 3, 4, 5, 6, c.DataLen, c.DataLen + 1, c.DataLen + 2, c.DataLen + 3, c.DataLen + 5, c.TailLen + 1}).Draw(t, "drop")
			}
			return c
		},
		Check:    checkBig,
		EnumDesc: "inscription / OP_RETURN data / OP_FALSE OP_RETURN data / P2PKH+push with the data push of 75, 76, 255, 256, 65535, 65536 bytes x content type of 1, 75, 76 bytes (inscription) x tail push none / 76 / 65536 bytes x {whole, data push in each wider form, 1, 2, 3, 5 bytes dropped, cut inside the data push header}; the largest instances: data push of 2^17, 2^20-1, 2^20, 2^22 (quick: 2^17 and 2^20 without tail, 2^22 for one inscription only) bytes x content type 1 / 76 / 65536 x tail none / 65536, whole and one byte short; bare multisig with n = 1, 15, 16, 17, 20 keys and m = 1, n",
		Enum: func(tier string, yield func(Big)) {
			i := 0
			y := func(c Big) {
				c.In = i % 3
				c.Salt = byte(i * 37)
				i++
				yield(c)
			}
			for _, kind := range []string{"inscription", "data", "false-data", "p2pkh-tail"} {
				cts := []int{1}
				if kind == "inscription" {
					cts = []int{1, 75, 76}
				}
				for _, dl := range bigLens {
					for _, ct := range cts {
						for _, tl := range []int{0, 76, 65536} {
							if kind == "p2pkh-tail" && tl > 0 {
								continue
							}
							if dl > 60000 && tl > 60000 && ct != 1 {
								continue
							}
							base := Big{Kind: kind, CtLen: ct, DataLen: dl, TailLen: tl}
							y(base)
							for _, w := range []int{1, 2, 4} {
								b := base
								b.Widen = w
								y(b)
							}
							tailBytes := 0
							if tl > 0 {
								tailBytes = len(ref.PushForm(make([]byte, tl), 0))
								if kind == "inscription" {
									tailBytes++
								}
							}
							for _, d := range []int{1, 2, 3, 5, tailBytes + 1, tailBytes + 2, tailBytes + dl, tailBytes + dl + 2, tailBytes + dl + 3} {
								b := base
								b.Drop = d
								y(b)
							}
						}
					}
				}
			}
			// round 5: the largest instances - no element size limit exists after genesis
			for _, kind := range []string{"inscription", "data", "false-data"} {
				for _, dl := range []int{1 << 17, 1<<20 - 1, 1 << 20, 1 << 22} {
					for _, ct := range []int{1, 76, 65536} {
						if kind != "inscription" && ct != 1 {
							continue
						}
						for _, tl := range []int{0, 65536} {
							if tier != "thorough" && (dl == 1<<20-1 || (dl >= 1<<20 && tl > 0)) {
								continue
							}
							if dl > 1<<20 && (tl > 0 || ct == 76 || (tier != "thorough" && (kind != "inscription" || ct != 1))) {
								continue
							}
							base := Big{Kind: kind, CtLen: ct, DataLen: dl, TailLen: tl}
							y(base)
							b := base
							b.Drop = 1
							y(b)
						}
					}
				}
			}
			for _, n := range []int{1, 15, 16, 17, 20} {
				for _, m := range []int{1, min(n, 16)} {
					y(Big{Kind: "multisig", CtLen: m, DataLen: n})
					y(Big{Kind: "multisig", CtLen: m, DataLen: n, Drop: 1})
					y(Big{Kind: "multisig", CtLen: m, DataLen: n, Drop: 2})
				}
			}
		},
	})
}
