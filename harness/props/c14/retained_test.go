package c14

// Round 4: retained results. 2..6 DIFFERENT scripts are inspected one after the other (each
// is its own object, each sits in its own transaction); everything the queries handed out
// - type, public key hash, address list, assembly, parsed inscription (prefix, content
// type, data), decoded parts, node JSON bytes - is kept and compared with the reference
// only after the last script has been inspected. Then (optionally) the caller overwrites
// the byte slices and address lists some queries returned; the results for the other
// scripts must be unaffected and every query repeated on fresh copies must again be right.
//
// Reference values are claimed exactly where check() claims them: strict template
// instances report their type; the 25-byte P2PKH template yields bytes 3..23 and exactly
// one address (here compared with the independent Base58Check reference of C15, mainnet
// version 00); an inscription template parses back to its prefix, content type and data;
// the assembly ends in [error] exactly for undecodable scripts; decodable scripts decode
// into the reference reader's parts; the node JSON carries hex, type and asm.

import (
	"bytes"
	"encoding/hex"
	"encoding/json"
	"fmt"
	"strings"
	"testing"

	"github.com/libsv/go-bt/v2"
	"github.com/libsv/go-bt/v2/bscript"
	"pgregory.net/rapid"

	"verif/harness/gen"
	"verif/harness/pbt"
	"verif/harness/ref"
)

// Retained is a list of scripts; bit i of Scribble = the caller overwrites what the
// queries on script i returned.
type Retained struct {
	Scripts  []pbt.Hex `json:"scripts"`
	Scribble uint      `json:"scribble"`
}

type held struct {
	script []byte // pristine
	typ    string
	pkh    []byte
	pkhErr error
	addrs  []string
	adrErr error
	asm    string
	insc   *bscript.InscriptionArgs
	incErr error
	parts  [][]byte
	prtErr error
	node   []byte
	out    []byte
	tx     *bt.Tx
}

func ask(script []byte) (*held, error) {
	h := &held{script: append([]byte(nil), script...)}
	s := bscript.NewFromBytes(append([]byte(nil), script...))
	h.typ = s.ScriptType()
	h.pkh, h.pkhErr = s.PublicKeyHash()
	h.addrs, h.adrErr = s.Addresses()
	var err error
	if h.asm, err = s.ToASM(); err != nil {
		return nil, fmt.Errorf("ToASM(%s): %v", short(script), err)
	}
	h.insc, h.incErr = s.ParseInscription()
	h.parts, h.prtErr = bscript.DecodeParts(*s)
	if h.tx, err = buildTx(1, s, nil); err != nil {
		return nil, err
	}
	if h.node, err = json.Marshal(h.tx.NodeJSON()); err != nil {
		h.node = nil
	}
	if h.out, err = json.Marshal(h.tx.Outputs[0].NodeJSON()); err != nil {
		h.out = nil
	}
	return h, nil
}

func (h *held) verify(i int, when string) error {
	script := h.script
	fail := func(f string, a ...any) error {
		return fmt.Errorf("script %d (%s) %s: %s", i, short(script), when, fmt.Sprintf(f, a...))
	}
	toks, decodable, _ := ref.Tokenize(script)
	tpl := ref.StrictTemplate(script)
	want := map[string]string{ref.TplP2PKH: bscript.ScriptTypePubKeyHash, ref.TplP2PK: bscript.ScriptTypePubKey, ref.TplMultisig: bscript.ScriptTypeMultiSig,
		ref.TplData: bscript.ScriptTypeNullData, ref.TplInscription: bscript.ScriptTypePubKeyHashInscription}[tpl]
	if want != "" && h.typ != want {
		return fail("type %q, template %s", h.typ, tpl)
	}
	if (h.typ == bscript.ScriptTypePubKeyHash) != ref.IsP2PKHBytes(script) {
		return fail("type %q, 25-byte P2PKH template match = %v", h.typ, ref.IsP2PKHBytes(script))
	}
	if ref.IsP2PKHBytes(script) {
		if h.pkhErr != nil || !bytes.Equal(h.pkh, script[3:23]) {
			return fail("public key hash result reads %x (%v), the template carries %x", h.pkh, h.pkhErr, script[3:23])
		}
		if addr := ref.B58CheckEncode(0x00, script[3:23]); h.adrErr != nil || len(h.addrs) != 1 || h.addrs[0] != addr {
			return fail("address list reads %v (%v), the template's address is %s", h.addrs, h.adrErr, addr)
		}
	}
	if tpl == ref.TplInscription {
		if h.incErr != nil || h.insc == nil || h.insc.LockingScriptPrefix == nil {
			return fail("ParseInscription failed on the inscription template: %v", h.incErr)
		}
		if !bytes.Equal(*h.insc.LockingScriptPrefix, script[:25]) || h.insc.ContentType != string(toks[9].Data) || !bytes.Equal(h.insc.Data, toks[11].Data) {
			return fail("parsed inscription reads {prefix %x, type %q, data %s}; the template carries {%x, %q, %s}",
				[]byte(*h.insc.LockingScriptPrefix), h.insc.ContentType, short(h.insc.Data), script[:25], toks[9].Data, short(toks[11].Data))
		}
	}
	if len(script) > 0 && strings.HasSuffix(h.asm, "[error]") != !decodable {
		return fail("assembly %q; decodable = %v", short([]byte(h.asm)), decodable)
	}
	if decodable {
		if h.prtErr != nil || len(h.parts) != len(toks) {
			return fail("DecodeParts: %d parts (%v), the reference reader sees %d instructions", len(h.parts), h.prtErr, len(toks))
		}
		for k, t := range toks {
			w := t.Data
			if !t.IsPush {
				w = []byte{t.Op}
			}
			if !bytes.Equal(h.parts[k], w) {
				return fail("decoded part %d reads %s; the reference reader reads %s at offset %d", k, short(h.parts[k]), short(w), t.Start)
			}
		}
	} else if h.prtErr == nil {
		return fail("DecodeParts accepted the undecodable script")
	}
	if h.node != nil {
		var nt nodeTx
		if err := json.Unmarshal(h.node, &nt); err != nil || len(nt.Vout) != 1 || nt.Vout[0].ScriptPubKey == nil {
			return fail("node JSON %s: %v", short(h.node), err)
		}
		if sp := nt.Vout[0].ScriptPubKey; sp.Hex != hex.EncodeToString(script) || sp.Type != h.typ || sp.Asm != h.asm {
			return fail("node JSON scriptPubKey {hex %q type %q asm %q}; direct answers: type %q asm %q", sp.Hex, sp.Type, short([]byte(sp.Asm)), h.typ, short([]byte(h.asm)))
		}
	}
	if h.out != nil {
		var no nodeOut
		if err := json.Unmarshal(h.out, &no); err != nil || no.ScriptPubKey == nil || no.ScriptPubKey.Hex != hex.EncodeToString(script) || no.ScriptPubKey.Type != h.typ {
			return fail("output node JSON %s: %v", short(h.out), err)
		}
	}
	return nil
}

func invert(b []byte) {
	for i := range b {
		b[i] = ^b[i]
	}
}

// scribble: the caller treats everything the queries returned as its own.
func (h *held) scribble() {
	invert(h.pkh)
	for i := range h.addrs {
		h.addrs[i] = "overwritten by the caller"
	}
	if h.insc != nil {
		if h.insc.LockingScriptPrefix != nil {
			invert(*h.insc.LockingScriptPrefix)
		}
		invert(h.insc.Data)
		h.insc.ContentType = "overwritten by the caller"
		h.insc.LockingScriptPrefix = nil
	}
	for _, p := range h.parts {
		invert(p)
	}
	invert(h.node)
	invert(h.out)
}

func checkRetained(ctx *pbt.Ctx, c Retained) error {
	if len(c.Scripts) < 2 {
		return fmt.Errorf("harness: fewer than two scripts")
	}
	hs := make([]*held, len(c.Scripts))
	var key [][]byte
	seen := map[string]int{}
	for i, sc := range c.Scripts {
		h, err := ask(sc)
		if err != nil {
			return err
		}
		hs[i] = h
		key = append(key, sc)
		seen[classOf(sc)]++
	}
	ctx.Key(key...)
	ctx.Labelf("scripts=%d", len(hs))
	nt := false
	for _, k := range []string{ref.TplP2PKH, ref.TplInscription, ref.TplData, ref.TplMultisig, ref.TplP2PK, ref.TplP2SH, "other", "undecodable"} {
		if seen[k] > 0 {
			ctx.Label("has:" + k)
		}
		if seen[k] >= 2 {
			ctx.Label("twice:" + k)
			nt = true
		}
	}
	if nt {
		ctx.NonTrivial()
	}
	for i, h := range hs {
		if err := h.verify(i, fmt.Sprintf("after all %d scripts were inspected", len(hs))); err != nil {
			return err
		}
	}
	// the list entry point: all transactions in one bt.Txs
	txs := make(bt.Txs, len(hs))
	for i, h := range hs {
		txs[i] = h.tx
	}
	if lb, err := json.Marshal(txs.NodeJSON()); err == nil {
		var list []nodeTx
		if err := json.Unmarshal(lb, &list); err != nil || len(list) != len(hs) {
			return fmt.Errorf("node JSON of the %d transactions as a list: %s (%v)", len(hs), short(lb), err)
		}
		for i, nt := range list {
			if len(nt.Vout) != 1 || nt.Vout[0].ScriptPubKey == nil || nt.Vout[0].ScriptPubKey.Hex != hex.EncodeToString(hs[i].script) ||
				nt.Vout[0].ScriptPubKey.Type != hs[i].typ || nt.Vout[0].ScriptPubKey.Asm != hs[i].asm {
				return fmt.Errorf("element %d of the list node JSON disagrees with script %s (type %q)", i, short(hs[i].script), hs[i].typ)
			}
		}
	}
	if c.Scribble == 0 {
		ctx.Label("no caller writes")
		return nil
	}
	ctx.Label("caller overwrites returned values")
	for i, h := range hs {
		if c.Scribble>>uint(i)&1 == 1 {
			h.scribble()
		}
	}
	for i, h := range hs {
		if c.Scribble>>uint(i)&1 == 0 {
			if err := h.verify(i, "after the caller overwrote what the queries on other scripts returned"); err != nil {
				return err
			}
		}
	}
	again := make([]*held, len(hs))
	for i, sc := range c.Scripts {
		h, err := ask(sc)
		if err != nil {
			return err
		}
		again[i] = h
		if err := h.verify(i, "inspected again after the caller overwrote returned values"); err != nil {
			return err
		}
	}
	for i, h := range again {
		if err := h.verify(i, "inspected again, compared after all repeated inspections"); err != nil {
			return err
		}
	}
	return nil
}

func genRetained(t *rapid.T) Retained {
	n := rapid.IntRange(2, 6).Draw(t, "n")
	focus := rapid.SampledFrom([]string{"p2pkh", "inscription", "any", "any"}).Draw(t, "focus")
	c := Retained{}
	for i := 0; i < n; i++ {
		var s []byte
		k := focus
		if rapid.IntRange(0, 2).Draw(t, "other") == 0 {
			k = "any"
		}
		switch k {
		case "p2pkh":
			s = gen.TplP2PKH(gen.Bytes(t, 20, "hash"))
		case "inscription":
			dl := gen.EdgeLen(t, 300, "data_len", 1, 2, 75, 76, 255, 256)
			if dl == 0 {
				dl = 1
			}
			ct := rapid.SampledFrom([]string{"text/plain;charset=utf-8", "image/png", "a", "application/json"}).Draw(t, "ctype")
			s = gen.TplInscription(gen.Bytes(t, 20, "hash"), []byte(ct), gen.FillBytes(t, dl, "data"), nil)
		default:
			tc := genTemplateCase(t)
			if rapid.IntRange(0, 3).Draw(t, "random") == 0 {
				tc = genRandom(t)
			}
			s = tc.Script
		}
		c.Scripts = append(c.Scripts, s)
	}
	if rapid.IntRange(0, 1).Draw(t, "scribble") == 1 {
		c.Scribble = uint(rapid.IntRange(1, 1<<uint(n)-1).Draw(t, "mask"))
	}
	return c
}

func TestRetained(t *testing.T) {
	pbt.Run(t, pbt.Sub[Retained]{
		Name: "retained", Quick: 24000, Thorough: 500000,
		Gen: genRetained, Check: checkRetained,
		EnumDesc: "all ordered pairs and (first, second, first-again) triples of the 12 fixed template instances plus a second P2PKH and a second inscription, without and with the caller overwriting what the first inspection returned",
		Enum: func(tier string, yield func(Retained)) {
			tpls := fixedTemplates()
			h2 := seq(20, 0xc0, 5)
			tpls = append(tpls, gen.TplP2PKH(h2), gen.TplInscription(h2, []byte("image/gif"), seq(77, 0x10, 3), nil))
			for _, a := range tpls {
				for _, b := range tpls {
					for _, scr := range []uint{0, 1} {
						yield(Retained{Scripts: []pbt.Hex{a, b}, Scribble: scr})
						yield(Retained{Scripts: []pbt.Hex{a, b, a}, Scribble: scr})
					}
				}
			}
		},
	})
}
