package c14

// Round 4: histories. ONE *bscript.Script object sits in output 0 of ONE transaction (and,
// for In == 2, is also the unlocking script of its input). It is inspected, edited (a byte
// overwritten in place, cut, Append*, contents replaced inside the same backing array or by
// a new one), inspected again ... After every step the complete oracle of check() is applied
// to the object as it stands: every query returns, the classification is the one the
// reference decides for the CURRENT bytes, and the node JSON of the long-lived transaction
// (single, and as an element of a bt.Txs list) carries the current hex / type / asm.

import (
	"bytes"
	"encoding/hex"
	"encoding/json"
	"fmt"
	"testing"

	"github.com/libsv/go-bt/v2"
	"github.com/libsv/go-bt/v2/bscript"
	"pgregory.net/rapid"

	"verif/harness/gen"
	"verif/harness/pbt"
	"verif/harness/ref"
)

// HStep is one edit.
type HStep struct {
	// Op: set (one byte in place), cut (shorten), push (AppendPushData), push-hex
	// (AppendPushDataHexString), ops (AppendOpcodes, non-push opcodes only), replace (new
	// contents written into the same backing array), assign (new contents in a new array),
	// overwrite (round 8: new contents of the SAME length copied over the bytes - same slice,
	// same length, the way a caller reuses one script buffer), none (inspect again).
	Op    string  `json:"op"`
	Pos   int     `json:"pos,omitempty"`
	Val   byte    `json:"val,omitempty"`
	Bytes pbt.Hex `json:"bytes,omitempty"` // push: the data; ops: the opcodes; replace/assign: the new contents
}

// History is the initial script, the transaction shape and the edits.
type History struct {
	In    int     `json:"in"`
	Init  pbt.Hex `json:"init"`
	Steps []HStep `json:"steps"`
}

// applyModel applies the edit to the model bytes by the reference encodings.
func applyModel(model []byte, st HStep) ([]byte, error) {
	switch st.Op {
	case "set":
		if len(model) > 0 {
			model[st.Pos%len(model)] = st.Val
		}
	case "cut":
		model = model[:st.Pos%(len(model)+1)]
	case "push", "push-hex":
		model = append(model, ref.PushForm(st.Bytes, 0)...)
	case "ops":
		for _, o := range st.Bytes {
			if o >= 0x01 && o <= 0x4e {
				return nil, fmt.Errorf("harness: push opcode %02x given to AppendOpcodes", o)
			}
		}
		model = append(model, st.Bytes...)
	case "replace", "assign":
		model = append([]byte(nil), st.Bytes...)
	case "overwrite":
		if len(st.Bytes) != len(model) {
			return nil, fmt.Errorf("harness: overwrite with %d bytes over %d", len(st.Bytes), len(model))
		}
		copy(model, st.Bytes)
	case "none":
	default:
		return nil, fmt.Errorf("harness: unknown op %q", st.Op)
	}
	return model, nil
}

func applyLib(s *bscript.Script, st HStep) error {
	switch st.Op {
	case "set":
		if len(*s) > 0 {
			(*s)[st.Pos%len(*s)] = st.Val
		}
	case "cut":
		*s = (*s)[:st.Pos%(len(*s)+1)]
	case "push":
		return s.AppendPushData(append([]byte(nil), st.Bytes...))
	case "push-hex":
		return s.AppendPushDataHexString(hex.EncodeToString(st.Bytes))
	case "ops":
		return s.AppendOpcodes(append([]byte(nil), st.Bytes...)...)
	case "replace":
		*s = append((*s)[:0], st.Bytes...)
	case "assign":
		*s = append(bscript.Script(nil), st.Bytes...)
	case "overwrite":
		copy(*s, st.Bytes)
	}
	return nil
}

func classOf(script []byte) string {
	if tpl := ref.StrictTemplate(script); tpl != ref.TplNone {
		return tpl
	}
	if _, ok, _ := ref.Tokenize(script); !ok {
		return "undecodable"
	}
	return "other"
}

func checkHistory(ctx *pbt.Ctx, c History) error {
	if len(c.Steps) < 1 {
		return fmt.Errorf("harness: no steps")
	}
	model := append([]byte(nil), c.Init...)
	s := bscript.NewFromBytes(append([]byte(nil), model...))
	tx, err := buildTx(c.In, s, s)
	if err != nil {
		return err
	}
	key := [][]byte{model, {byte(c.In)}}
	look := func(at int, why string) error {
		a, err := inspect(ctx, s, model, "")
		if err != nil {
			return fmt.Errorf("after step %d (%s): %v", at, why, err)
		}
		if err := checkNodeJSON(ctx, tx, model, c.In, a); err != nil {
			return fmt.Errorf("after step %d (%s): %v", at, why, err)
		}
		// the answers are functions of the bytes: a fresh object holding the same bytes must say the same
		f := bscript.NewFromBytes(append([]byte(nil), model...))
		fasm, _ := f.ToASM()
		fpkh, _ := f.PublicKeyHash()
		fadr, _ := f.Addresses()
		if ft := f.ScriptType(); ft != a.typ || fasm != a.asm || !bytes.Equal(fpkh, a.pkh) || fmt.Sprint(fadr) != fmt.Sprint(a.addrs) {
			return fmt.Errorf("after step %d (%s): the long-lived object %s answers type %q asm %q pkh %x addresses %v; a fresh object with the same bytes answers type %q asm %q pkh %x addresses %v",
				at, why, short(model), a.typ, short([]byte(a.asm)), a.pkh, a.addrs, ft, short([]byte(fasm)), fpkh, fadr)
		}
		// the list entry point must print the same transaction twice (first and last look only)
		if at != 0 && at != len(c.Steps) {
			return nil
		}
		txs := bt.Txs{tx, tx}
		lb, lerr := json.Marshal(txs.NodeJSON())
		if lerr != nil {
			ctx.Label("list node JSON: error")
		} else {
			var list []nodeTx
			if err := json.Unmarshal(lb, &list); err != nil || len(list) != 2 {
				return fmt.Errorf("after step %d (%s): node JSON of a two-element list is %s (%v)", at, why, short(lb), err)
			}
			for i, nt := range list {
				if len(nt.Vout) != 1 || nt.Vout[0].ScriptPubKey == nil || nt.Vout[0].ScriptPubKey.Hex != hex.EncodeToString(model) ||
					nt.Vout[0].ScriptPubKey.Type != a.typ || (a.asmErr == nil && nt.Vout[0].ScriptPubKey.Asm != a.asm) {
					return fmt.Errorf("after step %d (%s): element %d of the list node JSON disagrees with the script %s (type %q): %s", at, why, i, short(model), a.typ, short(lb))
				}
			}
		}
		return nil
	}
	if err := look(0, "initial"); err != nil {
		return err
	}
	cls := classOf(model)
	ctx.Label("start:" + cls)
	for i, st := range c.Steps {
		if model, err = applyModel(model, st); err != nil {
			return err
		}
		if err := applyLib(s, st); err != nil {
			return fmt.Errorf("step %d (%s) failed: %v", i+1, st.Op, err)
		}
		ctx.Label("edit:" + st.Op)
		key = append(key, []byte(st.Op), model)
		if err := look(i+1, st.Op); err != nil {
			return err
		}
		if nc := classOf(model); nc != cls {
			ctx.Label("transition:" + cls + "->" + nc)
			cls = nc
		}
	}
	ctx.Key(key...)
	ctx.Labelf("steps=%d", min(len(c.Steps), 9))
	return nil
}

// growInscription returns the edits that turn a P2PKH script into a P2PKH inscription.
func growInscription(ctype, data []byte) []HStep {
	return []HStep{
		{Op: "ops", Bytes: pbt.Hex{0x00, 0x63}},
		{Op: "push", Bytes: pbt.Hex("ord")},
		{Op: "ops", Bytes: pbt.Hex{0x51}},
		{Op: "push-hex", Bytes: ctype},
		{Op: "ops", Bytes: pbt.Hex{0x00}},
		{Op: "push", Bytes: data},
		{Op: "ops", Bytes: pbt.Hex{0x68}},
	}
}

func genHistory(t *rapid.T) History {
	c := History{In: rapid.IntRange(0, 2).Draw(t, "in")}
	var model []byte
	switch rapid.IntRange(0, 5).Draw(t, "init") {
	case 0:
		model = gen.Script(t, gen.ScriptOpts{MaxInstr: 6, AllowReturn: true, NonMinimal: true, OneByte: true})
	case 1:
		model = gen.TplP2PKH(gen.Bytes(t, 20, "hash"))
	default:
		_, model = gen.Template(t)
	}
	c.Init = append([]byte(nil), model...)
	n := rapid.IntRange(2, 8).Draw(t, "nsteps")
	for len(c.Steps) < n {
		var sts []HStep
		switch op := rapid.SampledFrom([]string{"set", "set", "set", "cut", "push", "push-hex", "ops", "mutate", "mutate", "template", "restore", "grow", "none", "refill", "refill", "refill"}).Draw(t, "op"); op {
		case "set":
			st := HStep{Op: "set", Pos: rapid.IntRange(0, max(len(model)-1, 0)).Draw(t, "pos")}
			if rapid.IntRange(0, 1).Draw(t, "val_kind") == 0 {
				st.Val = rapid.SampledFrom([]byte{0x00, 0x01, 0x14, 0x4c, 0x4d, 0x4e, 0x51, 0x6a, 0x76, 0x88, 0xa9, 0xac, 0xae, 0xff}).Draw(t, "val")
			} else {
				st.Val = rapid.Byte().Draw(t, "val")
			}
			sts = []HStep{st}
		case "cut":
			sts = []HStep{{Op: "cut", Pos: rapid.IntRange(0, len(model)).Draw(t, "keep")}}
		case "push", "push-hex":
			d := gen.FillBytes(t, gen.EdgeLen(t, 300, "len", 1, 2, 20, 33, 65, 75, 76, 255, 256), "data")
			sts = []HStep{{Op: op, Bytes: d}}
		case "ops":
			k := rapid.IntRange(1, 3).Draw(t, "nops")
			var ops []byte
			for i := 0; i < k; i++ {
				ops = append(ops, gen.NonPushOp(t, true))
			}
			sts = []HStep{{Op: "ops", Bytes: ops}}
		case "mutate":
			// a structural mutation of the current contents, written back into the same array
			name := rapid.SampledFrom(gen.MutationNames).Draw(t, "mutation")
			sts = []HStep{{Op: "replace", Bytes: append([]byte(nil), gen.Mutate(t, model, toToks(model), name)...)}}
		case "template":
			_, b := gen.Template(t)
			sts = []HStep{{Op: rapid.SampledFrom([]string{"replace", "assign"}).Draw(t, "how"), Bytes: b}}
		case "restore":
			sts = []HStep{{Op: "replace", Bytes: append([]byte(nil), c.Init...)}}
		case "refill":
			// the same buffer, the same length, another instance of the same shape: every push keeps
			// its header and gets new data (keys keep their prefix byte), opcodes stay
			nb := append([]byte(nil), model...)
			if toks, ok, _ := ref.Tokenize(model); ok && len(model) > 0 {
				salt := rapid.Byte().Draw(t, "salt")
				for ti, tk := range toks {
					if !tk.IsPush || len(tk.Data) == 0 {
						continue
					}
					ds := tk.End - len(tk.Data)
					first := nb[ds]
					copy(nb[ds:tk.End], fill(len(tk.Data), salt+byte(ti*17)))
					if len(tk.Data) == 33 || len(tk.Data) == 65 || (len(tk.Data) == 3 && first == 0x6f) {
						nb[ds] = first // a key prefix; and the "ord" push of an inscription stays
						if len(tk.Data) == 3 {
							copy(nb[ds:tk.End], "ord")
						}
					}
				}
			} else if len(model) > 0 {
				nb = gen.Bytes(t, len(model), "bytes")
			}
			sts = []HStep{{Op: "overwrite", Bytes: nb}}
			if rapid.IntRange(0, 2).Draw(t, "query_twice") == 0 {
				sts = append(sts, HStep{Op: "none"})
			}
		case "grow":
			if !ref.IsP2PKHBytes(model) {
				sts = []HStep{{Op: "replace", Bytes: gen.TplP2PKH(gen.Bytes(t, 20, "hash"))}}
			}
			ct := rapid.SampledFrom([]string{"text/plain", "a", "image/png"}).Draw(t, "ctype")
			dl := gen.EdgeLen(t, 300, "data_len", 1, 2, 75, 76, 255, 256)
			if dl == 0 {
				dl = 1
			}
			sts = append(sts, growInscription([]byte(ct), gen.FillBytes(t, dl, "data"))...)
		default:
			sts = []HStep{{Op: "none"}}
		}
		for _, st := range sts {
			model, _ = applyModel(model, st)
			c.Steps = append(c.Steps, st)
		}
	}
	return c
}

func TestHistory(t *testing.T) {
	pbt.Run(t, pbt.Sub[History]{
		Name: "history", Quick: 24000, Thorough: 400000,
		Gen: genHistory, Check: checkHistory,
		EnumDesc: "for each of the 12 fixed template instances and each transaction shape: every byte position overwritten in place with 00 / 4c / 6a / ff / value+1 and then restored (three inspections of one object); cut to every length and restored into the same array; each instance replaced by each other instance (same array and new array); the P2PKH instance grown into an inscription by Append* calls and cut back to 25 bytes; P2PKH / P2PK / multisig / inscription buffers refilled in place (same slice, same length) with other instances and back",
		Enum: func(tier string, yield func(History)) {
			tpls := fixedTemplates()
			n := 0
			for _, tb := range tpls {
				for p := range tb {
					for _, v := range []byte{0x00, 0x4c, 0x6a, 0xff, tb[p] + 1} {
						if v == tb[p] {
							continue
						}
						yield(History{In: n % 3, Init: tb, Steps: []HStep{{Op: "set", Pos: p, Val: v}, {Op: "set", Pos: p, Val: tb[p]}}})
						n++
					}
				}
				for k := 0; k < len(tb); k++ {
					yield(History{In: n % 3, Init: tb, Steps: []HStep{{Op: "cut", Pos: k}, {Op: "replace", Bytes: tb}}})
					n++
				}
				for _, ob := range tpls {
					for _, op := range []string{"replace", "assign"} {
						yield(History{In: n % 3, Init: tb, Steps: []HStep{{Op: op, Bytes: ob}, {Op: "none"}, {Op: op, Bytes: tb}}})
						n++
					}
				}
			}
			// round 8: one buffer refilled in place (same slice, same length) with other instances of the same shape
			for in := 0; in < 3; in++ {
				h1, h2 := seq(20, 0x31, 3), seq(20, 0x99, 7)
				yield(History{In: in, Init: gen.TplP2PKH(h1), Steps: []HStep{{Op: "overwrite", Bytes: gen.TplP2PKH(h2)}, {Op: "none"}, {Op: "overwrite", Bytes: gen.TplP2PKH(h1)}, {Op: "overwrite", Bytes: gen.TplP2PKH(seq(20, 0, 0))}}})
				yield(History{In: in, Init: gen.TplP2PK(key33(0x02, 0x00)), Steps: []HStep{{Op: "overwrite", Bytes: gen.TplP2PK(key33(0x03, 0x44))}, {Op: "overwrite", Bytes: gen.TplP2PK(key33(0x02, 0x00))}}})
				yield(History{In: in, Init: gen.TplInscription(h1, []byte("a"), []byte("b"), nil), Steps: []HStep{{Op: "overwrite", Bytes: gen.TplInscription(h2, []byte("c"), []byte("d"), nil)}, {Op: "none"}}})
				yield(History{In: in, Init: gen.TplMultisig(1, [][]byte{key33(0x03, 0x40)}), Steps: []HStep{{Op: "overwrite", Bytes: gen.TplMultisig(1, [][]byte{key33(0x02, 0x41)})}, {Op: "none"}}})
				// 25 bytes that are P2PKH, then 25 other bytes that are not, then P2PKH with another hash
				yield(History{In: in, Init: gen.TplP2PKH(h1), Steps: []HStep{{Op: "overwrite", Bytes: append(gen.TplP2SH(h2), 0x51, 0x51)}, {Op: "overwrite", Bytes: gen.TplP2PKH(h2)}}})
			}
			for in := 0; in < 3; in++ {
				for _, dl := range []int{1, 75, 76, 255, 256} {
					steps := growInscription([]byte("text/plain"), seq(dl, 0x41, 1))
					steps = append(steps, HStep{Op: "cut", Pos: 25}, HStep{Op: "none"})
					yield(History{In: in, Init: tpls[0], Steps: steps})
				}
			}
		},
	})
}
