// Package c14 decides property C14 (script inspection is total and classifies
// by the standard templates).
package c14

import (
	"bytes"
	"encoding/hex"
	"encoding/json"
	"fmt"
	"strings"
	"testing"

	"github.com/libsv/go-bt/v2"
	"github.com/libsv/go-bt/v2/bscript"
	"pgregory.net/rapid"

	"verif/harness/gen"
	"verif/harness/pbt"
	"verif/harness/ref"
)

func TestMain(m *testing.M) { pbt.Main(m) }

// Case is one byte string treated as a script.
type Case struct {
	How string `json:"how"`
	// In selects the transaction the script is marshalled in as output 0:
	// 0 = no inputs, 1 = one unsigned input (nil unlocking script, as Tx.From leaves it),
	// 2 = one input whose unlocking script is the same byte string.
	In     int     `json:"in"`
	Script pbt.Hex `json:"script"`
}

var knownTypes = map[string]bool{
	bscript.ScriptTypePubKey: true, bscript.ScriptTypePubKeyHash: true, bscript.ScriptTypeNonStandard: true,
	bscript.ScriptTypeEmpty: true, bscript.ScriptTypeMultiSig: true, bscript.ScriptTypeNullData: true,
	bscript.ScriptTypePubKeyHashInscription: true,
}

func short(b []byte) string {
	if len(b) <= 80 {
		return hex.EncodeToString(b)
	}
	return fmt.Sprintf("%x..(%d bytes)..%x", b[:40], len(b), b[len(b)-8:])
}

type nodeOut struct {
	ScriptPubKey *struct {
		Asm  string `json:"asm"`
		Hex  string `json:"hex"`
		Type string `json:"type"`
	} `json:"scriptPubKey"`
}

type nodeTx struct {
	Vin []struct {
		ScriptSig *struct {
			Asm string `json:"asm"`
			Hex string `json:"hex"`
		} `json:"scriptSig"`
	} `json:"vin"`
	Vout []nodeOut `json:"vout"`
}

func check(ctx *pbt.Ctx, c Case) error {
	script := []byte(c.Script)
	ctx.Key(script, []byte{byte(c.In)})
	s := bscript.NewFromBytes(append([]byte(nil), script...))
	a, err := inspect(ctx, s, script, c.How)
	if err != nil {
		return err
	}
	tx, err := buildTx(c.In, bscript.NewFromBytes(append([]byte(nil), script...)), bscript.NewFromBytes(append([]byte(nil), script...)))
	if err != nil {
		return err
	}
	return checkNodeJSON(ctx, tx, script, c.In, a)
}

// answers is what the direct queries said (the node JSON must say the same).
type answers struct {
	typ    string
	asm    string
	asmErr error
	pkh    []byte
	addrs  []string
	insc   *bscript.InscriptionArgs
}

// inspect asks s (whose bytes are expected to be script) every inspection query and applies
// the classification oracles. It is used on fresh objects (check) and on long-lived ones
// (history_test.go).
func inspect(ctx *pbt.Ctx, s *bscript.Script, script []byte, how string) (*answers, error) {
	toks, decodable, _ := ref.Tokenize(script)
	tpl := ref.StrictTemplate(script)
	if !bytes.Equal(*s, script) {
		return nil, fmt.Errorf("harness/library: the script object holds %s, expected %s", short(*s), short(script))
	}

	// ---- every inspection query (a panic is caught by the framework and is a violation)
	typ := s.ScriptType()
	isP2PKH := s.IsP2PKH()
	isP2PK := s.IsP2PK()
	isP2SH := s.IsP2SH()
	isData := s.IsData()
	isMulti := s.IsMultiSigOut()
	isInsc := s.IsP2PKHInscription()
	_ = s.IsInscribed()
	pkh, pkhErr := s.PublicKeyHash()
	addrs, addrErr := s.Addresses()
	asm, asmErr := s.ToASM()
	insc, inscErr := s.ParseInscription()
	_, _ = bscript.DecodeParts(*s)
	_ = bscript.MinPushSize(*s)
	hexStr := s.String()
	if !s.EqualsBytes(script) || !s.EqualsHex(hex.EncodeToString(script)) || !s.Equals(bscript.NewFromBytes(script)) {
		return nil, fmt.Errorf("Equals* deny identity for %s", short(script))
	}
	if !bytes.Equal(*s, script) {
		return nil, fmt.Errorf("an inspection query modified the script %s -> %s", short(script), short(*s))
	}
	if hexStr != hex.EncodeToString(script) {
		return nil, fmt.Errorf("String() = %q for %s", hexStr, short(script))
	}

	// ---- labels
	ctx.Label("type:" + typ)
	if decodable {
		ctx.Label("decodable")
	} else {
		ctx.Label("undecodable")
	}
	if tpl != ref.TplNone {
		ctx.Label("strict-template:" + tpl)
	}
	if prefix := ref.HasDataPrefix(script); prefix && decodable && tpl == ref.TplNone {
		// e.g. non-push payload, or a last push that is empty / begins with ac or ae: the
		// expected type is not claimed for these (see DESIGN C14), only the universal oracles
		ctx.Label("data prefix, outside the strict data template (type not claimed)")
	}
	zero := false
	for _, t := range toks {
		if t.IsPush && len(t.Data) == 0 {
			zero = true
		}
	}
	if zero {
		ctx.Label("has zero-length push")
	}
	if how != "enum" && how != "" {
		ctx.Label("how:" + how)
	}
	if len(toks) >= 3 || zero || (!decodable && len(script) >= 2) {
		ctx.NonTrivial()
	}

	// ---- classification oracles
	if !knownTypes[typ] {
		return nil, fmt.Errorf("ScriptType(%s) = %q is not one of the declared types", short(script), typ)
	}
	if (typ == bscript.ScriptTypeEmpty) != (len(script) == 0) {
		return nil, fmt.Errorf("ScriptType(%s) = %q", short(script), typ)
	}
	// P2PKH exactly the 25-byte template, both directions
	shape := ref.IsP2PKHBytes(script)
	if isP2PKH != shape {
		return nil, fmt.Errorf("IsP2PKH(%s) = %v, 25-byte template match = %v", short(script), isP2PKH, shape)
	}
	if (typ == bscript.ScriptTypePubKeyHash) != shape {
		return nil, fmt.Errorf("ScriptType(%s) = %q, 25-byte P2PKH template match = %v", short(script), typ, shape)
	}
	// data only with the OP_RETURN / OP_FALSE OP_RETURN prefix; IsData is documented as exactly the prefix test
	prefix := ref.HasDataPrefix(script)
	if isData != prefix {
		return nil, fmt.Errorf("IsData(%s) = %v, starts with 6a / 00 6a = %v", short(script), isData, prefix)
	}
	if typ == bscript.ScriptTypeNullData && !prefix {
		return nil, fmt.Errorf("ScriptType(%s) = nulldata without an OP_RETURN / OP_FALSE OP_RETURN prefix", short(script))
	}
	// (tenth round) necessary conditions every definition of the templates shares: the documentation
	// says "returns true if this is a p2sh output script" / "a public key output script". A P2SH output
	// script is defined by its bytes (BIP16: exactly 23 bytes, a9 14 <20> 87); a public key output
	// script is a key push followed by OP_CHECKSIG and nothing else, so it decodes into exactly two
	// elements, the first a push of 33 or 65 bytes. (Nothing is said about which push forms count.)
	if isP2SH && !(len(script) == 23 && script[0] == 0xa9 && script[1] == 0x14 && script[22] == 0x87) {
		return nil, fmt.Errorf("IsP2SH(%s) = true, the script is not the 23-byte pay-to-script-hash pattern", short(script))
	}
	if isP2PK || typ == bscript.ScriptTypePubKey {
		if !decodable || len(toks) != 2 || !toks[0].IsPush || (len(toks[0].Data) != 33 && len(toks[0].Data) != 65) {
			return nil, fmt.Errorf("IsP2PK(%s) = %v, ScriptType = %q: the script is not one key push followed by one more element (decodable=%v, %d elements)", short(script), isP2PK, typ, decodable, len(toks))
		}
	}
	// the reported type is backed by its predicate
	switch typ {
	case bscript.ScriptTypePubKey:
		if !isP2PK {
			return nil, fmt.Errorf("ScriptType(%s) = pubkey but IsP2PK is false", short(script))
		}
	case bscript.ScriptTypeMultiSig:
		if !isMulti {
			return nil, fmt.Errorf("ScriptType(%s) = multisig but IsMultiSigOut is false", short(script))
		}
	case bscript.ScriptTypePubKeyHashInscription:
		if !isInsc {
			return nil, fmt.Errorf("ScriptType(%s) = pubkeyhashinscription but IsP2PKHInscription is false", short(script))
		}
	}
	// undecodable scripts are never key-bearing (the P2PKH test is defined by bytes; a
	// 25-byte template match is always decodable, so no exception is needed)
	if !decodable {
		if typ == bscript.ScriptTypePubKey || typ == bscript.ScriptTypePubKeyHash || typ == bscript.ScriptTypeMultiSig || typ == bscript.ScriptTypePubKeyHashInscription {
			return nil, fmt.Errorf("undecodable script %s reported as %q", short(script), typ)
		}
		if isP2PK || isMulti || isInsc || isP2PKH {
			return nil, fmt.Errorf("undecodable script %s: IsP2PK=%v IsMultiSigOut=%v IsP2PKHInscription=%v IsP2PKH=%v", short(script), isP2PK, isMulti, isInsc, isP2PKH)
		}
		if inscErr == nil {
			return nil, fmt.Errorf("ParseInscription succeeded on the undecodable script %s", short(script))
		}
	}
	// strict template instances report their type
	want := ""
	switch tpl {
	case ref.TplP2PKH:
		want = bscript.ScriptTypePubKeyHash
	case ref.TplP2PK:
		want = bscript.ScriptTypePubKey
		if !isP2PK {
			return nil, fmt.Errorf("IsP2PK false on the P2PK template %s", short(script))
		}
	case ref.TplMultisig:
		want = bscript.ScriptTypeMultiSig
		if !isMulti {
			return nil, fmt.Errorf("IsMultiSigOut false on the bare multisig template %s", short(script))
		}
	case ref.TplData:
		want = bscript.ScriptTypeNullData
	case ref.TplInscription:
		want = bscript.ScriptTypePubKeyHashInscription
		if !isInsc {
			return nil, fmt.Errorf("IsP2PKHInscription false on the inscription template %s", short(script))
		}
	case ref.TplP2SH:
		if !isP2SH {
			return nil, fmt.Errorf("IsP2SH false on the P2SH template %s", short(script))
		}
	}
	if want != "" && typ != want {
		return nil, fmt.Errorf("template %s instance %s reported as %q, want %q", tpl, short(script), typ, want)
	}
	// public key hash / addresses of the P2PKH template
	if shape {
		if pkhErr != nil || !bytes.Equal(pkh, script[3:23]) {
			return nil, fmt.Errorf("PublicKeyHash(%s) = %x, %v", short(script), pkh, pkhErr)
		}
		if addrErr != nil || len(addrs) != 1 || addrs[0] == "" {
			return nil, fmt.Errorf("Addresses(%s) = %v, %v; one address expected", short(script), addrs, addrErr)
		}
		// Addresses and PublicKeyHash must agree: the address is the mainnet Base58Check rendering of
		// that very hash (independent reference of C15)
		if want := ref.B58CheckEncode(0x00, script[3:23]); addrs[0] != want {
			return nil, fmt.Errorf("Addresses(%s) = %v, the address of the hash %x the script carries is %s", short(script), addrs, script[3:23], want)
		}
	}
	// inscription parsing
	if inscErr == nil {
		if insc == nil || insc.LockingScriptPrefix == nil {
			return nil, fmt.Errorf("ParseInscription(%s) returned nil without error", short(script))
		}
		if !isInsc {
			return nil, fmt.Errorf("ParseInscription(%s) succeeded although IsP2PKHInscription is false", short(script))
		}
	}
	if tpl == ref.TplInscription {
		if inscErr != nil {
			return nil, fmt.Errorf("ParseInscription failed on the inscription template %s: %v", short(script), inscErr)
		}
		if !bytes.Equal(*insc.LockingScriptPrefix, script[:25]) || insc.ContentType != string(toks[9].Data) || !bytes.Equal(insc.Data, toks[11].Data) {
			return nil, fmt.Errorf("ParseInscription(%s) = {prefix %x, type %q, data %s}; template carries {%x, %q, %s}", short(script),
				[]byte(*insc.LockingScriptPrefix), insc.ContentType, short(insc.Data), script[:25], toks[9].Data, short(toks[11].Data))
		}
	}
	// assembly rendering flags undecodable tails (as the node does), and only those
	if asmErr == nil {
		if flagged := strings.HasSuffix(asm, "[error]"); flagged != !decodable {
			return nil, fmt.Errorf("ToASM(%s) = %q; reference reader says decodable=%v", short(script), short([]byte(asm)), decodable)
		}
	}

	return &answers{typ: typ, asm: asm, asmErr: asmErr, pkh: pkh, addrs: addrs, insc: insc}, nil
}

// buildTx puts lock in output 0; in: 0 = no input, 1 = one unsigned input (nil unlocking
// script), 2 = one input carrying unlock.
func buildTx(in int, lock, unlock *bscript.Script) (*bt.Tx, error) {
	tx := bt.NewTx()
	switch in {
	case 1, 2:
		i := &bt.Input{PreviousTxOutIndex: 1, SequenceNumber: 0xffffffff}
		if err := i.PreviousTxIDAdd(bytes.Repeat([]byte{0x11}, 32)); err != nil {
			return nil, fmt.Errorf("harness: %v", err)
		}
		if in == 2 {
			i.UnlockingScript = unlock
		}
		tx.Inputs = append(tx.Inputs, i)
	}
	tx.AddOutput(&bt.Output{Satoshis: 1000, LockingScript: lock})
	return tx, nil
}

// checkNodeJSON marshals tx (built by buildTx around script) the way a node prints it and
// compares with the direct answers.
func checkNodeJSON(ctx *pbt.Ctx, tx *bt.Tx, script []byte, in int, a *answers) error {
	typ, asm, asmErr := a.typ, a.asm, a.asmErr
	jb, jerr := json.Marshal(tx.NodeJSON())
	if jerr != nil {
		ctx.Label("node JSON: error")
	} else {
		var nt nodeTx
		if err := json.Unmarshal(jb, &nt); err != nil {
			return fmt.Errorf("node JSON of a tx paying to %s is not valid JSON: %v", short(script), err)
		}
		if len(nt.Vout) != 1 || nt.Vout[0].ScriptPubKey == nil {
			return fmt.Errorf("node JSON of a tx paying to %s has no vout[0].scriptPubKey: %s", short(script), short(jb))
		}
		sp := nt.Vout[0].ScriptPubKey
		if sp.Hex != hex.EncodeToString(script) || sp.Type != typ || (asmErr == nil && sp.Asm != asm) {
			return fmt.Errorf("node JSON scriptPubKey {hex %q type %q asm %q} disagrees with the script %s (type %q asm %q)", sp.Hex, sp.Type, sp.Asm, short(script), typ, asm)
		}
		if in == 2 {
			if len(nt.Vin) != 1 || nt.Vin[0].ScriptSig == nil || nt.Vin[0].ScriptSig.Hex != hex.EncodeToString(script) {
				return fmt.Errorf("node JSON scriptSig disagrees with the unlocking script %s: %s", short(script), short(jb))
			}
		}
		if in == 1 {
			if len(nt.Vin) != 1 || (nt.Vin[0].ScriptSig != nil && nt.Vin[0].ScriptSig.Hex != "") {
				return fmt.Errorf("node JSON of an unsigned input is not an empty scriptSig: %s", short(jb))
			}
		}
	}
	ob, oerr := json.Marshal(tx.Outputs[0].NodeJSON())
	if oerr == nil {
		var no nodeOut
		if err := json.Unmarshal(ob, &no); err != nil || no.ScriptPubKey == nil || no.ScriptPubKey.Hex != hex.EncodeToString(script) || no.ScriptPubKey.Type != typ {
			return fmt.Errorf("output node JSON %s disagrees with the script %s (type %q): %v", short(ob), short(script), typ, err)
		}
	}
	return nil
}

// ---------------------------------------------------------------------------
// exhaustive short strings

func TestShort(t *testing.T) {
	pbt.Run(t, pbt.Sub[Case]{
		Name:     "short",
		Check:    check,
		EnumDesc: "all byte strings of length <= 2 (quick: 65 793) / <= 3 (thorough: 16 843 009); the transaction shape cycles through no input / unsigned input / same script as unlocking script",
		Enum: func(tier string, yield func(Case)) {
			i := 0
			y := func(b ...byte) {
				yield(Case{How: "enum", In: i % 3, Script: pbt.Hex(b)})
				i++
			}
			y()
			for a := 0; a < 256; a++ {
				y(byte(a))
			}
			for a := 0; a < 256; a++ {
				for b := 0; b < 256; b++ {
					y(byte(a), byte(b))
				}
			}
			if tier == "thorough" {
				for a := 0; a < 256; a++ {
					for b := 0; b < 256; b++ {
						for c := 0; c < 256; c++ {
							y(byte(a), byte(b), byte(c))
						}
					}
				}
			}
		},
	})
}

// ---------------------------------------------------------------------------
// random strings and instruction soups

var soupAtoms = [][]byte{{0x4c, 0x00}, {0x4d, 0x00, 0x00}, {0x4e, 0x00, 0x00, 0x00, 0x00}, {0x00}, {0x51}, {0x52}, {0x60}, {0xac}, {0xae}, {0x6a}, {0x76}, {0xa9}, {0x88}, {0x63}, {0x68}, {0x03, 'o', 'r', 'd'}, {0x01, 0x6f}, {0x02, 0x6f, 0x72}}

func genRandom(t *rapid.T) Case {
	kind := rapid.SampledFrom([]string{"uniform", "opcode-ish", "instructions", "instructions-cut", "soup"}).Draw(t, "kind")
	var s []byte
	switch kind {
	case "uniform":
		s = gen.Bytes(t, gen.EdgeLen(t, 120, "len", 0, 1, 2, 3, 4, 23, 25, 35, 67, 120), "bytes")
	case "opcode-ish":
		n := rapid.IntRange(1, 120).Draw(t, "len")
		s = make([]byte, n)
		for i := range s {
			if rapid.IntRange(0, 2).Draw(t, "hot") == 0 {
				s[i] = rapid.Byte().Draw(t, "b")
			} else {
				s[i] = rapid.SampledFrom([]byte{0x00, 0x01, 0x02, 0x14, 0x21, 0x41, 0x4b, 0x4c, 0x4d, 0x4e, 0x4f, 0x51, 0x52, 0x60, 0x61, 0x63, 0x68, 0x6a, 0x76, 0x87, 0x88, 0xa9, 0xac, 0xae, 0xff}).Draw(t, "b")
			}
		}
	case "instructions", "instructions-cut":
		s = gen.Script(t, gen.ScriptOpts{MaxInstr: 16, AllowReturn: true, NonMinimal: true, OneByte: true})
		if kind == "instructions-cut" && len(s) > 0 {
			s = s[:rapid.IntRange(0, len(s)-1).Draw(t, "cut")]
		}
		if len(s) > 120 {
			s = s[:120]
		}
	default:
		n := rapid.IntRange(1, 16).Draw(t, "n")
		for i := 0; i < n; i++ {
			s = append(s, rapid.SampledFrom(soupAtoms).Draw(t, "atom")...)
		}
	}
	return Case{How: kind, In: rapid.IntRange(0, 2).Draw(t, "in"), Script: s}
}

func TestRandom(t *testing.T) {
	pbt.Run(t, pbt.Sub[Case]{
		Name: "random", Quick: 240000, Thorough: 5000000,
		Gen: genRandom, Check: check,
	})
}

// ---------------------------------------------------------------------------
// standard templates and their mutations

func toToks(script []byte) []gen.Tok {
	toks, _, _ := ref.Tokenize(script)
	out := make([]gen.Tok, len(toks))
	for i, t := range toks {
		out[i] = gen.Tok{Start: t.Start, End: t.End, IsPush: t.IsPush, DataLen: len(t.Data)}
	}
	return out
}

func genTemplateCase(t *rapid.T) Case {
	kind, s := gen.Template(t)
	n := rapid.SampledFrom([]int{0, 1, 1, 1, 1, 2, 2, 3}).Draw(t, "nmut")
	how := kind
	for i := 0; i < n; i++ {
		name := rapid.SampledFrom(gen.MutationNames).Draw(t, "mutation")
		s = gen.Mutate(t, s, toToks(s), name)
		how += "+" + name
	}
	if n == 0 {
		how += " (unmutated)"
	} else if n > 1 {
		how = fmt.Sprintf("%s+%d mutations", kind, n)
	}
	return Case{How: how, In: rapid.IntRange(0, 2).Draw(t, "in"), Script: s}
}

func seq(n int, start, step byte) []byte {
	b := make([]byte, n)
	for i := range b {
		b[i] = start + byte(i)*step
	}
	return b
}

func key33(par byte, salt byte) []byte { return append([]byte{par}, seq(32, salt, 7)...) }
func key65(salt byte) []byte           { return append([]byte{0x04}, seq(64, salt, 5)...) }

// fixedTemplates are the instances whose complete mutation neighbourhood is enumerated.
func fixedTemplates() [][]byte {
	h := seq(20, 0x31, 3)
	return [][]byte{
		gen.TplP2PKH(h),
		gen.TplP2SH(h),
		gen.TplP2PK(key33(0x02, 0x00)), // the ledger witness key: 02 followed by low bytes
		gen.TplP2PK(append([]byte{0x02}, make([]byte, 32)...)),
		gen.TplP2PK(key65(0x10)),
		gen.TplMultisig(1, [][]byte{key33(0x03, 0x40)}),
		gen.TplMultisig(2, [][]byte{key33(0x02, 0x01), key65(0x77), key33(0x03, 0x99)}),
		gen.TplData(false, [][]byte{[]byte("hello"), seq(80, 1, 1)}),
		gen.TplData(true, [][]byte{seq(4, 0x60, 1), []byte("x")}),
		gen.TplInscription(h, []byte("a"), []byte("b"), nil),
		gen.TplInscription(h, []byte("text/plain;charset=utf-8"), []byte("Hello, world!"), nil),
		gen.TplInscription(h, []byte("image/png"), seq(90, 0x89, 1), [][]byte{[]byte("MAP"), []byte("SET"), seq(3, 1, 1)}),
	}
}

func enumTemplates(tier string, yield func(Case)) {
	i := 0
	y := func(how string, s []byte) {
		yield(Case{How: how, In: i % 3, Script: append([]byte(nil), s...)})
		i++
	}
	for _, tplBytes := range fixedTemplates() {
		yield(Case{How: "template (unmutated)", In: 1, Script: tplBytes})
		yield(Case{How: "template (unmutated)", In: 2, Script: tplBytes})
		// every byte replaced by every other value
		for p := range tplBytes {
			for v := 0; v < 256; v++ {
				if byte(v) == tplBytes[p] {
					continue
				}
				m := append([]byte(nil), tplBytes...)
				m[p] = byte(v)
				y("enum:flip", m)
			}
		}
		// every prefix
		for p := 0; p < len(tplBytes); p++ {
			y("enum:truncate", tplBytes[:p])
		}
		for _, cp := range gen.CutPushes {
			y("enum:append-cut-push", append(append([]byte(nil), tplBytes...), cp...))
		}
		toks, _, _ := ref.Tokenize(tplBytes)
		for _, t := range toks {
			for _, z := range gen.ZeroPushForms {
				y("enum:zero-push", splice(tplBytes, t.Start, t.End, z))
				y("enum:insert-zero-push", splice(tplBytes, t.Start, t.Start, z))
			}
			y("enum:remove", splice(tplBytes, t.Start, t.End, nil))
			// (tenth round) something inserted between two elements of the template
			for _, ins := range [][]byte{{0x61}, {0x75}, {0x76}, {0x88}, {0xad}, {0x87}, {0xac}, {0x51}, {0x01, 0xac}, {0x02, 0xab, 0xcd}} {
				y("enum:insert-element", splice(tplBytes, t.Start, t.Start, ins))
			}
			y("enum:duplicate", splice(tplBytes, t.End, t.End, tplBytes[t.Start:t.End]))
			if t.IsPush && len(t.Data) > 0 {
				for keep := 1; keep <= 2 && keep <= len(t.Data); keep++ {
					y("enum:shorten-push", splice(tplBytes, t.Start, t.End, ref.PushForm(t.Data[:keep], 0)))
				}
				// same data in every wider push form
				for _, form := range []int{1, 2, 4} {
					if form == 1 && len(t.Data) > 255 {
						continue
					}
					y("enum:widen-push", splice(tplBytes, t.Start, t.End, ref.PushForm(t.Data, form)))
				}
				// length prefix kept, data shortened by 1 / emptied
				y("enum:short-data", splice(tplBytes, t.End-1, t.End, nil))
				y("enum:short-data", splice(tplBytes, t.End-len(t.Data), t.End, nil))
			}
		}
	}
	// (tenth round) one template instance followed by another, and the same with the first one's last
	// element turned into its VERIFY form where there is one (<k1> CHECKSIGVERIFY <k2> CHECKSIG ...)
	for _, a := range fixedTemplates() {
		for _, b := range fixedTemplates() {
			y("enum:concat", append(append([]byte(nil), a...), b...))
			if last := a[len(a)-1]; last == 0xac || last == 0x87 || last == 0xae {
				v := append([]byte(nil), a...)
				v[len(v)-1] = last + 1
				y("enum:concat-verify", append(v, b...))
			}
		}
	}
	// soups of zero-length pushes, small ints, CHECKSIG/CHECKMULTISIG and a key push
	atoms := [][]byte{{0x4c, 0x00}, {0x4d, 0x00, 0x00}, {0x00}, {0x51}, {0xae}, {0xac}, gen.TplP2PK(append([]byte{0x02}, make([]byte, 32)...))[:34]}
	maxLen := 3
	if tier == "thorough" {
		maxLen = 5
	}
	var rec func(prefix []byte, depth int)
	rec = func(prefix []byte, depth int) {
		if depth > 0 {
			y("enum:soup", prefix)
		}
		if depth == maxLen {
			return
		}
		for _, a := range atoms {
			rec(append(append([]byte(nil), prefix...), a...), depth+1)
		}
	}
	rec(nil, 0)
}

func splice(s []byte, from, to int, with []byte) []byte {
	out := make([]byte, 0, len(s)-(to-from)+len(with))
	out = append(out, s[:from]...)
	out = append(out, with...)
	return append(out, s[to:]...)
}

func TestTemplates(t *testing.T) {
	pbt.Run(t, pbt.Sub[Case]{
		Name: "templates", Quick: 260000, Thorough: 5000000,
		Gen: genTemplateCase, Check: check,
		Enum:     enumTemplates,
		EnumDesc: "12 fixed template instances (P2PKH, P2SH, P2PK 33/65, 1-of-1 and 2-of-3 multisig, OP_RETURN and OP_FALSE OP_RETURN data, three P2PKH inscriptions incl. a minimal one and one with an OP_RETURN tail): unmutated, every byte set to every other value, every prefix, every instruction replaced by / preceded by OP_0 and zero-length PUSHDATA1/2/4, removed, duplicated, every push shortened to 1 and 2 bytes, re-encoded in every wider push form, with its data cut, with each of 10 elements inserted before it, and the whole template followed by each of 7 unterminated pushes; every ordered pair of instances concatenated (also with the first one ending in its VERIFY form); plus all sequences of <= 3 (thorough: <= 5) atoms from {4c00, 4d0000, 00, 51, ae, ac, 21<key>}",
	})
}
