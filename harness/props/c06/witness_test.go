package c06

import (
	"encoding/json"
	"os"
	"testing"

	"pgregory.net/rapid"

	"verif/harness/interp"
	"verif/harness/pbt"
	"verif/harness/sgen"
)

// TestMakeWitness (only when VERIF_MKWITNESS=<path> is set) searches for a small
// case of finding L16 and writes it as a replay file. Not part of any check run.
func TestMakeWitness(t *testing.T) {
	path := os.Getenv("VERIF_MKWITNESS")
	if path == "" || pbt.Replaying() {
		t.Skip()
	}
	var found *Case
	g := rapid.Custom(func(t *rapid.T) Case {
		p := sgen.SigScripts(t)
		return Case{Unlock: p.Unlock, Lock: p.Lock, Flags: uint32(p.Flags), Tx: p.Tx, Idx: p.Idx, Amount: p.Amount, Desc: p.Desc}
	})
	for i := 0; i < 20000 && found == nil; i++ {
		c := g.Example(i)
		if interp.Flags(c.Flags).Has(interp.FlagForkID) || len(c.Tx.In) != 1 || len(c.Unlock) > 80 {
			continue
		}
		ctx := &pbt.Ctx{}
		if err := check(ctx, c); err == nil && ctx.KnownHits("L16") > 0 {
			cc := c
			found = &cc
		}
	}
	if found == nil {
		t.Fatal("no witness found")
	}
	cb, _ := json.Marshal(found)
	b, _ := json.MarshalIndent(pbt.ReplayFile{Property: "C06", Sub: "sigops", Case: cb}, "", " ")
	if err := os.WriteFile(path, b, 0o644); err != nil {
		t.Fatal(err)
	}
}
