package c06

import (
	"bytes"
	"fmt"
	"strings"
	"testing"

	"github.com/libsv/go-bt/v2"
	"github.com/libsv/go-bt/v2/bscript"
	"github.com/libsv/go-bt/v2/bscript/interpreter"
	"pgregory.net/rapid"

	"verif/harness/gen"
	"verif/harness/interp"
	"verif/harness/libexec"
	"verif/harness/pbt"
	"verif/harness/ref"
	"verif/harness/sgen"
)

// ---------------------------------------------------------------------------
// sub-check: sequences. What a validator does: ONE transaction object with
// 2..4 inputs, each spending its own signature program, verified input after
// input (in any order, inputs may be verified twice) on ONE engine. Every
// verification is judged against the rules as if it were the only one: what a
// signature check computes for one input (digests, mid-hashes, script code,
// cleaned copies) may not reach the next.
// ---------------------------------------------------------------------------

// SeqProg is the spent side of one input.
type SeqProg struct {
	Lock   pbt.Hex `json:"lock"`
	Flags  uint32  `json:"flags"`
	Amount uint64  `json:"amount"`
	Desc   string  `json:"desc,omitempty"`
}

// SeqCase: Tx carries every input's unlocking script; Progs[i] is what input i spends; Order is
// the sequence of inputs verified.
type SeqCase struct {
	Tx    ref.Tx    `json:"tx"`
	Progs []SeqProg `json:"progs"`
	Order []int     `json:"order"`
	// SameFlags verifies every input under the flags of the first program (what a validator
	// does); otherwise each input is verified under its own program's flags
	SameFlags bool `json:"same_flags,omitempty"`
	// AmountOff[k] is added to the spent value handed to verification k (0 most of the time): the
	// value that counts is the one of the previous output passed to that very Execute call, not
	// one recorded on the transaction object or left there by an earlier call
	AmountOff []int64 `json:"amount_off,omitempty"`
	// Edits[k] (k >= 1) is applied to the one transaction object, in place, before verification k:
	// 1 first output's value + 1, 2 lock time ^ 1, 3 version + 1, 4 the verified input's sequence
	// number ^ 1, 5 another input's sequence number ^ 1, 6 last output's script gets OP_NOP appended,
	// 7 the verified input's outpoint index ^ 1. The signatures were made for the transaction as
	// generated; what they are worth afterwards is what the rules say about the transaction as it
	// stands (a digest, mid-hash or verdict kept per object would say something else).
	Edits []int `json:"edits,omitempty"`
}

func checkSeq(ctx *pbt.Ctx, c SeqCase) error {
	n := len(c.Tx.In)
	if n < 2 || len(c.Progs) != n || len(c.Order) < 2 {
		ctx.Discard("malformed case")
		return nil
	}
	for _, i := range c.Order {
		if i < 0 || i >= n {
			ctx.Discard("malformed case")
			return nil
		}
	}
	m := c.Tx
	m.In = append([]ref.In{}, c.Tx.In...)
	m.Out = append([]ref.Out{}, c.Tx.Out...)
	tx := ref.ToLib(m)
	before := append([]byte{}, tx.Bytes()...)
	eng := interpreter.NewEngine()
	// the option values are built once per case and handed to every call that needs them
	libexec.SetPool(libexec.NewOptPool())
	defer libexec.SetPool(nil)
	if len(c.Order)%2 == 0 { // the engine has been used before, without a transaction and with a failing script
		one := bscript.NewFromBytes([]byte{0x51})
		_ = eng.Execute(interpreter.WithScripts(one, bscript.NewFromBytes([]byte{0x51})))
		_ = eng.Execute(interpreter.WithScripts(bscript.NewFromBytes([]byte{0x00, 0x69}), one))
	}
	accepts, seen := 0, map[int]bool{}
	sharedLock, lockBuf := &bscript.Script{}, []byte(nil)
	for k, i := range c.Order {
		if k >= 1 && k < len(c.Edits) && c.Edits[k] != 0 {
			j := (i + 1) % n
			switch c.Edits[k] {
			case 1:
				if len(m.Out) > 0 {
					m.Out[0].Sats++
					tx.Outputs[0].Satoshis++
				}
			case 2:
				m.LockTime ^= 1
				tx.LockTime ^= 1
			case 3:
				m.Version++
				tx.Version++
			case 4:
				m.In[i].Seq ^= 1
				tx.Inputs[i].SequenceNumber ^= 1
			case 5:
				m.In[j].Seq ^= 1
				tx.Inputs[j].SequenceNumber ^= 1
			case 6:
				if l := len(m.Out); l > 0 {
					m.Out[l-1].Script = append(append(pbt.Hex{}, m.Out[l-1].Script...), 0x61)
					*tx.Outputs[l-1].LockingScript = append(*tx.Outputs[l-1].LockingScript, 0x61)
				}
			case 7:
				m.In[i].Vout ^= 1
				tx.Inputs[i].PreviousTxOutIndex ^= 1
			default:
				ctx.Discard("malformed case")
				return nil
			}
			before = append(before[:0], tx.Bytes()...)
			ctx.Labelf("edit_between_verifications=%d", c.Edits[k])
		}
		p := c.Progs[i]
		flags := interp.Flags(p.Flags)
		if c.SameFlags {
			flags = interp.Flags(c.Progs[c.Order[0]].Flags)
		}
		unlock := m.In[i].Unlock
		if k < len(c.AmountOff) && c.AmountOff[k] != 0 {
			p.Amount = uint64(int64(p.Amount) + c.AmountOff[k])
			ctx.Label("spent_value_differs_from_recorded")
		}
		r := interp.VerifyScript(unlock, p.Lock, flags, interp.TxChecker{Tx: m, Idx: i, Amount: p.Amount}, true, lim)
		if r.BudgetHit {
			ctx.Discard("over_budget")
			return nil
		}
		lockObj := bscript.NewFromBytes(append([]byte{}, p.Lock...))
		if len(c.Order)%3 == 0 { // one script object and one buffer serve every verification, refilled in place
			if cap(lockBuf) < len(p.Lock) {
				lockBuf = make([]byte, 0, 2*len(p.Lock)+64)
			}
			lockBuf = append(lockBuf[:0], p.Lock...)
			*sharedLock = lockBuf[:len(p.Lock):len(p.Lock)]
			lockObj = sharedLock
			if k > 0 {
				ctx.Label("spent_script_object_refilled")
			}
		}
		rec := &libexec.Recorder{}
		var execErr error
		var panicked any
		func() {
			defer func() { panicked = recover() }()
			opts := append([]interpreter.ExecutionOptionFunc{interpreter.WithTx(tx, i, &bt.Output{Satoshis: p.Amount, LockingScript: lockObj})},
				libexec.FlagOpts(flags, len(p.Lock)+k)...)
			execErr = eng.Execute(append(opts, interpreter.WithDebugger(rec))...)
		}()
		id := fmt.Sprintf("verification %d of %d (input %d of one %d-input transaction object on one engine; order %v): unlock=%x lock=%x flags=%#x amount=%d [%s]",
			k+1, len(c.Order), i, n, c.Order, []byte(unlock), []byte(p.Lock), uint32(flags), p.Amount, p.Desc)
		if panicked != nil {
			return fmt.Errorf("library panicked: %v; %s", panicked, id)
		}
		if !bytes.Equal(tx.Bytes(), before) {
			return fmt.Errorf("transaction serialisation changed by signature checking; %s", id)
		}
		libOK := execErr == nil
		excused := false
		if !flags.Has(interp.FlagForkID) && (libOK != r.OK || libexec.CompareTraces(rec.Steps, libOK, r) != nil) {
			// recorded finding L16, same matcher as in sigops
			r16 := interp.VerifyScript(unlock, p.Lock, flags, interp.TxChecker{Tx: m, Idx: i, Amount: p.Amount, BitSelectsDigest: true}, true, lim)
			if !r16.BudgetHit && libOK == r16.OK && libexec.CompareTraces(rec.Steps, libOK, r16) == nil && ctx.Known("L16") {
				ctx.Label("excluded=L16")
				excused = true
			}
		}
		if !excused {
			if libOK != r.OK {
				return fmt.Errorf("verdict: library err=%v, rules ok=%v (%s) sigops=%v; %s", execErr, r.OK, r.Err, r.SigOps, id)
			}
			if err := libexec.CompareTraces(rec.Steps, libOK, r); err != nil {
				return fmt.Errorf("%v; sigops=%v liberr=%v; %s", err, r.SigOps, execErr, id)
			}
		}
		if r.OK {
			accepts++
		}
		if seen[i] {
			ctx.Label("input_verified_again")
		}
		if strings.HasPrefix(p.Desc, "replay-of-input-") {
			ctx.Labelf("replayed_spend:accepted=%v", r.OK)
		}
		seen[i] = true
		for _, so := range r.SigOps {
			ctx.Labelf("sigop=%02x:%s", so.Op, so.Outcome)
		}
	}
	ctx.Labelf("inputs=%d", n)
	ctx.Labelf("verifications=%d", min(len(c.Order), 6))
	ctx.Labelf("accepted=%d", min(accepts, 4))
	if c.SameFlags {
		ctx.Label("same_flags")
	}
	if len(seen) >= 2 {
		ctx.NonTrivial()
	}
	return nil
}

func genSeqCase(t *rapid.T) SeqCase {
	o := gen.TxOpts{MinIn: 2, MaxIn: 4, MinOut: 0, MaxOut: 4, MaxScript: 40, ScriptEdges: []int{0, 1, 25}}
	tx := gen.Tx(t, o)
	var c SeqCase
	for i := range tx.In {
		if i > 0 && rapid.IntRange(0, 4).Draw(t, "replay") == 0 {
			// the complete spend of an earlier input presented again for this one: same key, same
			// signature bytes, but this input's digest differs (its outpoint does)
			j := rapid.IntRange(0, i-1).Draw(t, "replay_of")
			tx.In[i].Unlock = append(pbt.Hex{}, tx.In[j].Unlock...)
			tx.In[i].UnlockNil = false
			tx.In[i].PrevScript = append(pbt.Hex{}, tx.In[j].PrevScript...)
			tx.In[i].PrevSats = tx.In[j].PrevSats
			if rapid.Bool().Draw(t, "replay_same_seq") {
				tx.In[i].Seq = tx.In[j].Seq
			}
			pj := c.Progs[j]
			pj.Desc = "replay-of-input-" + string(rune('0'+j)) + ":" + pj.Desc
			c.Progs = append(c.Progs, pj)
			continue
		}
		p := sgen.SigScriptsFor(t, tx, i)
		tx.In[i].Unlock = p.Unlock
		tx.In[i].UnlockNil = false
		tx.In[i].PrevScript = p.Lock
		tx.In[i].PrevSats = p.Amount
		c.Progs = append(c.Progs, SeqProg{Lock: p.Lock, Flags: uint32(p.Flags), Amount: p.Amount, Desc: p.Desc})
	}
	c.Tx = tx
	switch rapid.IntRange(0, 3).Draw(t, "order_kind") {
	case 0: // ascending, as a validator would
		for i := range tx.In {
			c.Order = append(c.Order, i)
		}
	case 1: // descending
		for i := len(tx.In) - 1; i >= 0; i-- {
			c.Order = append(c.Order, i)
		}
	default:
		k := rapid.IntRange(2, 6).Draw(t, "verifications")
		for j := 0; j < k; j++ {
			c.Order = append(c.Order, rapid.IntRange(0, len(tx.In)-1).Draw(t, "which"))
		}
	}
	c.SameFlags = rapid.IntRange(0, 2).Draw(t, "same_flags") == 0
	if rapid.IntRange(0, 2).Draw(t, "amount_off") == 0 {
		for range c.Order {
			c.AmountOff = append(c.AmountOff, rapid.SampledFrom([]int64{0, 0, 1, -1, 1000, 1 << 32}).Draw(t, "amount_off_v"))
		}
	}
	if rapid.IntRange(0, 2).Draw(t, "edits") == 0 {
		for range c.Order {
			c.Edits = append(c.Edits, rapid.SampledFrom([]int{0, 1, 2, 3, 4, 5, 6, 7}).Draw(t, "edit_v"))
		}
	}
	return c
}

func TestSequences(t *testing.T) {
	pbt.Run(t, pbt.Sub[SeqCase]{
		Name: "sequences", Quick: 30000, Thorough: 300000,
		Gen: genSeqCase, Check: checkSeq,
	})
}
