package c06

import (
	"fmt"
	"testing"

	"pgregory.net/rapid"

	"verif/harness/interp"
	"verif/harness/libexec"
	"verif/harness/pbt"
	"verif/harness/ref"
	"verif/harness/sgen"
)

// ---------------------------------------------------------------------------
// sub-check: resume (ninth round). A signature program is executed once with a debugger that keeps
// the BeforeStep records (the records the documentation of the exported option WithState names);
// the execution is resumed from one of them on a fresh engine. The script code of a signature
// operation that runs after the resumption point still begins after the most recently executed
// OP_CODESEPARATOR - also when that separator ran before the resumption point. Oracle: the
// reference interpreter's run of the whole program (verdict; data and alt stack of every step
// from the resumption point on). Finding L16 is excused exactly as in `sigops`.
// ---------------------------------------------------------------------------

// ResumeCase is a signature program and the BeforeStep record to resume from.
type ResumeCase struct {
	Case
	At int `json:"at"`
}

func checkResume(ctx *pbt.Ctx, c ResumeCase) error {
	if c.At < 0 || c.Idx < 0 || c.Idx >= len(c.Tx.In) {
		ctx.Discard("malformed case")
		return nil
	}
	flags := interp.Flags(c.Flags)
	m := c.Tx
	m.In = append([]ref.In{}, c.Tx.In...)
	m.In[c.Idx].Unlock = c.Unlock
	chk := interp.TxChecker{Tx: m, Idx: c.Idx, Amount: c.Amount}
	r := interp.VerifyScript(c.Unlock, c.Lock, flags, chk, true, lim)
	if r.BudgetHit {
		ctx.Discard("over_budget")
		return nil
	}
	k := &libexec.Keeper{}
	full := libexec.RunModel(m, c.Idx, c.Lock, c.Amount, flags, k)
	id := fmt.Sprintf("unlock=%x lock=%x flags=%#x idx=%d amount=%d [%s]", []byte(c.Unlock), []byte(c.Lock), c.Flags, c.Idx, c.Amount, c.Desc)
	if full.Panic != "" {
		return fmt.Errorf("library panicked: %s; %s", full.Panic, id)
	}
	if len(k.States) == 0 {
		ctx.Discard("no step reached")
		return nil
	}
	at := c.At % len(k.States)
	rec := k.States[at]
	if rec.ScriptIdx < 0 || rec.ScriptIdx >= len(rec.Scripts) {
		ctx.Discard("record without a current script")
		return nil
	}
	out := libexec.ResumeModel(m, c.Idx, c.Lock, c.Amount, flags, libexec.CopyState(rec), &libexec.Recorder{})
	sepBefore := rec.LastCodeSeparatorIdx > 0
	sepAtZero := false
	if rec.OpcodeIdx > 0 && len(rec.Scripts[rec.ScriptIdx]) > 0 {
		sepAtZero = rec.Scripts[rec.ScriptIdx][0].Value() == 0xab && rec.LastCodeSeparatorIdx == 0
	}
	sigAfter := 0
	for i := at; i < len(r.Trace); i++ {
		if r.Trace[i].Executed && sgen.IsSigOp(r.Trace[i].Op) {
			sigAfter++
		}
	}
	ctx.Labelf("resumed_after_executed_separator=%v", sepBefore || sepAtZero)
	ctx.Labelf("separator_is_first_instruction=%v", sepAtZero)
	ctx.Labelf("sigops_after_resumption=%v", sigAfter > 0)
	ctx.Labelf("resumed_in_script=%d", rec.ScriptIdx)
	if r.OK {
		ctx.Label("verdict=accept")
	} else {
		ctx.Label("verdict=reject")
	}
	if at > 0 && sigAfter > 0 {
		ctx.NonTrivial()
		if sepBefore || sepAtZero {
			ctx.Label("sigop_after_resumption_behind_earlier_separator")
		}
	}
	where := fmt.Sprintf("resumed from BeforeStep record %d of %d (script %d, opcode %d, last separator %d)", at, len(k.States), rec.ScriptIdx, rec.OpcodeIdx, rec.LastCodeSeparatorIdx)
	err := libexec.CompareResumed(out, at, r, true)
	if err != nil && out.Panic == "" && !flags.Has(interp.FlagForkID) {
		chk16 := chk
		chk16.BitSelectsDigest = true
		r16 := interp.VerifyScript(c.Unlock, c.Lock, flags, chk16, true, lim)
		if !r16.BudgetHit && libexec.CompareResumed(out, at, r16, true) == nil && ctx.Known("L16") {
			ctx.Label("excluded=L16")
			return nil
		}
	}
	if err != nil {
		return fmt.Errorf("%v; %s; sigops=%v; %s", err, where, r.SigOps, id)
	}
	return nil
}

func TestResume(t *testing.T) {
	pbt.Run(t, pbt.Sub[ResumeCase]{
		Name: "resume", Quick: 18000, Thorough: 700000,
		Gen: func(t *rapid.T) ResumeCase {
			p := sgen.SigScripts(t)
			return ResumeCase{Case: Case{Unlock: p.Unlock, Lock: p.Lock, Flags: uint32(p.Flags), Tx: p.Tx, Idx: p.Idx, Amount: p.Amount, Desc: p.Desc},
				At: rapid.IntRange(0, 40).Draw(t, "at")}
		},
		Check: checkResume,
	})
}
