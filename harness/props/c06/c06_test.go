// Package c06 decides property C06: OP_CHECKSIG(VERIFY) / OP_CHECKMULTISIG(VERIFY)
// accept exactly valid, correctly ordered signatures over the right script code,
// and the signature flags turn exactly the specified cases into hard failures.
package c06

import (
	"bytes"
	"fmt"
	"os"
	"strings"
	"testing"

	"github.com/libsv/go-bt/v2"
	"github.com/libsv/go-bt/v2/bscript"
	"github.com/libsv/go-bt/v2/bscript/interpreter"
	"pgregory.net/rapid"

	"verif/harness/interp"
	"verif/harness/libexec"
	"verif/harness/pbt"
	"verif/harness/ref"
	"verif/harness/sgen"
)

func TestMain(m *testing.M) {
	c, err := interp.Calibrate()
	if err != nil || c.VerdictAgree != c.Vectors {
		fmt.Printf("CALIBRATION FAILED: %v %+v\n", err, c)
		os.Exit(2)
	}
	pbt.SetExtra("sigops", "calibration_vectors", c.Vectors)
	pbt.Main(m)
}

// Case is a fully materialised signature program.
type Case struct {
	Unlock pbt.Hex `json:"unlock"`
	Lock   pbt.Hex `json:"lock"`
	Flags  uint32  `json:"flags"`
	Tx     ref.Tx  `json:"tx"`
	Idx    int     `json:"idx"`
	Amount uint64  `json:"amount"`
	Desc   string  `json:"desc,omitempty"`
}

var lim = interp.Limits{MaxElem: 1 << 20}

func check(ctx *pbt.Ctx, c Case) error {
	flags := interp.Flags(c.Flags)
	m := c.Tx
	m.In = append([]ref.In{}, c.Tx.In...)
	m.In[c.Idx].Unlock = c.Unlock
	r := interp.VerifyScript(c.Unlock, c.Lock, flags, interp.TxChecker{Tx: m, Idx: c.Idx, Amount: c.Amount}, true, lim)
	if r.BudgetHit {
		ctx.Discard("over_budget")
		return nil
	}
	tx := ref.ToLib(m)
	before := append([]byte{}, tx.Bytes()...)
	lockObj := bscript.NewFromBytes(append([]byte{}, c.Lock...))
	rec := &libexec.Recorder{}
	var execErr error
	var panicked any
	func() {
		defer func() { panicked = recover() }()
		opts := append([]interpreter.ExecutionOptionFunc{interpreter.WithTx(tx, c.Idx, &bt.Output{Satoshis: c.Amount, LockingScript: lockObj})},
			libexec.FlagOpts(flags, len(c.Lock)+len(c.Unlock))...)
		execErr = interpreter.NewEngine().Execute(append(opts, interpreter.WithDebugger(rec))...)
	}()
	id := fmt.Sprintf("unlock=%x lock=%x flags=%#x idx=%d amount=%d [%s]", []byte(c.Unlock), []byte(c.Lock), c.Flags, c.Idx, c.Amount, c.Desc)
	if panicked != nil {
		return fmt.Errorf("library panicked: %v; %s", panicked, id)
	}
	// labels
	if flags.Has(interp.FlagAfterGenesis) {
		ctx.Label("era=post")
	} else {
		ctx.Label("era=pre")
	}
	if flags.Has(interp.FlagForkID) {
		ctx.Label("digest=forkid-flag")
	} else {
		ctx.Label("digest=legacy-flag")
	}
	if i := strings.IndexByte(c.Desc, '/'); i >= 0 { // shape decorations of the generated program
		for _, d := range strings.Split(c.Desc[:i], "+")[1:] {
			ctx.Label("shape=+" + d)
		}
		if strings.Contains(c.Desc[:i], "+unlock-checksig") {
			both := 0
			for _, so := range r.SigOps {
				if so.Outcome == "true" {
					both++
				}
			}
			if both >= 2 {
				ctx.Label("shape=unlock-checksig-and-lock-sigop-both-true")
			}
		}
	}
	nontrivial := false
	for _, so := range r.SigOps {
		ctx.Labelf("sigop=%02x:%s", so.Op, so.Outcome)
		if so.Op >= 0xae {
			nontrivial = true
		}
	}
	if bytes.Contains(c.Lock, []byte{0xab}) || flags&(interp.FlagStrictEnc|interp.FlagDERSig|interp.FlagLowS|interp.FlagNullDummy|interp.FlagNullFail) != 0 {
		nontrivial = true
	}
	if nontrivial && len(r.SigOps) > 0 {
		ctx.NonTrivial()
	}
	if r.OK {
		ctx.Label("verdict=accept")
	} else {
		ctx.Label("verdict=reject:" + r.Err)
	}
	// the caller's transaction and script are untouched by signature checking (C08 clause)
	if !bytes.Equal(tx.Bytes(), before) {
		return fmt.Errorf("transaction serialisation changed by signature checking; %s", id)
	}
	if !bytes.Equal(*lockObj, c.Lock) || !bytes.Equal(*tx.Inputs[c.Idx].UnlockingScript, c.Unlock) {
		return fmt.Errorf("script bytes changed by signature checking; %s", id)
	}
	libOK := execErr == nil
	if !flags.Has(interp.FlagForkID) && (libOK != r.OK || libexec.CompareTraces(rec.Steps, libOK, r) != nil) {
		// Recorded finding L16: without the FORKID flag the library still selects the
		// replay-protected digest from the hash type's FORKID bit. Excused only when the
		// library agrees, verdict and every step, with the rules altered in exactly that way.
		r16 := interp.VerifyScript(c.Unlock, c.Lock, flags, interp.TxChecker{Tx: m, Idx: c.Idx, Amount: c.Amount, BitSelectsDigest: true}, true, lim)
		if !r16.BudgetHit && libOK == r16.OK && libexec.CompareTraces(rec.Steps, libOK, r16) == nil && ctx.Known("L16") {
			ctx.Label("excluded=L16")
			return nil
		}
	}
	if libOK != r.OK {
		return fmt.Errorf("verdict: library err=%v, rules ok=%v (%s) sigops=%v; %s", execErr, r.OK, r.Err, r.SigOps, id)
	}
	if err := libexec.CompareTraces(rec.Steps, libOK, r); err != nil {
		return fmt.Errorf("%v; sigops=%v liberr=%v; %s", err, r.SigOps, execErr, id)
	}
	return nil
}

func TestSigOps(t *testing.T) {
	pbt.Run(t, pbt.Sub[Case]{
		Name: "sigops", Quick: 120000, Thorough: 2400000,
		Gen: func(t *rapid.T) Case {
			p := sgen.SigScripts(t)
			return Case{Unlock: p.Unlock, Lock: p.Lock, Flags: uint32(p.Flags), Tx: p.Tx, Idx: p.Idx, Amount: p.Amount, Desc: p.Desc}
		},
		Check: check,
	})
}
