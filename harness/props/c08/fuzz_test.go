package c08

import (
	"testing"

	"verif/harness/interp"
	"verif/harness/libexec"
	"verif/harness/pbt"
	"verif/harness/sgen"
)

var nonSigMask = func() uint32 {
	var m interp.Flags
	for _, f := range sgen.FlagPoolNonSig {
		m |= f
	}
	return uint32(m)
}()

func hasSigByte(b []byte) bool {
	for _, x := range b {
		if x >= 0xac && x <= 0xaf {
			return true
		}
	}
	return false
}

// FuzzAlias is the coverage-guided target of the thorough tier: arbitrary signature-free script
// bytes through the `programs` oracle (caller data untouched, every step's stacks equal the
// reference's always-fresh copies, capacity canaries intact), in the four invocation modes.
func FuzzAlias(f *testing.F) {
	for _, v := range vectors {
		if hasSigByte(v.Unlock) || hasSigByte(v.Lock) || len(v.Unlock)+len(v.Lock) > 200 {
			continue
		}
		f.Add(v.Unlock, v.Lock, uint32(v.Flags), uint8(0))
	}
	// duplicated items followed by in-place candidates
	f.Add([]byte{0x02, 0x81, 0x80}, []byte{0x76, 0x76, 0x81, 0x6b, 0x51, 0x98, 0x6c, 0x75, 0x75, 0x75, 0x51}, uint32(interp.FlagAfterGenesis), uint8(1))
	f.Add([]byte{0x04, 1, 2, 3, 4}, []byte{0x76, 0x52, 0x7f, 0x7e, 0x6e, 0x84, 0x83, 0x6d, 0x75, 0x51}, uint32(interp.FlagAfterGenesis), uint8(2))
	flim := interp.Limits{MaxElem: 1 << 14}
	f.Fuzz(func(t *testing.T, unlock, lock []byte, flags uint32, invoke uint8) {
		if len(unlock) > 200 || len(lock) > 200 || hasSigByte(unlock) || hasSigByte(lock) {
			t.Skip()
		}
		c := Case{Prog: libexec.Prog{Unlock: unlock, Lock: lock, Flags: flags & nonSigMask,
			Ctx: libexec.TxCtx{Version: 1, Seq: 0xffffffff, Amount: 1}, Level: "fuzz"}, Invoke: int(invoke % 4)}
		m := c.Ctx.Model(c.Unlock, c.Lock)
		if r := interp.VerifyScript(c.Unlock, c.Lock, interp.Flags(c.Flags), interp.TxChecker{Tx: m, Idx: c.Ctx.Index(), Amount: 1}, false, flim); r.BudgetHit {
			t.Skip()
		}
		pbt.FuzzCheck(t, "C08", "programs", check, c)
	})
}
