package c08

import (
	"fmt"
	"testing"
	"unsafe"

	"github.com/libsv/go-bt/v2"
	"github.com/libsv/go-bt/v2/bscript"
	"github.com/libsv/go-bt/v2/bscript/interpreter"
	"pgregory.net/rapid"

	"verif/harness/interp"
	"verif/harness/libexec"
	"verif/harness/pbt"
	"verif/harness/ref"
	"verif/harness/sgen"
)

// ---------------------------------------------------------------------------
// sub-check: resume. The exported option WithState starts an execution from a
// State value the caller hands in (the documentation recommends the records a
// debugger receives in BeforeStep / AfterStep). That value is caller data like
// the scripts and the transaction: the execution must not change it - not the
// items of its stacks, not the bytes behind them, not the slots of the arrays
// the caller cut the stacks from - so that the same value can be used again.
// A program is executed once with a debugger that keeps the BeforeStep
// records; one of them is copied into storage the harness owns (items with
// capacity canaries, data and alt stack optionally cut from ONE array, spare
// slots behind each stack) and the execution is resumed from it twice.
// Oracle: the State value reads after each resumption exactly what it read
// before, and both resumptions return the verdict of the uninterrupted run.
// ---------------------------------------------------------------------------

// ResumeCase is a program, the step to resume from and how the caller laid out the stacks.
type ResumeCase struct {
	libexec.Prog
	At    int  `json:"at"`    // index of the BeforeStep record (modulo the number of records)
	OneAr bool `json:"onear"` // data, alt (and else) stack are consecutive windows of one array
	Spare int  `json:"spare"` // spare slots behind each stack window (0..3)
}

type keeper struct {
	libexec.Recorder
	states []*interpreter.State
}

func (k *keeper) BeforeStep(s *interpreter.State) { k.states = append(k.states, s) }

type header struct {
	p   unsafe.Pointer
	len int
}

func headers(full [][]byte) []header {
	h := make([]header, len(full))
	for i, b := range full {
		h[i] = header{unsafe.Pointer(unsafe.SliceData(b)), len(b)}
	}
	return h
}

// ownedState copies a record into storage laid out by the caller.
func ownedState(s *interpreter.State, oneArray bool, spare int) (st *interpreter.State, arrays [][][]byte) {
	c := *s
	total := len(s.DataStack) + len(s.AltStack) + len(s.ElseStack) + 3*spare
	var arena [][]byte
	if oneArray {
		arena = make([][]byte, 0, total)
	}
	window := func(src [][]byte, last bool) [][]byte {
		var w [][]byte
		if oneArray {
			start := len(arena)
			for _, it := range src {
				arena = append(arena, ref.Canary(it))
			}
			w = arena[start:len(arena)] // capacity runs over the windows that follow
			if last {
				for i := 0; i < spare; i++ {
					arena = append(arena, ref.Canary([]byte{0xaa, byte(i)}))
				}
			}
			return w
		}
		w = make([][]byte, 0, len(src)+spare)
		for _, it := range src {
			w = append(w, ref.Canary(it))
		}
		full := w[:cap(w)]
		for i := len(w); i < len(full); i++ {
			full[i] = ref.Canary([]byte{0xaa, byte(i)})
		}
		arrays = append(arrays, full)
		return w
	}
	c.DataStack = window(s.DataStack, false)
	c.AltStack = window(s.AltStack, false)
	c.ElseStack = window(s.ElseStack, true)
	if oneArray {
		arrays = append(arrays, arena[:cap(arena)][:len(arena)])
	}
	c.CondStack = append(make([]int, 0, len(s.CondStack)+spare), s.CondStack...)
	return &c, arrays
}

type stateView struct {
	data, alt, els [][]byte
	cond           []int
	sidx, oidx     int
	lastSep, nops  int
	hdrs           [][]header
	condSpare      []int
}

func viewOf(st *interpreter.State, arrays [][][]byte) stateView {
	v := stateView{data: cpItems(st.DataStack), alt: cpItems(st.AltStack), els: cpItems(st.ElseStack), cond: append([]int{}, st.CondStack...),
		sidx: st.ScriptIdx, oidx: st.OpcodeIdx, lastSep: st.LastCodeSeparatorIdx, nops: st.NumOps}
	for _, a := range arrays {
		v.hdrs = append(v.hdrs, headers(a))
	}
	v.condSpare = append([]int{}, st.CondStack[:cap(st.CondStack)]...)
	return v
}

func cpItems(s [][]byte) [][]byte {
	o := make([][]byte, len(s))
	for i, b := range s {
		o[i] = append([]byte{}, b...)
	}
	return o
}

func diffView(a, b stateView, st *interpreter.State, arrays [][][]byte) string {
	switch {
	case fmt.Sprintf("%x", a.data) != fmt.Sprintf("%x", b.data):
		return fmt.Sprintf("DataStack %x -> %x", a.data, b.data)
	case fmt.Sprintf("%x", a.alt) != fmt.Sprintf("%x", b.alt):
		return fmt.Sprintf("AltStack %x -> %x", a.alt, b.alt)
	case fmt.Sprintf("%x", a.els) != fmt.Sprintf("%x", b.els):
		return fmt.Sprintf("ElseStack %x -> %x", a.els, b.els)
	case fmt.Sprint(a.cond) != fmt.Sprint(b.cond) || fmt.Sprint(a.condSpare) != fmt.Sprint(b.condSpare):
		return fmt.Sprintf("CondStack %v -> %v (with spare slots %v -> %v)", a.cond, b.cond, a.condSpare, b.condSpare)
	case a.sidx != b.sidx || a.oidx != b.oidx || a.lastSep != b.lastSep || a.nops != b.nops:
		return fmt.Sprintf("scalars (script %d opcode %d separator %d ops %d) -> (%d %d %d %d)", a.sidx, a.oidx, a.lastSep, a.nops, b.sidx, b.oidx, b.lastSep, b.nops)
	}
	for i := range a.hdrs {
		for j := range a.hdrs[i] {
			if a.hdrs[i][j] != b.hdrs[i][j] {
				return fmt.Sprintf("slot %d of the array the caller cut the stacks from now holds another slice (length %d -> %d)", j, a.hdrs[i][j].len, b.hdrs[i][j].len)
			}
		}
	}
	for _, arr := range arrays {
		for j, it := range arr {
			if ref.CanaryDamaged(it) {
				return fmt.Sprintf("the bytes behind item %d of a stack array handed in were overwritten", j)
			}
		}
	}
	return ""
}

func checkResume(ctx *pbt.Ctx, c ResumeCase) error {
	if c.Spare < 0 || c.Spare > 3 || c.At < 0 {
		ctx.Discard("malformed case")
		return nil
	}
	flags := interp.Flags(c.Flags)
	model := c.Ctx.Model(c.Unlock, c.Lock)
	r := interp.VerifyScript(c.Unlock, c.Lock, flags, interp.TxChecker{Tx: model, Idx: c.Ctx.Index(), Amount: c.Ctx.Amount}, true, lim)
	if r.BudgetHit {
		ctx.Discard("over_budget")
		return nil
	}
	run := func(dbg interpreter.Debugger, st *interpreter.State) (err error, panicked any) {
		tx := ref.ToLib(model)
		prev := &bt.Output{Satoshis: c.Ctx.Amount, LockingScript: bscript.NewFromBytes(ref.Canary(c.Lock))}
		opts := append(libexec.FlagOpts(flags, len(c.Lock)+len(c.Unlock)), interpreter.WithTx(tx, 0, prev))
		if dbg != nil {
			opts = append(opts, interpreter.WithDebugger(dbg))
		}
		if st != nil {
			opts = append(opts, interpreter.WithState(st))
		}
		func() {
			defer func() { panicked = recover() }()
			err = interpreter.NewEngine().Execute(opts...)
		}()
		return err, panicked
	}
	k := &keeper{}
	full, p0 := run(k, nil)
	if p0 != nil {
		return fmt.Errorf("library panicked: %v", p0)
	}
	if len(k.states) == 0 {
		ctx.Discard("no step reached")
		return nil
	}
	at := c.At % len(k.states)
	rec := k.states[at]
	if rec.ScriptIdx < 0 || rec.ScriptIdx >= len(rec.Scripts) {
		ctx.Discard("record without a current script")
		return nil
	}
	st, arrays := ownedState(rec, c.OneAr, c.Spare)
	before := viewOf(st, arrays)
	id := fmt.Sprintf("unlock=%x lock=%x flags=%#x, resumed from the BeforeStep record %d of %d (script %d, opcode %d, data stack %d items, alt stack %d), stacks cut from one array: %v, spare slots %d",
		[]byte(c.Unlock), []byte(c.Lock), c.Flags, at, len(k.states), rec.ScriptIdx, rec.OpcodeIdx, len(rec.DataStack), len(rec.AltStack), c.OneAr, c.Spare)
	for n := 1; n <= 2; n++ {
		err, p := run(nil, st)
		if p != nil {
			return fmt.Errorf("library panicked in resumption %d: %v; %s", n, p, id)
		}
		if d := diffView(before, viewOf(st, arrays), st, arrays); d != "" {
			return fmt.Errorf("the State value handed to WithState was changed by resumption %d: %s; %s", n, d, id)
		}
		if (err == nil) != (full == nil) {
			return fmt.Errorf("resumption %d returned %v, the uninterrupted execution %v; %s", n, err, full, id)
		}
	}
	ctx.Label("level=" + c.Level)
	ctx.Labelf("one_array=%v", c.OneAr)
	ctx.Labelf("resumed_with_alt_items=%v", len(rec.AltStack) > 0)
	ctx.Labelf("resumed_in_script=%d", rec.ScriptIdx)
	if len(rec.DataStack)+len(rec.AltStack) >= 2 && at > 0 {
		ctx.NonTrivial()
	}
	return nil
}

func TestResume(t *testing.T) {
	pbt.Run(t, pbt.Sub[ResumeCase]{
		Name: "resume", Quick: 40000, Thorough: 1000000,
		Gen: func(t *rapid.T) ResumeCase {
			flags := sgen.Flags(t, sgen.FlagPoolNonSig)
			var p sgen.Program
			switch rapid.IntRange(0, 9).Draw(t, "level") {
			case 8, 9:
				p = sgen.DeepStack(t, flags)
			case 0:
				p = sgen.RandomOps(t, flags, sgen.IsSigOp)
			case 1:
				p = sgen.MutateVector(t, vectors, sgen.FlagPoolNonSig, sgen.IsSigOp)
			default:
				p = sgen.StackAware(t, flags, 14)
			}
			return ResumeCase{Prog: libexec.Prog{Unlock: p.Unlock, Lock: p.Lock, Flags: uint32(p.Flags), Ctx: libexec.TxCtx{Version: 2, LockTime: 100, Seq: 50, Amount: 1}, Level: p.Level},
				At: rapid.IntRange(0, 200).Draw(t, "at"), OneAr: rapid.Bool().Draw(t, "one_array"), Spare: rapid.IntRange(0, 3).Draw(t, "spare")}
		},
		Check: checkResume,
	})
}
