package c08

import (
	"bytes"
	"fmt"
	"testing"

	"github.com/libsv/go-bt/v2"
	"github.com/libsv/go-bt/v2/bscript"
	"github.com/libsv/go-bt/v2/bscript/interpreter"
	"github.com/libsv/go-bt/v2/bscript/interpreter/scriptflag"
	"pgregory.net/rapid"

	"verif/harness/pbt"
	"verif/harness/ref"
	"verif/harness/sgen"
)

// SigCase is a signature program (see sgen.SigScripts); only the caller-data clause is judged here.
type SigCase struct {
	Unlock pbt.Hex `json:"unlock"`
	Lock   pbt.Hex `json:"lock"`
	Flags  uint32  `json:"flags"`
	Tx     ref.Tx  `json:"tx"`
	Idx    int     `json:"idx"`
	Amount uint64  `json:"amount"`
	Desc   string  `json:"desc,omitempty"`
}

func checkSig(ctx *pbt.Ctx, c SigCase) error {
	m := c.Tx
	m.In = append([]ref.In{}, c.Tx.In...)
	m.In[c.Idx].Unlock = c.Unlock
	tx := ref.ToLib(m)
	before := append([]byte{}, tx.Bytes()...)
	type snap struct {
		ext  []byte
		sats uint64
		prev []byte
	}
	others := map[int]snap{}
	for i, in := range tx.Inputs {
		if i != c.Idx {
			others[i] = snap{append([]byte{}, in.Bytes(false)...), in.PreviousTxSatoshis, append([]byte{}, *in.PreviousTxScript...)}
		}
	}
	chk := tx.Inputs[c.Idx]
	chkPrevBefore, chkSatsBefore := append([]byte{}, *chk.PreviousTxScript...), chk.PreviousTxSatoshis
	outs := make([][]byte, len(tx.Outputs))
	for i, o := range tx.Outputs {
		outs[i] = append([]byte{}, o.Bytes()...)
	}
	lockObj := bscript.NewFromBytes(append([]byte{}, c.Lock...))
	var panicked any
	var execErr error
	func() {
		defer func() { panicked = recover() }()
		execErr = interpreter.NewEngine().Execute(
			interpreter.WithTx(tx, c.Idx, &bt.Output{Satoshis: c.Amount, LockingScript: lockObj}),
			interpreter.WithFlags(scriptflag.Flag(c.Flags)))
	}()
	id := fmt.Sprintf("unlock=%x lock=%x flags=%#x idx=%d/%d outputs=%d [%s]", []byte(c.Unlock), []byte(c.Lock), c.Flags, c.Idx, len(tx.Inputs), len(tx.Outputs), c.Desc)
	if panicked != nil {
		return fmt.Errorf("library panicked: %v; %s", panicked, id)
	}
	if !bytes.Equal(tx.Bytes(), before) {
		return fmt.Errorf("transaction serialisation changed by execution: before %x after %x; %s", before, tx.Bytes(), id)
	}
	for i, o := range tx.Outputs {
		if !bytes.Equal(o.Bytes(), outs[i]) {
			return fmt.Errorf("output %d changed by execution; %s", i, id)
		}
	}
	for i, s := range others {
		in := tx.Inputs[i]
		if !bytes.Equal(in.Bytes(false), s.ext) || in.PreviousTxSatoshis != s.sats || !bytes.Equal(*in.PreviousTxScript, s.prev) {
			return fmt.Errorf("input %d (not the checked one) changed by execution; %s", i, id)
		}
	}
	// the statement allows exactly one side effect: the checked input records the spent output
	recorded := chk.PreviousTxScript != nil && bytes.Equal(*chk.PreviousTxScript, c.Lock) && chk.PreviousTxSatoshis == c.Amount
	untouched := chk.PreviousTxScript != nil && bytes.Equal(*chk.PreviousTxScript, chkPrevBefore) && chk.PreviousTxSatoshis == chkSatsBefore
	if !recorded && !untouched {
		return fmt.Errorf("checked input carries previous script %x / %d satoshis after execution: neither what it carried before (%x / %d) nor the spent output (%x / %d); %s",
			[]byte(*chk.PreviousTxScript), chk.PreviousTxSatoshis, chkPrevBefore, chkSatsBefore, []byte(c.Lock), c.Amount, id)
	}
	if !bytes.Equal(*lockObj, c.Lock) || !bytes.Equal(*tx.Inputs[c.Idx].UnlockingScript, c.Unlock) {
		return fmt.Errorf("script bytes changed by execution; %s", id)
	}
	if execErr == nil {
		ctx.Label("accept")
	} else {
		ctx.Label("reject")
	}
	ctx.Labelf("inputs=%d", len(tx.Inputs))
	if len(tx.Inputs) > 1 || len(tx.Outputs) > 1 {
		ctx.NonTrivial()
	}
	return nil
}

func TestSigPrograms(t *testing.T) {
	pbt.Run(t, pbt.Sub[SigCase]{
		Name: "sigprograms", Quick: 60000, Thorough: 1200000,
		Gen: func(t *rapid.T) SigCase {
			p := sgen.SigScripts(t)
			return SigCase{Unlock: p.Unlock, Lock: p.Lock, Flags: uint32(p.Flags), Tx: p.Tx, Idx: p.Idx, Amount: p.Amount, Desc: p.Desc}
		},
		Check: checkSig,
	})
}
