package c08

import (
	"bytes"
	"fmt"
	"testing"

	"github.com/libsv/go-bt/v2"
	"github.com/libsv/go-bt/v2/bscript"
	"github.com/libsv/go-bt/v2/bscript/interpreter"
	"pgregory.net/rapid"

	"verif/harness/interp"
	"verif/harness/libexec"
	"verif/harness/pbt"
	"verif/harness/ref"
	"verif/harness/sgen"
)

// ---------------------------------------------------------------------------
// sub-check: sequences (ninth round). ONE transaction object is checked several times - the same
// input against different candidate spent outputs (a wallet trying which output an input spends;
// a re-check after a reorganisation), or against the same output again. Every call hands over its
// own spent-output object. Execution "only records the spent output's value and script on the
// checked input": what it records on the caller's transaction must never become a channel into the
// objects of EARLIER calls. Oracle, after every call and once more at the end: every spent output
// handed to an earlier call still holds its value and its script bytes (capacity canaries intact),
// the transaction serialises as before, and each call's verdict is the reference's for that pair.
// ---------------------------------------------------------------------------

// SeqCase is an unlocking script, candidate locking scripts and the order they are checked in.
type SeqCase struct {
	Unlock  pbt.Hex       `json:"unlock"`
	Locks   []pbt.Hex     `json:"locks"`
	Order   []int         `json:"order"`
	Flags   uint32        `json:"flags"`
	Ctx     libexec.TxCtx `json:"ctx"`
	NilPrev bool          `json:"nilprev"` // the checked input carries no recorded spent output at first (as parsed from the wire)
	OneEng  bool          `json:"oneeng"`  // all calls on one engine
	Amounts []uint64      `json:"amounts"`
}

func checkSequence(ctx *pbt.Ctx, c SeqCase) error {
	if len(c.Locks) == 0 || len(c.Locks) > 4 || len(c.Order) < 2 || len(c.Order) > 6 {
		ctx.Discard("malformed case")
		return nil
	}
	flags := interp.Flags(c.Flags)
	idx := c.Ctx.Index()
	model := c.Ctx.Model(c.Unlock, c.Locks[0])
	tx := ref.ToLib(model)
	if c.NilPrev {
		tx.Inputs[idx].PreviousTxScript = nil
		tx.Inputs[idx].PreviousTxSatoshis = 0
	}
	before := append([]byte{}, tx.Bytes()...)
	type handed struct {
		obj    *bt.Output
		script *bscript.Script
		bytes  []byte
		sats   uint64
		call   int
	}
	var kept []handed
	eng := interpreter.NewEngine()
	// the option values are built once per case and handed to every call that needs them
	libexec.SetPool(libexec.NewOptPool())
	defer libexec.SetPool(nil)
	look := func(after int) error {
		for _, h := range kept {
			if h.obj.LockingScript != h.script {
				return fmt.Errorf("after call %d: the spent output handed to call %d now points to another script object", after, h.call)
			}
			if !bytes.Equal(*h.script, h.bytes) {
				return fmt.Errorf("after call %d: the locking script handed to call %d changed: %x became %x", after, h.call, h.bytes, []byte(*h.script))
			}
			if ref.CanaryDamaged(*h.script) {
				return fmt.Errorf("after call %d: the bytes behind the locking script handed to call %d were overwritten", after, h.call)
			}
			if h.obj.Satoshis != h.sats {
				return fmt.Errorf("after call %d: the value of the spent output handed to call %d changed: %d became %d", after, h.call, h.sats, h.obj.Satoshis)
			}
		}
		if !bytes.Equal(tx.Bytes(), before) {
			return fmt.Errorf("after call %d: the transaction serialises differently", after)
		}
		return nil
	}
	distinct := map[int]bool{}
	for k, li := range c.Order {
		if li < 0 || li >= len(c.Locks) {
			ctx.Discard("malformed order")
			return nil
		}
		lock := c.Locks[li]
		amount := c.Ctx.Amount
		if k < len(c.Amounts) {
			amount = c.Amounts[k]
		}
		m := c.Ctx.Model(c.Unlock, lock)
		r := interp.VerifyScript(c.Unlock, lock, flags, interp.TxChecker{Tx: m, Idx: idx, Amount: amount}, false, lim)
		if r.BudgetHit {
			ctx.Discard("over_budget")
			return nil
		}
		so := bscript.NewFromBytes(ref.Canary(lock))
		prev := &bt.Output{Satoshis: amount, LockingScript: so}
		kept = append(kept, handed{prev, so, append([]byte{}, lock...), amount, k})
		if !c.OneEng {
			eng = interpreter.NewEngine()
		}
		var err error
		var panicked any
		func() {
			defer func() { panicked = recover() }()
			err = eng.Execute(append([]interpreter.ExecutionOptionFunc{interpreter.WithTx(tx, idx, prev)}, libexec.FlagOpts(flags, len(lock)+k)...)...)
		}()
		id := fmt.Sprintf("unlock=%x locks=%x order=%v flags=%#x nilprev=%v", []byte(c.Unlock), c.Locks, c.Order, c.Flags, c.NilPrev)
		if panicked != nil {
			return fmt.Errorf("call %d panicked: %v; %s", k, panicked, id)
		}
		if (err == nil) != r.OK {
			return fmt.Errorf("call %d (lock %d): library err=%v, rules ok=%v (%s); %s", k, li, err, r.OK, r.Err, id)
		}
		if lerr := look(k); lerr != nil {
			return fmt.Errorf("%v; %s", lerr, id)
		}
		distinct[li] = true
	}
	ctx.Labelf("distinct_outputs=%d", len(distinct))
	ctx.Labelf("nilprev=%v", c.NilPrev)
	ctx.Labelf("one_engine=%v", c.OneEng)
	if len(distinct) >= 2 {
		ctx.NonTrivial()
	}
	return nil
}

func TestSequences(t *testing.T) {
	pbt.Run(t, pbt.Sub[SeqCase]{
		Name: "sequences", Quick: 40000, Thorough: 800000,
		Gen: func(t *rapid.T) SeqCase {
			flags := sgen.Flags(t, sgen.FlagPoolNonSig)
			var p sgen.Program
			if rapid.IntRange(0, 3).Draw(t, "level") == 0 {
				p = sgen.MutateVector(t, vectors, sgen.FlagPoolNonSig, sgen.IsSigOp)
			} else {
				p = sgen.StackAware(t, flags, 8)
			}
			c := SeqCase{Unlock: p.Unlock, Flags: uint32(p.Flags), Ctx: libexec.TxCtx{Version: 2, LockTime: 100, Seq: 50, Amount: 1},
				NilPrev: rapid.Bool().Draw(t, "nilprev"), OneEng: rapid.Bool().Draw(t, "oneeng")}
			c.Locks = append(c.Locks, p.Lock)
			n := rapid.IntRange(1, 3).Draw(t, "nlocks")
			for i := 0; i < n; i++ {
				var l []byte
				switch rapid.IntRange(0, 3).Draw(t, "variant") {
				case 0:
					l = append(append([]byte{}, p.Lock...), 0x61) // trailing OP_NOP
				case 1:
					l = append([]byte{0x61}, p.Lock...)
				case 2:
					l = append(append([]byte{}, p.Lock...), 0x75, byte(0x51+i)) // DROP <i+1>
				default:
					l = sgen.StackAware(t, flags, 6).Lock
				}
				c.Locks = append(c.Locks, l)
			}
			no := rapid.IntRange(2, 5).Draw(t, "ncalls")
			for i := 0; i < no; i++ {
				c.Order = append(c.Order, rapid.IntRange(0, len(c.Locks)-1).Draw(t, "pick"))
				c.Amounts = append(c.Amounts, uint64(rapid.IntRange(0, 3).Draw(t, "amount")))
			}
			return c
		},
		Check: checkSequence,
	})
}
