// Package c08 decides property C08: executing scripts never changes the
// caller's script/transaction bytes, and transforming one stack item never
// changes another (twins made by duplication, picking, splitting, alt stack).
package c08

import (
	"bytes"
	"fmt"
	"math/big"
	"os"
	"testing"

	"github.com/libsv/go-bt/v2"
	"github.com/libsv/go-bt/v2/bscript"
	"github.com/libsv/go-bt/v2/bscript/interpreter"
	"pgregory.net/rapid"

	"verif/harness/interp"
	"verif/harness/libexec"
	"verif/harness/pbt"
	"verif/harness/ref"
	"verif/harness/sgen"
)

var vectors []interp.Vector

func TestMain(m *testing.M) {
	c, err := interp.Calibrate()
	if err != nil || c.VerdictAgree != c.Vectors {
		fmt.Printf("CALIBRATION FAILED: %v %+v\n", err, c)
		os.Exit(2)
	}
	pbt.SetExtra("twins", "calibration_vectors", c.Vectors)
	vectors, _ = interp.LoadVectors()
	pbt.Main(m)
}

// Case is a program plus how the engine is invoked (0 = WithTx, 1 = WithScripts).
type Case struct {
	libexec.Prog
	Invoke int    `json:"invoke"`
	Desc   string `json:"desc,omitempty"`
}

var lim = interp.Limits{MaxElem: 1 << 21}

func check(ctx *pbt.Ctx, c Case) error {
	flags := interp.Flags(c.Flags)
	model := c.Ctx.Model(c.Unlock, c.Lock)
	r := interp.VerifyScript(c.Unlock, c.Lock, flags, interp.TxChecker{Tx: model, Idx: c.Ctx.Index(), Amount: c.Ctx.Amount}, true, lim)
	if r.BudgetHit {
		ctx.Discard("over_budget")
		return nil
	}
	// caller-owned objects
	if c.Invoke == 2 || c.Invoke == 3 {
		// the transaction's checked input carries no unlocking script of its own; the script is
		// supplied through WithScripts next to WithTx
		model.In = append([]ref.In{}, model.In...)
		model.In[0].Unlock, model.In[0].UnlockNil = nil, true
	}
	tx := ref.ToLib(model)
	// two extra inputs whose recorded previous output must not be touched
	other := &bt.Input{PreviousTxOutIndex: 7, SequenceNumber: 9, PreviousTxSatoshis: 1234,
		PreviousTxScript: bscript.NewFromBytes([]byte{0x51, 0x52}), UnlockingScript: bscript.NewFromBytes([]byte{0x53})}
	_ = other.PreviousTxIDAdd(bytes.Repeat([]byte{0xee}, 32))
	tx.Inputs = append(tx.Inputs, other)
	model2 := ref.FromLib(tx)
	// the reference digest context must match what the library sees
	r = interp.VerifyScript(c.Unlock, c.Lock, flags, interp.TxChecker{Tx: model2, Idx: c.Ctx.Index(), Amount: c.Ctx.Amount}, true, lim)
	if r.BudgetHit {
		ctx.Discard("over_budget")
		return nil
	}
	lockObj := bscript.NewFromBytes(ref.Canary(c.Lock))
	unlockObj := tx.Inputs[0].UnlockingScript
	prev := &bt.Output{Satoshis: c.Ctx.Amount, LockingScript: lockObj}
	txBefore := append([]byte{}, tx.Bytes()...)
	otherExtBefore := append([]byte{}, other.Bytes(false)...)
	otherPrevBefore := append([]byte{}, *other.PreviousTxScript...)
	rec := &libexec.Recorder{}
	opts := append(libexec.FlagOpts(flags, len(c.Lock)+len(c.Unlock)), interpreter.WithDebugger(rec))
	if c.Invoke == 1 {
		unlockObj = bscript.NewFromBytes(ref.Canary(c.Unlock))
		opts = append(opts, interpreter.WithScripts(lockObj, unlockObj))
	} else if c.Invoke == 2 {
		unlockObj = bscript.NewFromBytes(ref.Canary(c.Unlock))
		opts = append(opts, interpreter.WithTx(tx, 0, prev), interpreter.WithScripts(lockObj, unlockObj))
	} else if c.Invoke == 3 {
		// (tenth round) the spent output carries the value only, the scripts come through WithScripts
		unlockObj = bscript.NewFromBytes(ref.Canary(c.Unlock))
		prev = &bt.Output{Satoshis: c.Ctx.Amount}
		opts = append(opts, interpreter.WithTx(tx, 0, prev), interpreter.WithScripts(lockObj, unlockObj))
	} else {
		opts = append(opts, interpreter.WithTx(tx, 0, prev))
	}
	var execErr error
	var panicked any
	func() {
		defer func() { panicked = recover() }()
		execErr = interpreter.NewEngine().Execute(opts...)
	}()
	if panicked != nil {
		return fmt.Errorf("library panicked: %v", panicked)
	}
	ctx.Label("level=" + c.Level)
	ctx.Labelf("invoke=%d", c.Invoke)
	// (i) caller data, including the bytes behind every slice that was handed over
	if d := ref.CanaryDamage(tx); d != "" {
		return fmt.Errorf("%s (unlock %x lock %x flags %#x)", d, []byte(c.Unlock), []byte(c.Lock), c.Flags)
	}
	if ref.CanaryDamaged(*lockObj) || ref.CanaryDamaged(*unlockObj) {
		return fmt.Errorf("the bytes behind a script slice handed to the engine were overwritten (unlock %x lock %x flags %#x)", []byte(c.Unlock), []byte(c.Lock), c.Flags)
	}
	if !bytes.Equal(*lockObj, c.Lock) {
		return fmt.Errorf("locking script bytes changed by execution: before %x after %x (unlock %x flags %#x)", []byte(c.Lock), []byte(*lockObj), []byte(c.Unlock), c.Flags)
	}
	if !bytes.Equal(*unlockObj, c.Unlock) {
		return fmt.Errorf("unlocking script bytes changed by execution: before %x after %x (lock %x flags %#x)", []byte(c.Unlock), []byte(*unlockObj), []byte(c.Lock), c.Flags)
	}
	if !bytes.Equal(tx.Bytes(), txBefore) {
		return fmt.Errorf("transaction serialisation changed by execution: before %x after %x", txBefore, tx.Bytes())
	}
	if !bytes.Equal(other.Bytes(false), otherExtBefore) || other.PreviousTxSatoshis != 1234 || !bytes.Equal(*other.PreviousTxScript, otherPrevBefore) {
		return fmt.Errorf("an input that was not checked was modified")
	}
	if c.Invoke == 0 && execErr == nil {
		// the statement allows exactly this side effect on the checked input
		in := tx.Inputs[0]
		if in.PreviousTxScript == nil || !bytes.Equal(*in.PreviousTxScript, c.Lock) || in.PreviousTxSatoshis != c.Ctx.Amount {
			return fmt.Errorf("checked input does not carry the spent output's script/value after execution")
		}
	}
	if (c.Invoke == 2 || c.Invoke == 3) && execErr == nil {
		// whatever way the scripts were handed over: what is recorded on the checked input is the spent
		// output's value, and its script (or nothing, when the output object carried none)
		in := tx.Inputs[0]
		if in.PreviousTxSatoshis != c.Ctx.Amount {
			return fmt.Errorf("the checked input records %d satoshis after execution, the spent output handed over carries %d (invocation mode %d)", in.PreviousTxSatoshis, c.Ctx.Amount, c.Invoke)
		}
		if in.PreviousTxScript != nil && !bytes.Equal(*in.PreviousTxScript, c.Lock) {
			return fmt.Errorf("the checked input records the script %x after execution, the spent output's is %x (invocation mode %d)", []byte(*in.PreviousTxScript), []byte(c.Lock), c.Invoke)
		}
		if prev.Satoshis != c.Ctx.Amount {
			return fmt.Errorf("the spent output object handed over now carries %d satoshis instead of %d", prev.Satoshis, c.Ctx.Amount)
		}
	}
	if (c.Invoke == 2 || c.Invoke == 3) && tx.Inputs[0].UnlockingScript != nil {
		return fmt.Errorf("the checked input had no unlocking script before execution and carries %x afterwards", []byte(*tx.Inputs[0].UnlockingScript))
	}
	if c.Invoke != 0 {
		// no transaction context: signature / locktime opcodes are rejected up front by the
		// library's documented precondition, the reference has no such notion
		return nil
	}
	// (ii)+(iii) every step's stacks equal the reference, whose items are always fresh copies
	libOK := execErr == nil
	if libOK != r.OK {
		return fmt.Errorf("verdict: library err=%v, rules ok=%v (%s); unlock=%x lock=%x flags=%#x [%s]", execErr, r.OK, r.Err, []byte(c.Unlock), []byte(c.Lock), c.Flags, c.Desc)
	}
	if err := libexec.CompareTraces(rec.Steps, libOK, r); err != nil {
		return fmt.Errorf("%v; unlock=%x lock=%x flags=%#x [%s]", err, []byte(c.Unlock), []byte(c.Lock), c.Flags, c.Desc)
	}
	// non-trivial: a twin exists when a value-changing opcode runs and changes its operand
	if twinTransformed(r) {
		ctx.NonTrivial()
		ctx.Label("twin_transformed")
	}
	if r.OK {
		ctx.Label("accept")
	} else {
		ctx.Label("reject:" + r.Err)
	}
	return nil
}

var valueChanging = map[byte]bool{0x7e: true, 0x7f: true, 0x80: true, 0x81: true, 0x83: true, 0x84: true, 0x85: true, 0x86: true,
	0x8b: true, 0x8c: true, 0x8f: true, 0x90: true, 0x91: true, 0x92: true, 0x93: true, 0x94: true, 0x95: true, 0x96: true, 0x97: true, 0x98: true, 0x99: true}

// twinTransformed: at some executed value-changing step, the operand (top item before the
// step) had an equal twin elsewhere on either stack and the result differs from it.
func twinTransformed(r interp.Result) bool {
	for i := 1; i < len(r.Trace); i++ {
		s := r.Trace[i]
		if !s.Executed || !valueChanging[s.Op] {
			continue
		}
		before := r.Trace[i-1]
		if before.Script != s.Script || len(before.Stack) == 0 {
			continue
		}
		for k := 1; k <= 2 && k <= len(before.Stack); k++ {
			operand := before.Stack[len(before.Stack)-k]
			twins := 0
			for _, it := range before.Stack {
				if bytes.Equal(it, operand) {
					twins++
				}
			}
			for _, it := range before.Alt {
				if bytes.Equal(it, operand) {
					twins++
				}
			}
			changed := len(s.Stack) == 0 || !bytes.Equal(s.Stack[len(s.Stack)-1], operand)
			if twins >= 2 && changed && len(operand) > 0 {
				return true
			}
		}
	}
	return false
}

// ---- twin programs ---------------------------------------------------------

func push(d []byte) []byte   { return sgen.Push(d, 0) }
func pushNum(n int64) []byte { return sgen.Push(interp.EncodeNum(big.NewInt(n)), 0) }
func cat(parts ...[]byte) []byte {
	var o []byte
	for _, p := range parts {
		o = append(o, p...)
	}
	return o
}

type frag struct {
	name string
	code func(x []byte) []byte
}

// sources put X on the stack.
var sources = []frag{
	{"literal", func(x []byte) []byte { return sgen.Push(x, 1) }},
	{"computed-cat", func(x []byte) []byte {
		h := len(x) / 2
		return cat(sgen.Push(x[:h], 1), sgen.Push(x[h:], 1), []byte{0x7e})
	}},
	{"computed-invert", func(x []byte) []byte {
		y := make([]byte, len(x))
		for i := range x {
			y[i] = ^x[i]
		}
		return cat(sgen.Push(y, 1), []byte{0x83})
	}},
}

var filler = [][]byte{{0x0a}, {0x0b, 0x0c}, {0x0d}}

// makers turn [X] into a stack with a second copy of X on top (or halves of X).
var makers = []frag{
	{"DUP", func(x []byte) []byte { return []byte{0x76} }},
	{"2DUP", func(x []byte) []byte { return cat(push(filler[0]), []byte{0x6e, 0x75}) }},
	{"3DUP", func(x []byte) []byte { return cat(push(filler[0]), push(filler[1]), []byte{0x6f, 0x6d}) }},
	{"OVER", func(x []byte) []byte { return cat(push(filler[0]), []byte{0x78}) }},
	{"2OVER", func(x []byte) []byte {
		return cat(push(filler[0]), push(filler[1]), push(filler[2]), []byte{0x70, 0x75})
	}},
	{"PICK", func(x []byte) []byte { return cat(push(filler[0]), pushNum(1), []byte{0x79}) }},
	{"TUCK", func(x []byte) []byte { return cat(push(filler[0]), []byte{0x7c, 0x7d}) }},
	{"IFDUP", func(x []byte) []byte { return []byte{0x73} }},
	{"ALT", func(x []byte) []byte { return []byte{0x76, 0x6b, 0x61, 0x6c} }},
	{"DUP-DUP", func(x []byte) []byte { return []byte{0x76, 0x76} }},
	{"SPLIT-CAT", func(x []byte) []byte { return cat([]byte{0x76}, pushNum(int64(len(x)/2)), []byte{0x7f, 0x7e}) }},
	{"SPLIT-halves", func(x []byte) []byte { return cat(pushNum(int64(len(x)/2)), []byte{0x7f}) }},
	{"SPLIT-halves-swap", func(x []byte) []byte { return cat(pushNum(int64(len(x)/2)), []byte{0x7f, 0x7c}) }},
	{"ROT-twin", func(x []byte) []byte { return cat([]byte{0x76}, push(filler[0]), []byte{0x7b}) }},
}

// transformers change the top item (operands are literals).
var transformers = []frag{
	{"INVERT", func(x []byte) []byte { return []byte{0x83} }},
	{"AND", func(x []byte) []byte { return cat(sgen.Push(bytes.Repeat([]byte{0x0f}, len(x)), 1), []byte{0x84}) }},
	{"OR", func(x []byte) []byte { return cat(sgen.Push(bytes.Repeat([]byte{0xf0}, len(x)), 1), []byte{0x85}) }},
	{"XOR", func(x []byte) []byte { return cat(sgen.Push(bytes.Repeat([]byte{0xff}, len(x)), 1), []byte{0x86}) }},
	{"LSHIFT1", func(x []byte) []byte { return cat(pushNum(1), []byte{0x98}) }},
	{"LSHIFT9", func(x []byte) []byte { return cat(pushNum(9), []byte{0x98}) }},
	{"RSHIFT1", func(x []byte) []byte { return cat(pushNum(1), []byte{0x99}) }},
	{"RSHIFT12", func(x []byte) []byte { return cat(pushNum(12), []byte{0x99}) }},
	{"BIN2NUM", func(x []byte) []byte { return []byte{0x81} }},
	{"NUM2BIN", func(x []byte) []byte { return cat(pushNum(int64(len(x)+3)), []byte{0x80}) }},
	{"1ADD", func(x []byte) []byte { return []byte{0x8b} }},
	{"1SUB", func(x []byte) []byte { return []byte{0x8c} }},
	{"NEGATE", func(x []byte) []byte { return []byte{0x8f} }},
	{"ABS", func(x []byte) []byte { return []byte{0x90} }},
	{"NOT", func(x []byte) []byte { return []byte{0x91} }},
	{"0NOTEQUAL", func(x []byte) []byte { return []byte{0x92} }},
	{"ADD", func(x []byte) []byte { return cat(pushNum(7), []byte{0x93}) }},
	{"SUB", func(x []byte) []byte { return cat(pushNum(300), []byte{0x94}) }},
	{"MUL", func(x []byte) []byte { return cat(pushNum(3), []byte{0x95}) }},
	{"DIV", func(x []byte) []byte { return cat(pushNum(2), []byte{0x96}) }},
	{"MOD", func(x []byte) []byte { return cat(pushNum(5), []byte{0x97}) }},
	{"CAT", func(x []byte) []byte { return cat(push([]byte{0xc1, 0xc2, 0xc3}), []byte{0x7e}) }},
	{"SPLIT", func(x []byte) []byte { return cat(pushNum(int64((len(x)+1)/2)), []byte{0x7f, 0x75}) }},
	{"SIZE-DROP", func(x []byte) []byte { return []byte{0x82, 0x75} }},
	{"SHA256", func(x []byte) []byte { return []byte{0xa8} }},
	{"SWAP-CAT", func(x []byte) []byte { return cat([]byte{0x7c}, push([]byte{0xd1, 0xd2}), []byte{0x7e, 0x7c}) }},
}

var shapes = [][]byte{
	{0x01}, {0x80}, {0x00}, {0x01, 0x00}, {0x01, 0x01}, {0xff, 0x7f}, {0x34, 0x12, 0x00}, {0xaa, 0x55, 0xaa, 0x55},
	{0x01, 0x02, 0x03, 0x04, 0x05}, {0xff, 0xff, 0xff, 0xff, 0xff, 0xff, 0xff, 0x7f}, {1, 2, 3, 4, 5, 6, 7, 8, 0x00}, {0x10, 0x00, 0x00, 0x80},
}

func twinProgram(src, mk, tr frag, x []byte, genesis bool, invoke int) Case {
	code := cat(src.code(x), mk.code(x), tr.code(x))
	// finish: count what is left, then collapse everything into one true item
	code = append(code, 0x74, 0x75) // DEPTH DROP (touches nothing, adds a step)
	var flags interp.Flags
	if genesis {
		flags |= interp.FlagAfterGenesis
	}
	split := len(src.code(x))
	p := libexec.Prog{Unlock: pbt.Hex(code[:split]), Lock: pbt.Hex(append(append([]byte{}, code[split:]...), 0x51)), Flags: uint32(flags),
		Ctx: libexec.TxCtx{Version: 1, Seq: 0xffffffff}, Level: "twin"}
	return Case{Prog: p, Invoke: invoke, Desc: src.name + "/" + mk.name + "/" + tr.name}
}

func inList(s string, l []string) bool {
	for _, x := range l {
		if x == s {
			return true
		}
	}
	return false
}

func TestTwins(t *testing.T) {
	pbt.Run(t, pbt.Sub[Case]{
		Name: "twins", Quick: 60000, Thorough: 4000000,
		EnumDesc: fmt.Sprintf("complete cross product of %d item sources x %d twin makers x %d value-changing transformers x %d operand shapes x both eras; after genesis also every maker x transformer on numbers of 64 / 1024 / 4096 bytes (thorough: 33 .. 65536) that are negative, positive, negative zero or all ones, and operands of 2^20 bytes (thorough: 2^16 .. 2^20+1) through the byte-wise transformers with a twin on the data or alt stack", len(sources), len(makers), len(transformers), len(shapes)),
		Enum: func(tier string, yield func(Case)) {
			// very large operands (after genesis only): 2^16, 2^20-1, 2^20, 2^20+1 bytes through the
			// byte-wise transformers, with a twin on the data or the alt stack
			hugeSizes, hugeMakers := []int{1 << 20}, []string{"DUP", "ALT"}
			hugeTr := []string{"INVERT", "AND", "OR", "XOR"}
			if tier == "thorough" {
				hugeSizes = []int{1 << 16, 1<<20 - 1, 1 << 20, 1<<20 + 1}
				hugeMakers = []string{"DUP", "ALT", "OVER", "PICK", "TUCK"}
				hugeTr = []string{"INVERT", "AND", "OR", "XOR", "LSHIFT1", "RSHIFT1", "SPLIT", "SHA256", "SIZE-DROP"}
			}
			for _, n := range hugeSizes {
				x := make([]byte, n)
				for i := range x {
					x[i] = byte(i*7 + 3)
				}
				for _, m := range makers {
					for _, tr := range transformers {
						if inList(m.name, hugeMakers) && inList(tr.name, hugeTr) {
							yield(twinProgram(sources[0], m, tr, x, true, 0))
						}
					}
				}
			}
			// long operands (after genesis): every maker x every transformer, numbers of 64 .. 4096
			// bytes (thorough: up to 65536) that are negative, positive, negative zero or all ones -
			// an opcode that works on the item in place above some length changes the twin
			longSizes := []int{64, 1024, 4096}
			if tier == "thorough" {
				longSizes = []int{33, 64, 255, 256, 520, 521, 1023, 1024, 1025, 1500, 4096, 65536}
			}
			for _, n := range longSizes {
				for k := 0; k < 4; k++ {
					x := make([]byte, n)
					for i := range x {
						x[i] = byte(i*5 + 1)
					}
					switch k {
					case 0: // negative, minimally encoded
						x[n-1] = 0x80 | 0x15
					case 1: // positive
						x[n-1] = 0x15
					case 2: // negative zero
						for i := range x {
							x[i] = 0
						}
						x[n-1] = 0x80
					default:
						for i := range x {
							x[i] = 0xff
						}
					}
					for _, s := range sources {
						for _, m := range makers {
							for _, tr := range transformers {
								if n > 1100 && (tr.name == "MUL" || tr.name == "DIV" || tr.name == "MOD") && tier != "thorough" {
									continue
								}
								yield(twinProgram(s, m, tr, x, true, 0))
							}
						}
					}
				}
			}
			for _, g := range []bool{true, false} {
				for _, s := range sources {
					for _, m := range makers {
						for _, tr := range transformers {
							for _, x := range shapes {
								yield(twinProgram(s, m, tr, x, g, 0))
							}
						}
					}
				}
			}
		},
		Gen: func(t *rapid.T) Case {
			x := sgen.Operand(t, true, "x")
			if len(x) == 0 {
				x = []byte{0x01, 0x00}
			}
			c := twinProgram(sources[rapid.IntRange(0, len(sources)-1).Draw(t, "src")], makers[rapid.IntRange(0, len(makers)-1).Draw(t, "mk")],
				transformers[rapid.IntRange(0, len(transformers)-1).Draw(t, "tr")], x, rapid.IntRange(0, 3).Draw(t, "genesis") != 0, 0)
			// a second transformer on what is now on top, and a shuffle in between
			if rapid.Bool().Draw(t, "again") {
				extra := cat([]byte{[]byte{0x7c, 0x7b, 0x61}[rapid.IntRange(0, 2).Draw(t, "shuffle")]}, transformers[rapid.IntRange(0, len(transformers)-1).Draw(t, "tr2")].code(x))
				l := c.Lock[:len(c.Lock)-1]
				c.Lock = append(append(append(pbt.Hex{}, l...), extra...), 0x51)
				c.Desc += "+2"
			}
			return c
		},
		Check: check,
	})
}

func TestPrograms(t *testing.T) {
	pbt.Run(t, pbt.Sub[Case]{
		Name: "programs", Quick: 100000, Thorough: 2400000,
		Gen: func(t *rapid.T) Case {
			flags := sgen.Flags(t, sgen.FlagPoolNonSig)
			var p sgen.Program
			switch rapid.IntRange(0, 9).Draw(t, "level") {
			case 8, 9:
				p = sgen.DeepStack(t, flags)
			case 6:
				p = sgen.P2SHLookalike(t, flags)
			case 7:
				lp, lc := sgen.LockTimeProgram(t, flags)
				inv := rapid.SampledFrom([]int{0, 0, 2, 3}).Draw(t, "invoke")
				return Case{Prog: libexec.Prog{Unlock: lp.Unlock, Lock: lp.Lock, Flags: uint32(lp.Flags), Ctx: libexec.TxCtx{Version: lc.Version, LockTime: lc.LockTime, Seq: lc.Seq, Amount: 1}, Level: lp.Level}, Invoke: inv}
			case 0:
				p = sgen.RandomOps(t, flags, sgen.IsSigOp)
			case 1:
				p = sgen.MutateVector(t, vectors, sgen.FlagPoolNonSig, sgen.IsSigOp)
			default:
				p = sgen.StackAware(t, flags, 14)
			}
			inv := rapid.SampledFrom([]int{0, 0, 0, 1, 2, 3}).Draw(t, "invoke")
			return Case{Prog: libexec.Prog{Unlock: p.Unlock, Lock: p.Lock, Flags: uint32(p.Flags), Ctx: libexec.TxCtx{Version: 2, LockTime: 100, Seq: 50, Amount: rapid.SampledFrom([]uint64{1, 1, 0, 2, 5000, 1 << 40}).Draw(t, "amount")}, Level: p.Level}, Invoke: inv}
		},
		Check: check,
	})
}
