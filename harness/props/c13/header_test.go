package c13

// Round 4: push headers whose DECLARED length sits on a boundary (75/76, 255/256,
// 65535/65536, 2^24, 2^31-1, 2^31, 2^32-1) while the number of bytes actually present is
// chosen independently (0, 1, declared-1, declared, declared+1, or a few hundred bytes for
// the huge declarations). The same push goes through the byte entry points (DecodeParts,
// DecodeStringParts, Parse/Unparse, ToASM) and, when it is complete, through the
// parts / ASM entry points (EncodeParts, AppendPushData, NewFromASM of its hex word),
// which must produce the shortest form of exactly that push.

import (
	"bytes"
	"encoding/hex"
	"fmt"
	"strings"
	"testing"

	"github.com/libsv/go-bt/v2/bscript"
	"github.com/libsv/go-bt/v2/bscript/interpreter"
	"pgregory.net/rapid"

	"verif/harness/gen"
	"verif/harness/pbt"
	"verif/harness/ref"
)

// Header describes Pre ++ push header (Form, Declared; only HeaderLen of its bytes if
// HeaderLen > 0) ++ Avail bytes ++ Post.
type Header struct {
	Pre       pbt.Hex `json:"pre"`
	Form      int     `json:"form"` // -1 direct (Declared 1..75), 1 / 2 / 4 = PUSHDATA1/2/4
	Declared  uint32  `json:"declared"`
	HeaderLen int     `json:"header_len"` // 0 = whole header; k>0 = only the first k header bytes (then nothing follows)
	Avail     int     `json:"avail"`
	Fill      byte    `json:"fill"`
	Post      pbt.Hex `json:"post"`
}

func (h Header) header() []byte {
	d := h.Declared
	switch h.Form {
	case 1:
		return []byte{0x4c, byte(d)}
	case 2:
		return []byte{0x4d, byte(d), byte(d >> 8)}
	case 4:
		return []byte{0x4e, byte(d), byte(d >> 8), byte(d >> 16), byte(d >> 24)}
	}
	return []byte{byte(d)}
}

func (h Header) effectiveDeclared() uint32 {
	switch h.Form {
	case 1:
		return h.Declared & 0xff
	case 2:
		return h.Declared & 0xffff
	case 4:
		return h.Declared
	}
	return h.Declared
}

// build returns the script and the offset of the push header.
func (h Header) build() ([]byte, int) {
	s := append([]byte(nil), h.Pre...)
	at := len(s)
	hd := h.header()
	if h.HeaderLen > 0 && h.HeaderLen < len(hd) {
		return append(s, hd[:h.HeaderLen]...), at
	}
	s = append(s, hd...)
	decl := int64(h.effectiveDeclared())
	for i := 0; i < h.Avail; i++ {
		if int64(i) < decl {
			s = append(s, h.Fill+byte(i*7))
		} else {
			s = append(s, 0x61) // bytes beyond the declared length are OP_NOP instructions
		}
	}
	return append(s, h.Post...), at
}

func declClass(d uint32) string {
	switch {
	case d <= 65536:
		return lenClass(int(d))
	case d < 1<<24:
		return "65537..2^24-1"
	case d < 1<<31:
		return "2^24..2^31-1"
	case d < 0xffffffff:
		return "2^31..2^32-2"
	}
	return "2^32-1"
}

func checkHeader(ctx *pbt.Ctx, c Header) error {
	if c.Form == -1 && (c.Declared < 1 || c.Declared > 75) {
		return fmt.Errorf("harness: direct push of %d bytes", c.Declared)
	}
	script, at := c.build()
	if err := checkAgree(ctx, Scr{How: "header", Script: script}); err != nil {
		return err
	}
	if pre, _, _ := ref.Tokenize(script); true {
		for _, t := range pre {
			if t.Op == ref.OpReturn {
				// a short push completed by Post leaves the rest of Post to be read from the middle
				// of an instruction, which can yield an OP_RETURN; checkAgree counted the discard
				return nil
			}
		}
	}
	defer relieve(len(script))
	form := map[int]string{-1: "direct", 1: "pushdata1", 2: "pushdata2", 4: "pushdata4"}[c.Form]
	ctx.Label("declared:" + form + ":" + declClass(c.effectiveDeclared()))
	toks, ok, _ := ref.Tokenize(script)
	// every remaining byte decoder
	if _, err := bscript.DecodeStringParts(hex.EncodeToString(script)); (err == nil) != ok {
		return fmt.Errorf("DecodeStringParts(%s): err=%v, well-formed=%v", short(script), err, ok)
	}
	s := bscript.NewFromBytes(append([]byte(nil), script...))
	asm, err := s.ToASM()
	if err != nil {
		return fmt.Errorf("ToASM(%s): %v", short(script), err)
	}
	if len(script) > 0 && strings.HasSuffix(asm, "[error]") != !ok {
		return fmt.Errorf("ToASM(%s) = %q; well-formed=%v", short(script), short([]byte(asm)), ok)
	}
	p := &interpreter.DefaultOpcodeParser{}
	if ops, perr := p.Parse(s); perr == nil {
		back, uerr := p.Unparse(ops)
		if uerr != nil || back == nil || !bytes.Equal(*back, script) {
			return fmt.Errorf("Unparse(Parse(%s)) = %v, %v", short(script), back, uerr)
		}
	}
	// the push itself, if complete, through the parts / ASM entry points
	var push *ref.ScriptTok
	for i := range toks {
		if toks[i].Start == at && toks[i].IsPush {
			push = &toks[i]
		}
	}
	if push == nil {
		ctx.Label("push: cut")
		return nil
	}
	ctx.Label("push: complete")
	data := push.Data
	if len(data) == 0 {
		return nil
	}
	minimal := append(ref.MinimalPushPrefix(len(data)), data...)
	isMin := bytes.Equal(script[push.Start:push.End], minimal)
	if isMin {
		ctx.Label("push: already the shortest form")
	} else {
		ctx.Label("push: not the shortest form")
	}
	enc, err := bscript.EncodeParts([][]byte{append([]byte(nil), data...)})
	if err != nil || !bytes.Equal(enc, minimal) {
		return fmt.Errorf("EncodeParts of the %d bytes pushed at offset %d of %s = %s, %v; shortest form is %s", len(data), at, short(script), short(enc), err, short(minimal))
	}
	pre := bscript.NewFromBytes(append([]byte(nil), script[:at]...))
	if err := pre.AppendPushData(append([]byte(nil), data...)); err != nil {
		return fmt.Errorf("AppendPushData(%d bytes): %v", len(data), err)
	}
	if want := append(append([]byte(nil), script[:at]...), minimal...); !bytes.Equal(*pre, want) {
		return fmt.Errorf("prefix of %s + AppendPushData(%d bytes) = %s; want %s", short(script), len(data), short(*pre), short(want))
	}
	if isMin != bytes.Equal(*pre, script[:push.End]) {
		return fmt.Errorf("harness: shortest-form bookkeeping")
	}
	if len(data) >= 2 {
		fa, err := bscript.NewFromASM(hex.EncodeToString(data))
		if err != nil || fa == nil || !bytes.Equal(*fa, minimal) {
			return fmt.Errorf("NewFromASM(hex of the %d pushed bytes) = %v, %v; shortest form is %s", len(data), fa, err, short(minimal))
		}
	}
	return nil
}

var (
	declDirect = []uint32{1, 2, 74, 75}
	declPD1    = []uint32{0, 1, 74, 75, 76, 77, 254, 255}
	declPD2    = []uint32{0, 1, 75, 76, 255, 256, 257, 65534, 65535}
	declPD4    = []uint32{0, 1, 75, 76, 255, 256, 65535, 65536, 65537, 1 << 24, 1<<31 - 1, 1 << 31, 1<<31 + 1, 0xffff0000, 0xfffffffe, 0xffffffff}
)

func declSet(form int) []uint32 {
	switch form {
	case 1:
		return declPD1
	case 2:
		return declPD2
	case 4:
		return declPD4
	}
	return declDirect
}

func availSet(d uint32) []int {
	if d > 65537 {
		return []int{0, 1, 3, 4, 5, 300, 65536}
	}
	out := []int{0}
	for _, a := range []int{1, int(d) - 1, int(d), int(d) + 1} {
		dup := a < 0
		for _, o := range out {
			if o == a {
				dup = true
			}
		}
		if !dup {
			out = append(out, a)
		}
	}
	return out
}

func TestPushHeader(t *testing.T) {
	pbt.Run(t, pbt.Sub[Header]{
		Name: "push-header", Quick: 36000, Thorough: 900000,
		Gen: func(t *rapid.T) Header {
			c := Header{Form: rapid.SampledFrom([]int{-1, 1, 2, 2, 4, 4, 4}).Draw(t, "form"), Fill: rapid.Byte().Draw(t, "fill")}
			if rapid.IntRange(0, 2).Draw(t, "pre") > 0 {
				c.Pre = gen.Script(t, gen.ScriptOpts{MaxInstr: 3, NonMinimal: true, OneByte: true})
			}
			if rapid.IntRange(0, 1).Draw(t, "post") > 0 {
				c.Post = gen.Script(t, gen.ScriptOpts{MaxInstr: 2, NonMinimal: true, OneByte: true})
			}
			set := declSet(c.Form)
			c.Declared = rapid.SampledFrom(set).Draw(t, "declared")
			if c.Form == 4 && rapid.IntRange(0, 3).Draw(t, "any32") == 0 {
				c.Declared = gen.U32(t, "declared32")
			}
			if c.Declared > 300 && c.Declared <= 65537 && !gen.Rare(t, "big") {
				// the 64 kB declarations mostly meet a short script
				c.Avail = rapid.IntRange(0, 300).Draw(t, "avail")
			} else if c.Declared > 65537 {
				c.Avail = rapid.SampledFrom([]int{0, 1, 3, 4, 5, 40, 300}).Draw(t, "avail")
			} else {
				c.Avail = int(c.Declared) + rapid.IntRange(-2, 2).Draw(t, "avail_delta")
				if c.Avail < 0 || rapid.IntRange(0, 5).Draw(t, "avail_none") == 0 {
					c.Avail = 0
				}
			}
			if c.Form != -1 && rapid.IntRange(0, 7).Draw(t, "cut_header") == 0 {
				c.HeaderLen = rapid.IntRange(1, len(c.header())-1).Draw(t, "header_len")
			}
			return c
		},
		Check:    checkHeader,
		EnumDesc: "grid: push opcodes 01/02/4b/4c/4d/4e x declared lengths at the edges of each width (0, 1, 0x4b/0x4c, 0x7f/0x80, 0xfe/0xff, 0x100, 0x208/0x209, 0x7fff/0x8000, 0xffff-k k<=14, 0x10000, 0x7ffffffe..0x80000001, 0xffffffff-k k<=20) x bytes really present (0, 1, 3, L-1, L, L+1; the three complete ones for L > 600 only after 0 and 9 preceding instructions) x length fields cut short x 0/1/2/5/9 preceding OP_NOPs; and every push form x declared length on a boundary (direct 1/2/74/75; PUSHDATA1 0..255 boundaries; PUSHDATA2 up to 65535; PUSHDATA4 up to 65537 and 2^24, 2^31-1, 2^31, 2^31+1, ffff0000, fffffffe, ffffffff) x bytes present (0, 1, declared-1, declared, declared+1; for declarations above 65537: 0, 1, 3, 4, 5, 300, 65536) x {alone, after OP_DUP, inside OP_IF} x {nothing, OP_CHECKSIG after}; every header cut short",
		Enum: func(tier string, yield func(Header)) {
			headerGrid(yield)
			pres := []pbt.Hex{nil, {0x76}, {0x63}}
			posts := []pbt.Hex{nil, {0xac}}
			for _, form := range []int{-1, 1, 2, 4} {
				for _, d := range declSet(form) {
					for _, a := range availSet(d) {
						for pi, pre := range pres {
							for qi, post := range posts {
								if a > 1000 && (pi+qi)%2 == 1 {
									continue // the 64 kB scripts: two of the six contexts
								}
								yield(Header{Pre: pre, Form: form, Declared: d, Avail: a, Fill: byte(d) + 0x4c, Post: post})
							}
						}
					}
					if form != -1 {
						for k := 1; k < len((Header{Form: form}).header()); k++ {
							yield(Header{Pre: pbt.Hex{0x76}, Form: form, Declared: d, HeaderLen: k})
						}
					}
				}
			}
		},
	})
}

// headerGrid is the complete grid the seeding rounds asked for (same axes as the push
// header grid of C07): the position of the header (0/1/2/5/9 preceding one-byte
// instructions) matters because "offset + declared length" wraps in 32-bit arithmetic
// exactly when the declared PUSHDATA4 length is within offset of 2^32.
func headerGrid(yield func(Header)) {
	for _, pre := range []int{0, 1, 2, 5, 9} {
		head := make(pbt.Hex, pre)
		for i := range head {
			head[i] = 0x61
		}
		emit := func(form int, l uint32) {
			avail := []int{0, 1, 3}
			if l <= 600 || (l <= 0x10000 && (pre == 0 || pre == 9)) {
				avail = append(avail, int(l), int(l)+1)
				if l > 0 {
					avail = append(avail, int(l)-1)
				}
			}
			for _, a := range avail {
				yield(Header{Pre: head, Form: form, Declared: l, Avail: a, Fill: 0x51})
			}
			for k := 1; k < len((Header{Form: form}).header()); k++ {
				yield(Header{Pre: head, Form: form, Declared: l, HeaderLen: k})
			}
		}
		for _, l := range []uint32{0x01, 0x02, 0x4b} {
			emit(-1, l)
		}
		for _, l := range []uint32{0, 1, 0x4b, 0x4c, 0x7f, 0x80, 0xfe, 0xff} {
			emit(1, l)
		}
		l16 := []uint32{0, 1, 0xff, 0x100, 0x208, 0x209, 0x7fff, 0x8000}
		for k := uint32(0); k <= 14; k++ {
			l16 = append(l16, 0xffff-k)
		}
		for _, l := range l16 {
			emit(2, l)
		}
		l32 := []uint32{0, 1, 0xffff, 0x10000, 0x7ffffffe, 0x7fffffff, 0x80000000, 0x80000001}
		for k := uint32(0); k <= 20; k++ {
			l32 = append(l32, 0xffffffff-k)
		}
		for _, l := range l32 {
			emit(4, l)
		}
	}
}
