package c13

// Round 7: the codecs are pure functions of their arguments, so several goroutines may use
// them at the same time. 2..8 goroutines released together (harness/conc) work on DIFFERENT
// item lists and scripts: EncodeParts, PushDataPrefix, AppendPushDataArray / AppendPushData /
// AppendPushDataHexString / AppendPushDataString(s) (each onto a script of its own),
// DecodeParts, DecodeStringParts, ToASM (+ NewFromASM inside the statement's ASM class),
// String + NewFromHexString, Parse + Unparse with a zero-value parser and with
// ErrorOnCheckSig (a parser of its own per call). Mode "shared": all goroutines are handed the
// SAME argument objects (one *bscript.Script, one [][]byte per argument; they must come out
// unchanged); mode "own": every call works on private copies. Arguments: item lists and scripts
// of the existing generators, push-header edges (header_test.go), and a few large ones (a push
// of 1024..4200 bytes; one case in twenty a 65535 / 65536-byte push, then with few rounds).
// Every answer must be the REFERENCE answer for its own argument (shortest-form layout,
// reference reader, encoding/hex, the needs-a-transaction rule of flagged_test.go); each call is
// made alone first, so a sequential defect is not reported as a concurrency one. The goroutine
// schedule is not drawn by the generators: listed in FLAKY_SUBS.txt.

import (
	"bytes"
	"encoding/hex"
	"fmt"
	"strings"
	"testing"

	"github.com/libsv/go-bt/v2/bscript"
	"github.com/libsv/go-bt/v2/bscript/interpreter"
	"pgregory.net/rapid"

	"verif/harness/conc"
	"verif/harness/gen"
	"verif/harness/pbt"
	"verif/harness/ref"
)

// CArg is one argument: an item list, a script given as bytes, a push-header script or a
// script with one big push (76 <push> ac), the latter two stored by description.
type CArg struct {
	Items  []Item  `json:"items,omitempty"`
	Script pbt.Hex `json:"script,omitempty"`
	Hdr    *Header `json:"hdr,omitempty"`
	Big    *Item   `json:"big,omitempty"`
}

// ConcCase is one concurrent session.
type ConcCase struct {
	Args       []CArg `json:"args"`
	Shared     bool   `json:"shared"`
	Goroutines int    `json:"goroutines"`
	Rounds     int    `json:"rounds"`
}

func fmtParts(parts [][]byte) string {
	var sb strings.Builder
	for _, p := range parts {
		sb.WriteString(hex.EncodeToString(p))
		sb.WriteByte(',')
	}
	return sb.String()
}

func sum(b []byte) string { // long answers are compared by length and digest
	if len(b) <= 96 {
		return hex.EncodeToString(b)
	}
	return fmt.Sprintf("%d bytes sha256d %x", len(b), ref.Sha256d(b))
}

func parseAnswer(flag bool, s *bscript.Script, nRef int) string {
	p := &interpreter.DefaultOpcodeParser{ErrorOnCheckSig: flag}
	ops, err := p.Parse(s)
	if err != nil {
		return "refused"
	}
	back, err := p.Unparse(ops)
	if err != nil || back == nil {
		return fmt.Sprintf("unparse failed: %v", err)
	}
	var sb strings.Builder
	for i := 0; i < len(ops) && i < nRef; i++ {
		fmt.Fprintf(&sb, "%02x:%s,", ops[i].Value(), sum(ops[i].Data))
	}
	return fmt.Sprintf("accepted %d tokens %s unparse %s", len(ops), sb.String(), sum(*back))
}

func checkConcurrent(ctx *pbt.Ctx, c ConcCase) error {
	if c.Goroutines < 2 || c.Goroutines > 16 || c.Rounds < 1 || c.Rounds > 200 || len(c.Args) < 2 {
		ctx.Discard("malformed case")
		return nil
	}
	var calls []conc.Call
	add := func(name, want string, f func() string) {
		calls = append(calls, conc.Call{Name: name, Want: []byte(want), F: func() ([]byte, error) { return []byte(f()), nil }})
	}
	type keep struct {
		script *bscript.Script
		items  [][]byte
		orig   []byte
		origIt [][]byte
	}
	var kept []keep
	total := 0
	for ai, a := range c.Args {
		tag := fmt.Sprintf("[arg %d]", ai)
		if len(a.Items) > 0 {
			var items [][]byte
			for _, it := range a.Items {
				if it.Len < 1 {
					return fmt.Errorf("harness: empty item")
				}
				items = append(items, it.bytes())
				total += it.Len
				ctx.Label("item:" + lenClass(it.Len))
			}
			sharedItems := copyItems(items)
			kept = append(kept, keep{items: sharedItems, origIt: items})
			arg := func() [][]byte {
				if c.Shared {
					return sharedItems
				}
				return copyItems(items)
			}
			want := sum(refEncode(items))
			var wantPre []byte
			for _, it := range items {
				wantPre = append(wantPre, ref.MinimalPushPrefix(len(it))...)
			}
			add("EncodeParts"+tag, want, func() string {
				b, err := bscript.EncodeParts(arg())
				if err != nil {
					return "error " + err.Error()
				}
				return sum(b)
			})
			add("PushDataPrefix"+tag, hex.EncodeToString(wantPre), func() string {
				var out []byte
				for _, it := range arg() {
					p, err := bscript.PushDataPrefix(it)
					if err != nil {
						return "error " + err.Error()
					}
					out = append(out, p...)
				}
				return hex.EncodeToString(out)
			})
			for v, name := range []string{"AppendPushDataArray", "AppendPushData", "AppendPushDataHexString", "AppendPushDataStrings", "AppendPushDataString"} {
				v := v
				add(name+tag, want, func() string {
					s := &bscript.Script{}
					var err error
					its := arg()
					switch v {
					case 0:
						err = s.AppendPushDataArray(its)
					case 1:
						for _, it := range its {
							if err == nil {
								err = s.AppendPushData(it)
							}
						}
					case 2:
						for _, it := range its {
							if err == nil {
								err = s.AppendPushDataHexString(hex.EncodeToString(it))
							}
						}
					case 3:
						ss := make([]string, len(its))
						for i, it := range its {
							ss[i] = string(it)
						}
						err = s.AppendPushDataStrings(ss)
					default:
						for _, it := range its {
							if err == nil {
								err = s.AppendPushDataString(string(it))
							}
						}
					}
					if err != nil {
						return "error " + err.Error()
					}
					return sum(*s)
				})
			}
			continue
		}
		// ---- a script
		var script []byte
		switch {
		case a.Hdr != nil:
			script, _ = a.Hdr.build()
			ctx.Label("arg: push-header edge")
		case a.Big != nil:
			script = append(append([]byte{0x76}, ref.PushForm(a.Big.bytes(), 0)...), 0xac)
			ctx.Label("arg: big push " + lenClass(a.Big.Len))
		default:
			script = append([]byte(nil), a.Script...)
			ctx.Label("arg: generated script")
		}
		total += len(script)
		sharedScript := bscript.NewFromBytes(append([]byte(nil), script...))
		kept = append(kept, keep{script: sharedScript, orig: script})
		arg := func() *bscript.Script {
			if c.Shared {
				return sharedScript
			}
			return bscript.NewFromBytes(append([]byte(nil), script...))
		}
		toks, ok, _ := ref.Tokenize(script)
		wantParts := "refused"
		if ok {
			var ps [][]byte
			for _, t := range toks {
				if t.IsPush {
					ps = append(ps, t.Data)
				} else {
					ps = append(ps, []byte{t.Op})
				}
			}
			wantParts = sum([]byte(fmtParts(ps)))
		}
		dec := func(parts [][]byte, err error) string {
			if err != nil {
				return "refused"
			}
			return sum([]byte(fmtParts(parts)))
		}
		add("DecodeParts"+tag, wantParts, func() string { return dec(bscript.DecodeParts(*arg())) })
		add("DecodeStringParts"+tag, wantParts, func() string { return dec(bscript.DecodeStringParts(hex.EncodeToString(*arg()))) })
		add("String+NewFromHexString"+tag, sum(script), func() string {
			h := arg().String()
			if h != hex.EncodeToString(script) {
				return "String() differs: " + sum([]byte(h))
			}
			b, err := bscript.NewFromHexString(h)
			if err != nil || b == nil {
				return fmt.Sprintf("error %v", err)
			}
			return sum(*b)
		})
		_, why := inASMClass(script)
		wantASM := fmt.Sprintf("error flag %v", !ok)
		if why == "" {
			wantASM = "round trip " + sum(script)
		}
		add("ToASM(+NewFromASM)"+tag, wantASM, func() string {
			asm, err := arg().ToASM()
			if err != nil {
				return "error " + err.Error()
			}
			if why != "" {
				return fmt.Sprintf("error flag %v", len(script) > 0 && strings.HasSuffix(asm, "[error]"))
			}
			b, err := bscript.NewFromASM(asm)
			if err != nil || b == nil {
				return fmt.Sprintf("error %v", err)
			}
			return "round trip " + sum(*b)
		})
		v := ref.ParserTokenize(script)
		if v.Ambiguous {
			ctx.Label("arg: parser verdict not claimed")
			continue
		}
		needs := false
		var sb strings.Builder
		for _, t := range v.Toks {
			if !t.IsPush && needsTx[t.Op] != "" {
				needs = true
			}
			fmt.Fprintf(&sb, "%02x:%s,", t.Op, sum(t.Data))
		}
		n := len(v.Toks)
		if v.ReturnAt >= 0 && v.ReturnAt+1 < len(script) {
			n++
		}
		accepted := fmt.Sprintf("accepted %d tokens %s unparse %s", n, sb.String(), sum(script))
		wantZero, wantFlag := accepted, accepted
		if v.Truncated {
			wantZero, wantFlag = "refused", "refused"
		} else if needs {
			wantFlag = "refused"
		}
		nRef := len(v.Toks)
		add("Parse+Unparse"+tag, wantZero, func() string { return parseAnswer(false, arg(), nRef) })
		add("Parse+Unparse(ErrorOnCheckSig)"+tag, wantFlag, func() string { return parseAnswer(true, arg(), nRef) })
	}
	defer relieve(total)
	for _, cl := range calls {
		got, _ := cl.F()
		if !bytes.Equal(got, cl.Want) {
			return fmt.Errorf("%s called alone gives %q, the reference answer is %q", cl.Name, got, cl.Want)
		}
	}
	if err := conc.Readers(calls, c.Goroutines, c.Rounds); err != nil {
		return fmt.Errorf("%v\n(answers are text, shown as hex; %d calls on %d arguments, shared=%v)", err, len(calls), len(c.Args), c.Shared)
	}
	for i, k := range kept {
		if k.script != nil && !bytes.Equal(*k.script, k.orig) {
			return fmt.Errorf("argument %d (a script) changed while %d goroutines read it", i, c.Goroutines)
		}
		for j := range k.items {
			if !bytes.Equal(k.items[j], k.origIt[j]) {
				return fmt.Errorf("argument %d (item %d) changed while %d goroutines read it", i, j, c.Goroutines)
			}
		}
	}
	if c.Shared {
		ctx.Label("mode: shared argument objects")
	} else {
		ctx.Label("mode: own argument objects")
	}
	ctx.Labelf("goroutines=%d", c.Goroutines)
	ctx.NonTrivial()
	return nil
}

func genConcurrent(t *rapid.T) ConcCase {
	c := ConcCase{Shared: rapid.Bool().Draw(t, "shared"), Goroutines: rapid.SampledFrom([]int{2, 3, 4, 8}).Draw(t, "goroutines"), Rounds: rapid.SampledFrom([]int{3, 10, 30}).Draw(t, "rounds")}
	n := rapid.IntRange(2, 6).Draw(t, "nargs")
	huge := rapid.IntRange(0, 19).Draw(t, "huge") == 7
	for i := 0; i < n; i++ {
		var a CArg
		switch rapid.IntRange(0, 6).Draw(t, "arg_kind") {
		case 0, 1:
			k := rapid.IntRange(1, 3).Draw(t, "nitems")
			for j := 0; j < k; j++ {
				a.Items = append(a.Items, genItem(t, false))
			}
		case 2:
			a.Script = genParseCase(t).Script
			if len(a.Script) > 3000 {
				a.Script = a.Script[:3000]
			}
		case 3:
			o := asmOpts
			o.MaxInstr, o.Big = 5, false
			a.Script = genASMScript(t, o)
		case 4:
			h := Header{Form: rapid.SampledFrom([]int{-1, 1, 2, 4}).Draw(t, "form"), Fill: rapid.Byte().Draw(t, "fill")}
			h.Declared = rapid.SampledFrom(declSet(h.Form)).Draw(t, "declared")
			if h.Declared > 300 {
				h.Avail = rapid.SampledFrom([]int{0, 1, 3, 300}).Draw(t, "avail")
			} else {
				h.Avail = max(int(h.Declared)+rapid.IntRange(-1, 1).Draw(t, "avail_delta"), 0)
			}
			h.Pre = pbt.Hex(bytes.Repeat([]byte{0x61}, rapid.SampledFrom([]int{0, 1, 9}).Draw(t, "pre")))
			a.Hdr = &h
		case 5:
			a.Big = &Item{Len: rapid.SampledFrom([]int{1024, 1025, 2048, 4096, 4200}).Draw(t, "big_len"), Pat: gen.Bytes(t, rapid.IntRange(1, 8).Draw(t, "patlen"), "pat")}
		default:
			a.Items = []Item{{Len: rapid.SampledFrom([]int{1024, 2000, 4200}).Draw(t, "big_item"), Pat: gen.Bytes(t, 3, "pat")}, genItem(t, false)}
		}
		c.Args = append(c.Args, a)
	}
	if huge {
		c.Rounds = 3
		c.Args[0] = CArg{Big: &Item{Len: rapid.SampledFrom([]int{65535, 65536}).Draw(t, "huge_len"), Pat: gen.Bytes(t, 5, "pat")}}
		c.Args[1] = CArg{Items: []Item{{Len: rapid.SampledFrom([]int{65535, 65536}).Draw(t, "huge_item"), Pat: gen.Bytes(t, 2, "pat")}}}
	}
	return c
}

func TestConcurrent(t *testing.T) {
	pbt.Run(t, pbt.Sub[ConcCase]{
		Name: "concurrent", Quick: 1500, Thorough: 24000,
		Gen: genConcurrent, Check: checkConcurrent,
	})
}
