package c13

// Round 6: the parser's exported configuration is an axis of every Parse sub-check.
// DefaultOpcodeParser{ErrorOnCheckSig: true} runs next to the zero value. The reference
// tokeniser decides: an "opcode that needs a transaction" is a NON-PUSH instruction
// ac / ad / ae / af / b1 / b2 read before (or without) a top-level OP_RETURN - in any branch,
// executed or not; push data and the bytes behind a top-level OP_RETURN are not opcodes.
// Without such an opcode (and without a truncated push) the flagged parser must accept, return
// the same tokens as the zero-value parser and unparse to the same bytes; with one it must
// refuse. In the corner where "top level" is not decided by the statement (OP_RETURN after an
// unbalanced ENDIF or OP_VERIF/OP_VERNOTIF) only the differential part is claimed: the flagged
// parser never accepts what the zero-value parser refuses, and when both accept the tokens are equal.

import (
	"bytes"
	"fmt"

	"github.com/libsv/go-bt/v2/bscript"
	"github.com/libsv/go-bt/v2/bscript/interpreter"

	"verif/harness/pbt"
	"verif/harness/ref"
)

var needsTx = map[byte]string{0xac: "OP_CHECKSIG", 0xad: "OP_CHECKSIGVERIFY", 0xae: "OP_CHECKMULTISIG", 0xaf: "OP_CHECKMULTISIGVERIFY", 0xb1: "OP_CHECKLOCKTIMEVERIFY", 0xb2: "OP_CHECKSEQUENCEVERIFY"}

// checkFlagged parses script with fp (a parser with ErrorOnCheckSig set; it may be long-lived)
// and compares with the reference view v and with what the zero-value parser returned.
func checkFlagged(ctx *pbt.Ctx, fp *interpreter.DefaultOpcodeParser, script []byte, v ref.ParserView, zeroOps interpreter.ParsedScript, zeroErr error) error {
	if !fp.ErrorOnCheckSig {
		return fmt.Errorf("harness: parser without ErrorOnCheckSig given to checkFlagged")
	}
	in := append([]byte(nil), script...)
	fops, ferr := fp.Parse(bscript.NewFromBytes(in))
	if !bytes.Equal(in, script) {
		return fmt.Errorf("Parse (ErrorOnCheckSig) modified its input %s -> %s", short(script), short(in))
	}
	needAt, needOp := -1, byte(0)
	for _, t := range v.Toks {
		if !t.IsPush && needsTx[t.Op] != "" {
			needAt, needOp = t.Start, t.Op
			break
		}
	}
	tailLooksLike := v.ReturnAt >= 0 && v.ReturnAt+1 < len(script) && needsTx[script[v.ReturnAt+1]] != ""
	if !v.Ambiguous {
		switch {
		case needAt >= 0 && ferr == nil:
			return fmt.Errorf("Parse with ErrorOnCheckSig accepted %s although it holds %s at offset %d", short(script), needsTx[needOp], needAt)
		case v.Truncated && ferr == nil:
			return fmt.Errorf("Parse with ErrorOnCheckSig accepted the truncated script %s", short(script))
		case needAt < 0 && !v.Truncated && ferr != nil:
			return fmt.Errorf("Parse with ErrorOnCheckSig refused %s, which holds no opcode that needs a transaction (reference reader: %d instructions, top-level OP_RETURN at %d): %v", short(script), len(v.Toks), v.ReturnAt, ferr)
		}
	}
	if ferr != nil {
		if needAt >= 0 {
			ctx.Label("flagged parser: refused, opcode needs a transaction")
		} else {
			ctx.Label("flagged parser: refused, other")
		}
		return nil
	}
	ctx.Label("flagged parser: accepted")
	if tailLooksLike {
		ctx.Label("flagged parser: accepted, first byte behind the top-level OP_RETURN has a checksig/locktime value")
	}
	if zeroErr != nil {
		return fmt.Errorf("Parse with ErrorOnCheckSig accepted %s, the zero-value parser refused it: %v", short(script), zeroErr)
	}
	if len(fops) != len(zeroOps) {
		return fmt.Errorf("%s: %d tokens with ErrorOnCheckSig, %d with the zero-value parser", short(script), len(fops), len(zeroOps))
	}
	for i := range fops {
		if fops[i].Value() != zeroOps[i].Value() || fops[i].Length() != zeroOps[i].Length() || fops[i].Name() != zeroOps[i].Name() || !bytes.Equal(fops[i].Data, zeroOps[i].Data) {
			return fmt.Errorf("%s: token %d is {%02x %q len %d data %s} with ErrorOnCheckSig and {%02x %q len %d data %s} with the zero-value parser", short(script), i,
				fops[i].Value(), fops[i].Name(), fops[i].Length(), short(fops[i].Data), zeroOps[i].Value(), zeroOps[i].Name(), zeroOps[i].Length(), short(zeroOps[i].Data))
		}
	}
	back, err := fp.Unparse(fops)
	if err != nil || back == nil || !bytes.Equal(*back, script) {
		return fmt.Errorf("Unparse(Parse(%s)) with ErrorOnCheckSig = %v, %v", short(script), back, err)
	}
	return nil
}

// enumReturnTails: the first byte behind an OP_RETURN sweeps all 256 values, with the
// OP_RETURN at top level (alone, after other instructions, after a closed IF block, after a
// first OP_RETURN inside a block) and inside IF / NOTIF / ELSE branches (there the byte IS an
// instruction), each with nothing, one more byte and a short tail behind it.
func enumReturnTails(yield func(Scr)) {
	pre := [][]byte{{}, {0x51}, {0x02, 0xac, 0xad}, {0x63, 0x68}, {0x63, 0x6a, 0xac, 0x68}, {0x63, 0x67, 0x68, 0x76}, {0x4c, 0x01, 0xae}}
	for b := 0; b < 256; b++ {
		for _, p := range pre {
			for _, rest := range [][]byte{{}, {0x00}, {0xac, 0x4c, 0xff}} {
				s := append(append(append(append([]byte{}, p...), 0x6a), byte(b)), rest...)
				yield(Scr{How: "enum-return-tail", Script: s})
			}
		}
		// inside a branch: the byte is read as an instruction (a push opcode may run past the end)
		for _, shape := range [][2][]byte{{{0x63, 0x6a}, {0x68}}, {{0x64, 0x6a}, {0x67, 0x68}}, {{0x63, 0x67, 0x6a}, {0x68, 0x6a}}, {{0x51, 0x63, 0x6a}, {0x00, 0x00, 0x68, 0x6a, 0xac}}} {
			s := append(append(append([]byte{}, shape[0]...), byte(b)), shape[1]...)
			yield(Scr{How: "enum-return-in-branch", Script: s})
		}
	}
}
