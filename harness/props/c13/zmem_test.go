package c13

import (
	"os"
	"runtime"
	"testing"
)

// TestZMemStats prints heap statistics at the end of a run when VERIF_MEMSTAT is set (diagnostics only).
func TestZMemStats(t *testing.T) {
	if os.Getenv("VERIF_MEMSTAT") == "" {
		return
	}
	var m runtime.MemStats
	runtime.ReadMemStats(&m)
	t.Logf("HeapSys=%dMB HeapInuse=%dMB HeapReleased=%dMB Sys=%dMB NumGC=%d TotalAlloc=%dMB", m.HeapSys>>20, m.HeapInuse>>20, m.HeapReleased>>20, m.Sys>>20, m.NumGC, m.TotalAlloc>>20)
}
