package c13

// Round 4: histories on ONE *bscript.Script value served by ONE DefaultOpcodeParser.
// The script is queried, then edited (Append*, bytes overwritten in place, truncated,
// replaced through the pointer), then queried again ... After every step each codec
// answer must be the reference answer for the script AS IT STANDS (a model byte string
// receives the same edits). Results that are the caller's own (Unparse, NewFromASM,
// NewFromHexString, MarshalJSON, the strings) are additionally kept and compared once
// more after the last step with the model as it stood when they were produced.

import (
	"bytes"
	"encoding/hex"
	"fmt"
	"strings"
	"testing"

	"github.com/libsv/go-bt/v2/bscript"
	"github.com/libsv/go-bt/v2/bscript/interpreter"
	"pgregory.net/rapid"

	"verif/harness/gen"
	"verif/harness/pbt"
	"verif/harness/ref"
)

// HStep is one edit of the script.
type HStep struct {
	// Op: push (AppendPushData), push-hex (AppendPushDataHexString), push-string
	// (AppendPushDataString), push-array (AppendPushDataArray), push-strings
	// (AppendPushDataStrings), ops (AppendOpcodes with non-push opcodes), set (one byte
	// overwritten in place), cut (length reduced), assign (*s = other bytes), none (query again).
	Op    string  `json:"op"`
	Items []Item  `json:"items,omitempty"`
	Bytes pbt.Hex `json:"bytes,omitempty"` // ops: the opcodes; assign: the new contents
	Pos   int     `json:"pos,omitempty"`   // set: index (mod length); cut: new length (mod length+1)
	Val   byte    `json:"val,omitempty"`   // set: the new value
}

// History is a script, the spare capacity of its backing array, and 2..8 edits.
type History struct {
	Init  pbt.Hex `json:"init"`
	Spare int     `json:"spare"`
	Steps []HStep `json:"steps"`
}

type kept struct {
	at    int
	model []byte
	back  *bscript.Script
	asm   string
	from  *bscript.Script
	hexS  string
	fromH *bscript.Script
	js    []byte
}

func wellFormedness(model []byte) string {
	if _, ok, _ := ref.Tokenize(model); ok {
		return "well-formed"
	}
	return "truncated"
}

// queryAll asks every codec question about s and compares with the reference for model.
func queryAll(ctx *pbt.Ctx, p, fp *interpreter.DefaultOpcodeParser, s *bscript.Script, model []byte, at int) (*kept, error) {
	fail := func(f string, a ...any) error {
		return fmt.Errorf("after step %d (script %s): %s", at, short(model), fmt.Sprintf(f, a...))
	}
	k := &kept{at: at, model: append([]byte(nil), model...)}
	if !bytes.Equal(*s, model) {
		return nil, fail("the script holds %s", short(*s))
	}
	toks, ok, cut := ref.Tokenize(model)
	// hex / JSON
	k.hexS = s.String()
	if k.hexS != hex.EncodeToString(model) {
		return nil, fail("String() = %q", k.hexS)
	}
	var err error
	if k.fromH, err = bscript.NewFromHexString(k.hexS); err != nil || k.fromH == nil || !bytes.Equal(*k.fromH, model) {
		return nil, fail("NewFromHexString(String()) = %v, %v", k.fromH, err)
	}
	if k.js, err = s.MarshalJSON(); err != nil || string(k.js) != `"`+hex.EncodeToString(model)+`"` {
		return nil, fail("MarshalJSON = %s, %v", short(k.js), err)
	}
	var u bscript.Script
	if err = u.UnmarshalJSON(append([]byte(nil), k.js...)); err != nil || !bytes.Equal(u, model) {
		return nil, fail("UnmarshalJSON(MarshalJSON()) = %s, %v", short(u), err)
	}
	// DecodeParts
	parts, derr := bscript.DecodeParts(*s)
	checkParts := func(when string) error {
		if len(parts) != len(toks) {
			return fail("DecodeParts %s: %d parts, the reference reader sees %d instructions", when, len(parts), len(toks))
		}
		for i, t := range toks {
			want := t.Data
			if !t.IsPush {
				want = []byte{t.Op}
			}
			if !bytes.Equal(parts[i], want) {
				return fail("DecodeParts %s: part %d = %s; the reference reader reads %s at offset %d", when, i, short(parts[i]), short(want), t.Start)
			}
		}
		return nil
	}
	if ok {
		if derr != nil {
			return nil, fail("DecodeParts rejected the well-formed script: %v", derr)
		}
		if err := checkParts("(immediately)"); err != nil {
			return nil, err
		}
	} else if derr == nil {
		return nil, fail("DecodeParts accepted; the instruction at offset %d runs past the end", cut)
	}
	// Parse / Unparse with the long-lived parser
	v := ref.ParserTokenize(model)
	ops, perr := p.Parse(s)
	if !v.Ambiguous {
		if v.Truncated && perr == nil {
			return nil, fail("Parse accepted although a push before any top-level OP_RETURN is truncated")
		}
		if !v.Truncated && perr != nil {
			return nil, fail("Parse rejected the well-formed script: %v", perr)
		}
	}
	checkOps := func() error {
		if perr != nil || v.Ambiguous {
			return nil
		}
		if len(ops) < len(v.Toks) || (v.ReturnAt < 0 && len(ops) != len(v.Toks)) {
			return fail("Parse holds %d instructions, the reference reader %d", len(ops), len(v.Toks))
		}
		return sameOps(ops[:len(v.Toks)], v.Toks, model)
	}
	if err := checkOps(); err != nil {
		return nil, err
	}
	// the long-lived parser with ErrorOnCheckSig on the same bytes
	if ferr := checkFlagged(ctx, fp, model, v, ops, perr); ferr != nil {
		return nil, fail("%v", ferr)
	}
	if perr == nil {
		if k.back, err = p.Unparse(ops); err != nil || k.back == nil || !bytes.Equal(*k.back, model) {
			return nil, fail("Unparse(Parse(s)) = %v, %v", k.back, err)
		}
	}
	// ToASM / NewFromASM
	if k.asm, err = s.ToASM(); err != nil {
		return nil, fail("ToASM: %v", err)
	}
	if len(model) > 0 && strings.HasSuffix(k.asm, "[error]") != !ok {
		return nil, fail("ToASM = %q; well-formed = %v", short([]byte(k.asm)), ok)
	}
	if _, why := inASMClass(model); why == "" {
		if k.from, err = bscript.NewFromASM(k.asm); err != nil || k.from == nil || !bytes.Equal(*k.from, model) {
			return nil, fail("NewFromASM(ToASM(s) = %q) = %v, %v", short([]byte(k.asm)), k.from, err)
		}
	}
	// the parts and parsed opcodes (views of the script) once more, after the other queries
	if ok {
		if err := checkParts("(after the other queries of this step)"); err != nil {
			return nil, err
		}
	}
	if err := checkOps(); err != nil {
		return nil, fmt.Errorf("%v (after the other queries of this step)", err)
	}
	if !bytes.Equal(*s, model) {
		return nil, fail("a query changed the script to %s", short(*s))
	}
	return k, nil
}

func verifyKept(k *kept, n int) error {
	fail := func(what string, got []byte) error {
		return fmt.Errorf("%s obtained after step %d (script %s) reads %s after all %d steps", what, k.at, short(k.model), short(got), n)
	}
	if k.back != nil && !bytes.Equal(*k.back, k.model) {
		return fail("the Unparse result", *k.back)
	}
	if k.from != nil && !bytes.Equal(*k.from, k.model) {
		return fail("the NewFromASM result", *k.from)
	}
	if !bytes.Equal(*k.fromH, k.model) {
		return fail("the NewFromHexString result", *k.fromH)
	}
	if h := hex.EncodeToString(k.model); k.hexS != h || string(k.js) != `"`+h+`"` {
		return fail("String/MarshalJSON", []byte(k.hexS))
	}
	return nil
}

func checkHistory(ctx *pbt.Ctx, c History) error {
	if len(c.Steps) < 1 {
		return fmt.Errorf("harness: no steps")
	}
	model := append([]byte(nil), c.Init...)
	buf := append(make([]byte, 0, len(model)+c.Spare), model...)
	s := bscript.NewFromBytes(buf)
	p := &interpreter.DefaultOpcodeParser{}
	fp := &interpreter.DefaultOpcodeParser{ErrorOnCheckSig: true}
	var keep []*kept
	k, err := queryAll(ctx, p, fp, s, model, 0)
	if err != nil {
		return err
	}
	keep = append(keep, k)
	state := wellFormedness(model)
	maxLen, nt := len(model), false
	var key [][]byte
	key = append(key, model)
	for i, st := range c.Steps {
		var items [][]byte
		for _, it := range st.Items {
			if it.Len < 1 {
				return fmt.Errorf("harness: empty item generated (outside the domain)")
			}
			items = append(items, it.bytes())
			if it.Len >= 76 {
				nt = true
			}
		}
		lib := copyItems(items)
		var aerr error
		switch st.Op {
		case "push":
			aerr = s.AppendPushData(lib[0])
			items = items[:1]
		case "push-hex":
			aerr = s.AppendPushDataHexString(hex.EncodeToString(lib[0]))
			items = items[:1]
		case "push-string":
			aerr = s.AppendPushDataString(string(lib[0]))
			items = items[:1]
		case "push-array":
			aerr = s.AppendPushDataArray(lib)
		case "push-strings":
			ss := make([]string, len(lib))
			for j := range lib {
				ss[j] = string(lib[j])
			}
			aerr = s.AppendPushDataStrings(ss)
		case "ops":
			for _, o := range st.Bytes {
				if o >= 0x01 && o <= 0x4e {
					return fmt.Errorf("harness: push opcode %02x given to AppendOpcodes", o)
				}
			}
			aerr = s.AppendOpcodes(append([]byte(nil), st.Bytes...)...)
			model = append(model, st.Bytes...)
		case "set":
			if len(model) == 0 {
				ctx.Label("edit:set on empty script (no-op)")
				break
			}
			j := st.Pos % len(model)
			(*s)[j] = st.Val
			model[j] = st.Val
		case "cut":
			n := st.Pos % (len(model) + 1)
			*s = (*s)[:n]
			model = model[:n]
		case "assign":
			*s = append(bscript.Script(nil), st.Bytes...)
			model = append([]byte(nil), st.Bytes...)
		case "none":
		default:
			return fmt.Errorf("harness: unknown op %q", st.Op)
		}
		if aerr != nil {
			return fmt.Errorf("step %d (%s, item lengths %v) failed: %v", i+1, st.Op, lens(items), aerr)
		}
		if strings.HasPrefix(st.Op, "push") {
			model = append(model, refEncode(items)...)
		}
		ctx.Label("edit:" + st.Op)
		key = append(key, []byte(st.Op), []byte(fmt.Sprint(len(model))))
		if k, err = queryAll(ctx, p, fp, s, model, i+1); err != nil {
			return fmt.Errorf("%v [edit was %s]", err, st.Op)
		}
		keep = append(keep, k)
		if ns := wellFormedness(model); ns != state {
			ctx.Label("transition:" + state + "->" + ns)
			state = ns
		}
		if len(model) > maxLen {
			maxLen = len(model)
		}
	}
	defer relieve(maxLen)
	for _, k := range keep {
		if err := verifyKept(k, len(c.Steps)); err != nil {
			return err
		}
	}
	ctx.Key(key...)
	ctx.Labelf("steps=%d", len(c.Steps))
	ctx.Label("final:" + state)
	if toks, _, _ := ref.Tokenize(model); nonTrivial(toks) || nt {
		ctx.NonTrivial()
	}
	return nil
}

var historyOps = []string{"push", "push", "push-hex", "push-string", "push-array", "push-strings", "ops", "ops", "set", "set", "set", "cut", "cut", "assign", "none"}

func genHStep(t *rapid.T, big *int) HStep {
	st := HStep{Op: rapid.SampledFrom(historyOps).Draw(t, "op")}
	switch st.Op {
	case "push", "push-hex", "push-string":
		it := genItem(t, *big < 1)
		if it.Len > 60000 {
			*big++
		}
		st.Items = []Item{it}
	case "push-array", "push-strings":
		n := rapid.IntRange(1, 3).Draw(t, "n")
		for i := 0; i < n; i++ {
			st.Items = append(st.Items, genItem(t, false))
		}
	case "ops":
		n := rapid.IntRange(1, 4).Draw(t, "n")
		for i := 0; i < n; i++ {
			st.Bytes = append(st.Bytes, gen.NonPushOp(t, true))
		}
	case "set":
		st.Pos = rapid.IntRange(0, 400).Draw(t, "pos")
		if rapid.IntRange(0, 1).Draw(t, "val_kind") == 0 {
			st.Val = rapid.SampledFrom([]byte{0x00, 0x01, 0x02, 0x4b, 0x4c, 0x4d, 0x4e, 0x4f, 0x51, 0x63, 0x68, 0x6a, 0x76, 0xff}).Draw(t, "val")
		} else {
			st.Val = rapid.Byte().Draw(t, "val")
		}
	case "cut":
		st.Pos = rapid.IntRange(0, 400).Draw(t, "pos")
	case "assign":
		st.Bytes = genParseCase(t).Script
		if len(st.Bytes) > 2000 {
			st.Bytes = st.Bytes[:2000]
		}
	}
	return st
}

func TestHistory(t *testing.T) {
	pbt.Run(t, pbt.Sub[History]{
		Name: "history", Quick: 60000, Thorough: 1500000,
		Gen: func(t *rapid.T) History {
			c := History{Spare: rapid.SampledFrom([]int{0, 0, 1, 3, 64, 600}).Draw(t, "spare")}
			switch rapid.IntRange(0, 3).Draw(t, "init") {
			case 0:
			case 1:
				o := asmOpts
				o.MaxInstr, o.Big = 4, false
				c.Init = genASMScript(t, o)
			default:
				c.Init = gen.Script(t, smallOpts)
			}
			n := rapid.IntRange(2, 8).Draw(t, "nsteps")
			big := 0
			for i := 0; i < n; i++ {
				c.Steps = append(c.Steps, genHStep(t, &big))
			}
			return c
		},
		Check:    checkHistory,
		EnumDesc: "the byte behind an OP_RETURN at top level / inside an IF block / after a closed block overwritten in place with all 256 values, an opcode appended, the byte restored (768 histories); P2PKH-shaped script 76 a9 14<20> 88 ac: every single byte overwritten in place with each of 00 01 4c 4d 4e 6a ff, then restored (3 query rounds on one object); every truncation followed by an append that completes or exceeds the cut push; one push of each boundary length 75/76/255/256 appended to the empty script and to the script with 0 / 600 bytes of spare capacity",
		Enum: func(tier string, yield func(History)) {
			base := append(append([]byte{0x76, 0xa9, 0x14}, bytes.Repeat([]byte{0x33}, 20)...), 0x88, 0xac)
			for pos := range base {
				for _, v := range []byte{0x00, 0x01, 0x4c, 0x4d, 0x4e, 0x6a, 0xff} {
					yield(History{Init: base, Steps: []HStep{{Op: "set", Pos: pos, Val: v}, {Op: "set", Pos: pos, Val: base[pos]}}})
				}
			}
			for cut := 0; cut < len(base); cut++ {
				for _, spare := range []int{0, 64} {
					yield(History{Init: base, Spare: spare, Steps: []HStep{{Op: "cut", Pos: cut}, {Op: "ops", Bytes: pbt.Hex{0x51, 0x6a, 0x00}}, {Op: "push", Items: []Item{{Len: 20, Pat: pbt.Hex{0x11}}}}}})
				}
			}
			// the first byte behind an OP_RETURN (top level / inside a branch) swept in place, then restored
			for b := 0; b < 256; b++ {
				for _, init := range []pbt.Hex{{0x51, 0x6a, 0x00, 0x00}, {0x63, 0x6a, 0x00, 0x68}, {0x63, 0x68, 0x6a, 0x00}} {
					pos := 2
					if init[2] == 0x6a {
						pos = 3
					}
					yield(History{Init: init, Steps: []HStep{{Op: "set", Pos: pos, Val: byte(b)}, {Op: "ops", Bytes: pbt.Hex{0x00}}, {Op: "set", Pos: pos, Val: 0x00}}})
				}
			}
			for _, n := range []int{1, 75, 76, 255, 256} {
				for _, spare := range []int{0, 600} {
					for _, op := range []string{"push", "push-hex", "push-string", "push-array", "push-strings"} {
						it := Item{Len: n, Pat: pbt.Hex{0x4c, byte(n)}}
						yield(History{Spare: spare, Steps: []HStep{{Op: op, Items: []Item{it}}, {Op: "none"}}})
						yield(History{Init: base, Spare: spare, Steps: []HStep{{Op: op, Items: []Item{it}}, {Op: "set", Pos: 25, Val: 0x4e}, {Op: "cut", Pos: 25}}})
					}
				}
			}
		},
	})
}
