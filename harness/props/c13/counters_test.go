package c13

// Round 8: every counter the parsers keep gets an axis of its own, swept over the 8- and
// 16-bit wrap points: (a) the nesting depth - runs of OP_IF / OP_NOTIF of every length 0..300
// and 511..513, 767..769, 1023..1025, 65535..65537, partly or fully closed again by OP_ENDIFs
// (so that the depth REMAINING at the interesting instruction is 0, 1, 255, 256, 257, ... too),
// in front of an OP_RETURN with a well-formed tail, a truncated push, a checksig byte, or no
// OP_RETURN at all; (b) the element count - the same script preceded by 0 / 255 / 256 / 257 /
// 65535 / 65536 / 65537 one-byte instructions, which also moves every later push to a byte
// OFFSET on a wrap point. The case stores the counts, never the script. Oracle: parse-unparse
// (Parse accepts exactly when no push before a top-level OP_RETURN is cut - the reference
// reader counts depth with an int -, tokens = reference tokens, Unparse = bytes, both parser
// configurations) and, for scripts without OP_RETURN, tokeniser agreement (DecodeParts, Parse,
// reference reader: same verdict, same instruction count and boundaries).

import (
	"bytes"
	"fmt"
	"testing"

	"pgregory.net/rapid"

	"verif/harness/pbt"
)

// Counters describes Pre x OP_NOP, Open x OP_IF/OP_NOTIF, Close x OP_ENDIF, the tail, After x OP_ENDIF.
type Counters struct {
	Pre   int    `json:"pre"`
	Open  int    `json:"open"`
	NotIf int    `json:"notif"` // 0 = OP_IF, 1 = OP_NOTIF, 2 = alternating
	Close int    `json:"close"`
	Tail  string `json:"tail"`
	After int    `json:"after"`
}

var counterTails = map[string][]byte{
	"none":                   {},
	"op":                     {0x51},
	"push":                   {0x02, 0xaa, 0xbb},
	"cut-push":               {0x4c, 0x05, 0xaa},
	"checksig":               {0xac},
	"return":                 {0x6a},
	"return+ops":             {0x6a, 0x51, 0x52},
	"return+push":            {0x6a, 0x02, 0xaa, 0xbb, 0x87},
	"return+cut-push":        {0x6a, 0x4c, 0x05, 0xaa},
	"return+cut-header":      {0x6a, 0x4e, 0x01},
	"return+checksig-byte":   {0x6a, 0xac, 0x00},
	"return+push+return+cut": {0x6a, 0x01, 0x6a, 0x6a, 0x4d, 0xff},
}

var counterTailNames = []string{"none", "op", "push", "cut-push", "checksig", "return", "return+ops", "return+push", "return+cut-push", "return+cut-header", "return+checksig-byte", "return+push+return+cut"}

func (c Counters) build() []byte {
	s := bytes.Repeat([]byte{0x61}, c.Pre)
	for i := 0; i < c.Open; i++ {
		op := byte(0x63)
		if c.NotIf == 1 || (c.NotIf == 2 && i%2 == 1) {
			op = 0x64
		}
		s = append(s, op)
	}
	s = append(s, bytes.Repeat([]byte{0x68}, c.Close)...)
	s = append(s, counterTails[c.Tail]...)
	return append(s, bytes.Repeat([]byte{0x68}, c.After)...)
}

func wrapClass(n int) string {
	switch {
	case n == 0:
		return "0"
	case n < 255:
		return "1..254"
	case n <= 257:
		return fmt.Sprint(n)
	case n < 511:
		return "258..510"
	case n <= 513:
		return fmt.Sprint(n)
	case n < 65535:
		return "514..65534"
	case n <= 65537:
		return fmt.Sprint(n)
	}
	return ">65537"
}

func checkCounters(ctx *pbt.Ctx, c Counters) error {
	if _, ok := counterTails[c.Tail]; !ok || c.Pre < 0 || c.Open < 0 || c.Close < 0 || c.After < 0 || c.Close > c.Open || c.Pre+c.Open+c.Close+c.After > 300000 {
		return fmt.Errorf("harness: malformed case %+v", c)
	}
	s := c.build()
	ctx.Label("open:" + wrapClass(c.Open))
	ctx.Label("depth at tail:" + wrapClass(c.Open-c.Close))
	ctx.Label("pre:" + wrapClass(c.Pre))
	ctx.Label("tail:" + c.Tail)
	if err := checkParse(ctx, Scr{How: "counters", Script: s}); err != nil {
		return fmt.Errorf("%v [case %+v]", err, c)
	}
	if !bytes.Contains(counterTails[c.Tail], []byte{0x6a}) {
		if err := checkAgree(ctx, Scr{How: "counters", Script: s}); err != nil {
			return fmt.Errorf("%v [case %+v]", err, c)
		}
	}
	ctx.NonTrivial()
	return nil
}

func wrapPoints(tier string) []int {
	var out []int
	for d := 0; d <= 300; d++ {
		out = append(out, d)
	}
	out = append(out, 511, 512, 513, 767, 768, 769, 1023, 1024, 1025, 65535, 65536, 65537)
	return out
}

func TestCounters(t *testing.T) {
	pbt.Run(t, pbt.Sub[Counters]{
		Name: "counters", Quick: 6000, Thorough: 150000,
		Gen: func(t *rapid.T) Counters {
			pt := func(label string) int {
				w := rapid.SampledFrom([]int{0, 1, 2, 255, 256, 257, 511, 512, 513, 768, 1024}).Draw(t, label)
				if rapid.IntRange(0, 2).Draw(t, label+"_any") == 0 {
					w = rapid.IntRange(0, 1100).Draw(t, label)
				}
				if rapid.IntRange(0, 39).Draw(t, label+"_16") == 7 {
					w = rapid.SampledFrom([]int{65535, 65536, 65537}).Draw(t, label)
				}
				return w
			}
			c := Counters{Open: pt("open"), NotIf: rapid.IntRange(0, 2).Draw(t, "notif"), Tail: rapid.SampledFrom(counterTailNames).Draw(t, "tail")}
			switch rapid.IntRange(0, 3).Draw(t, "close") {
			case 0:
				c.Close = c.Open
			case 1:
				// the depth REMAINING at the tail sits on a wrap point
				r := rapid.SampledFrom([]int{1, 255, 256, 257, 512}).Draw(t, "remaining")
				if r <= c.Open {
					c.Close = c.Open - r
				}
			case 2:
				c.Close = rapid.IntRange(0, c.Open).Draw(t, "close_n")
			}
			if rapid.IntRange(0, 1).Draw(t, "after") == 1 {
				c.After = c.Open - c.Close
			}
			if rapid.IntRange(0, 3).Draw(t, "pre") == 0 && c.Open < 60000 {
				c.Pre = pt("pre")
			}
			return c
		},
		Check:    checkCounters,
		EnumDesc: "OP_IF runs (OP_NOTIF / alternating for every fourth) of every length 0..300, 511..513, 767..769, 1023..1025, 65535..65537 x 12 tails (nothing, opcode, push, cut push, checksig, OP_RETURN alone / + opcodes / + push / + cut push / + cut PUSHDATA4 header / + checksig byte / + push holding 6a + second OP_RETURN + cut push) x {no ENDIF, all ENDIFs before the tail, all ENDIFs after the tail}; the wrap lengths also closed down to a remaining depth of 1 / 255 / 256 / 257; 0 / 255 / 256 / 257 / 65535 / 65536 / 65537 one-byte instructions in front of depth 0 / 1 / 256 x all tails",
		Enum: func(tier string, yield func(Counters)) {
			for i, d := range wrapPoints(tier) {
				notif := 0
				if i%4 == 3 {
					notif = 1 + i%2
				}
				for _, tail := range counterTailNames {
					yield(Counters{Open: d, NotIf: notif, Tail: tail})
					if d > 0 {
						yield(Counters{Open: d, NotIf: notif, Close: d, Tail: tail})
						yield(Counters{Open: d, NotIf: notif, Tail: tail, After: d})
					}
					if d >= 255 {
						for _, r := range []int{1, 255, 256, 257} {
							if r < d {
								yield(Counters{Open: d, NotIf: notif, Close: d - r, Tail: tail, After: r})
							}
						}
					}
				}
			}
			for _, pre := range []int{255, 256, 257, 65535, 65536, 65537} {
				for _, d := range []int{0, 1, 256} {
					for _, tail := range counterTailNames {
						yield(Counters{Pre: pre, Open: d, Tail: tail})
					}
				}
			}
		},
	})
}
