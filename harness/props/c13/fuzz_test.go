package c13

import (
	"testing"

	"verif/harness/pbt"
	"verif/harness/ref"
)

// FuzzScript is the coverage-guided target of the thorough tier: arbitrary script bytes through
// the oracles of parse-unparse, agreement, truncation and hex-json, and through asm when the
// script belongs to the class the statement names (the same check functions the generated
// sub-checks use; a discarded case is not judged).
func FuzzScript(f *testing.F) {
	for _, s := range [][]byte{
		{}, {0x00}, {0x51, 0x52, 0x93}, {0x76, 0xa9, 0x14, 1, 2, 3, 4, 5, 6, 7, 8, 9, 10, 11, 12, 13, 14, 15, 16, 17, 18, 19, 20, 0x88, 0xac},
		{0x4c, 0x02, 0xaa, 0xbb}, {0x4d, 0x03, 0x00, 1, 2, 3}, {0x4e, 0x01, 0x00, 0x00, 0x00, 0xff}, {0x4c}, {0x4d, 0x01}, {0x4e, 0xff, 0xff, 0xff, 0xff},
		{0x63, 0x51, 0x67, 0x6a, 0x01, 0x02, 0x68, 0x51}, {0x00, 0x6a, 0x03, 1, 2, 3}, {0x6a, 0x4c}, {0x63, 0x63, 0x68, 0x6a, 0x05},
		{0x00, 0x63, 0x03, 'o', 'r', 'd', 0x51, 0x01, 't', 0x00, 0x01, 'd', 0x68},
	} {
		f.Add(s)
	}
	f.Fuzz(func(t *testing.T, script []byte) {
		if len(script) > 4096 {
			t.Skip()
		}
		c := Scr{How: "fuzz", Script: script}
		pbt.FuzzCheck(t, "C13", "parse-unparse", checkParse, c)
		pbt.FuzzCheck(t, "C13", "agreement", checkAgree, c)
		if _, ok, _ := ref.Tokenize(script); ok {
			pbt.FuzzCheck(t, "C13", "truncation", checkTrunc, c)
		}
		pbt.FuzzCheck(t, "C13", "hex-json", checkHexJSON, c)
		if _, why := inASMClass(script); why == "" {
			pbt.FuzzCheck(t, "C13", "asm", checkASM, c)
		}
	})
}
