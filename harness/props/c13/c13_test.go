// Package c13 decides property C13 (script codecs round-trip: push-data,
// opcode parse/unparse, hex, JSON, ASM).
package c13

import (
	"bytes"
	"encoding/hex"
	"encoding/json"
	"fmt"
	"runtime"
	"runtime/debug"
	"strings"
	"testing"

	"github.com/libsv/go-bt/v2/bscript"
	"github.com/libsv/go-bt/v2/bscript/interpreter"
	"pgregory.net/rapid"

	"verif/harness/gen"
	"verif/harness/pbt"
	"verif/harness/ref"
)

func TestMain(m *testing.M) {
	// Parse allocates a ParsedOpcode per script *byte*; with 64 kB pushes and a loaded
	// machine the collector can fall behind, so give it a soft ceiling well below the
	// driver's address-space limit.
	debug.SetMemoryLimit(3 << 30)
	// The live heap is ~10 MB while Parse churns through GBs per second: with the default
	// GOGC that is a collection every few ms, each needing all Ps to rendezvous, which on an
	// oversubscribed machine (12 shards x 16 Ps) costs far more than the work itself.
	debug.SetGCPercent(400)
	runtime.GOMAXPROCS(2)
	pbt.Main(m)
}

// ---------------------------------------------------------------------------
// shared helpers

// relieve forces a collection after work on a 64 kB script: Parse allocates 64 bytes per
// script byte, and on a heavily loaded machine the concurrent collector otherwise lets
// the address space balloon past the driver's per-shard limit.
func relieve(n int) {
	if n > 32768 {
		runtime.GC()
	}
}

// nonTrivial implements the stated rule: a push of >= 76 bytes or >= 3 instructions.
func nonTrivial(toks []ref.ScriptTok) bool {
	if len(toks) >= 3 {
		return true
	}
	for _, t := range toks {
		if t.IsPush && len(t.Data) >= 76 {
			return true
		}
	}
	return false
}

func lenClass(n int) string {
	switch {
	case n == 0:
		return "0"
	case n == 1:
		return "1"
	case n < 75:
		return "2..74"
	case n == 75:
		return "75"
	case n == 76:
		return "76"
	case n < 255:
		return "77..254"
	case n == 255:
		return "255"
	case n == 256:
		return "256"
	case n < 65535:
		return "257..65534"
	case n == 65535:
		return "65535"
	case n == 65536:
		return "65536"
	}
	return ">65536"
}

func formName(op byte) string {
	switch {
	case op == 0x4c:
		return "pushdata1"
	case op == 0x4d:
		return "pushdata2"
	case op == 0x4e:
		return "pushdata4"
	}
	return "direct"
}

func short(b []byte) string {
	if len(b) <= 48 {
		return hex.EncodeToString(b)
	}
	return fmt.Sprintf("%x..(%d bytes)..%x", b[:20], len(b), b[len(b)-8:])
}

func labelToks(ctx *pbt.Ctx, toks []ref.ScriptTok) {
	seen := map[string]bool{}
	for _, t := range toks {
		var l string
		if t.IsPush {
			l = "push:" + formName(t.Op) + ":" + lenClass(len(t.Data))
			if t.End-t.Start-len(t.Data) != len(ref.MinimalPushPrefix(len(t.Data))) {
				seen["push:non-minimal"] = true
			}
		} else {
			l = "op"
		}
		seen[l] = true
	}
	for _, k := range sortedKeys(seen) {
		ctx.Label(k)
	}
}

func sortedKeys(m map[string]bool) []string {
	ks := make([]string, 0, len(m))
	for k := range m {
		ks = append(ks, k)
	}
	// insertion sort, tiny
	for i := 1; i < len(ks); i++ {
		for j := i; j > 0 && ks[j] < ks[j-1]; j-- {
			ks[j], ks[j-1] = ks[j-1], ks[j]
		}
	}
	return ks
}

// ---------------------------------------------------------------------------
// (1) EncodeParts -> DecodeParts, shortest prefix

// Item is one data item: Pat repeated (with a per-repeat increment) up to Len bytes.
type Item struct {
	Len int     `json:"len"`
	Pat pbt.Hex `json:"pat"`
}

func (it Item) bytes() []byte {
	out := make([]byte, it.Len)
	if len(it.Pat) == 0 {
		return out
	}
	for i := range out {
		out[i] = it.Pat[i%len(it.Pat)] + byte(i/len(it.Pat))
	}
	return out
}

// Parts is a list of non-empty data items.
type Parts struct {
	Items []Item `json:"items"`
}

func checkParts(ctx *pbt.Ctx, c Parts) error {
	items := make([][]byte, len(c.Items))
	total := 0
	var key [][]byte
	for i, it := range c.Items {
		if it.Len < 1 {
			return fmt.Errorf("harness: empty item generated (outside the domain)")
		}
		items[i] = it.bytes()
		total += it.Len
		ctx.Label("item:" + lenClass(it.Len))
		key = append(key, []byte(fmt.Sprint(it.Len)), it.Pat)
	}
	ctx.Key(key...)
	ctx.Labelf("nitems=%d", min(len(items), 4))

	defer relieve(total)
	enc, err := bscript.EncodeParts(items)
	if err != nil {
		return fmt.Errorf("EncodeParts failed on %d items (total %d bytes): %v", len(items), total, err)
	}
	// shortest form, decided by the reference layout
	var want []byte
	for i, it := range items {
		pre := ref.MinimalPushPrefix(len(it))
		want = append(want, pre...)
		want = append(want, it...)
		got, perr := bscript.PushDataPrefix(it)
		if perr != nil || !bytes.Equal(got, pre) {
			return fmt.Errorf("PushDataPrefix(item %d, %d bytes) = %x, %v; shortest prefix is %x", i, len(it), got, perr, pre)
		}
		// MinPushSize counts OP_1..OP_16/OP_1NEGATE for one-byte values <= 16 / 0x81; those are
		// value-based forms outside this statement, so the cross-check skips them.
		if len(it) >= 2 || (it[0] > 16 && it[0] != 0x81) {
			if mp := bscript.MinPushSize(it); mp != len(pre)+len(it) {
				return fmt.Errorf("MinPushSize(%d-byte item) = %d but the shortest push takes %d bytes", len(it), mp, len(pre)+len(it))
			}
		}
	}
	if !bytes.Equal(enc, want) {
		return fmt.Errorf("EncodeParts of lengths %v = %s, shortest-form encoding is %s", lens(items), short(enc), short(want))
	}
	// the reference reader sees exactly the items
	toks, ok, _ := ref.Tokenize(enc)
	if !ok || len(toks) != len(items) {
		return fmt.Errorf("reference reader: encoding of %v does not tokenise into %d pushes (ok=%v n=%d)", lens(items), len(items), ok, len(toks))
	}
	if nonTrivial(toks) {
		ctx.NonTrivial()
	}
	dec, err := bscript.DecodeParts(enc)
	if err != nil {
		return fmt.Errorf("DecodeParts(EncodeParts(lengths %v)) failed: %v", lens(items), err)
	}
	if err := sameItems("DecodeParts", dec, items); err != nil {
		return err
	}
	if total <= 4096 {
		dec2, err := bscript.DecodeStringParts(hex.EncodeToString(enc))
		if err != nil {
			return fmt.Errorf("DecodeStringParts failed: %v", err)
		}
		if err := sameItems("DecodeStringParts", dec2, items); err != nil {
			return err
		}
		s := &bscript.Script{}
		if err := s.AppendPushDataArray(items); err != nil || !bytes.Equal(*s, want) {
			return fmt.Errorf("AppendPushDataArray(lengths %v) = %s, %v; want %s", lens(items), short(*s), err, short(want))
		}
		s2 := &bscript.Script{}
		for _, it := range items {
			if err := s2.AppendPushData(it); err != nil {
				return fmt.Errorf("AppendPushData: %v", err)
			}
		}
		if !bytes.Equal(*s2, want) {
			return fmt.Errorf("AppendPushData x%d = %s; want %s", len(items), short(*s2), short(want))
		}
	}
	// the opcode parser sees the same pushes and restores the bytes (Parse allocates 70+
	// bytes per script byte; multi-item lists with 64 kB items are left to the other decoders)
	if total > 70000 && len(items) > 1 {
		return nil
	}
	p := &interpreter.DefaultOpcodeParser{}
	ops, err := p.Parse(bscript.NewFromBytes(enc))
	if err != nil {
		return fmt.Errorf("Parse(EncodeParts(lengths %v)) failed: %v", lens(items), err)
	}
	if len(ops) != len(items) {
		return fmt.Errorf("Parse sees %d instructions, %d items were encoded", len(ops), len(items))
	}
	for i := range ops {
		if !bytes.Equal(ops[i].Data, items[i]) {
			return fmt.Errorf("Parse: instruction %d carries %s, item was %s", i, short(ops[i].Data), short(items[i]))
		}
	}
	return nil
}

func lens(items [][]byte) []int {
	l := make([]int, len(items))
	for i, it := range items {
		l[i] = len(it)
	}
	return l
}

func sameItems(who string, got, want [][]byte) error {
	if len(got) != len(want) {
		return fmt.Errorf("%s returned %d parts for %d items (lengths %v vs %v)", who, len(got), len(want), lens(got), lens(want))
	}
	for i := range got {
		if !bytes.Equal(got[i], want[i]) {
			return fmt.Errorf("%s: part %d = %s, item was %s", who, i, short(got[i]), short(want[i]))
		}
	}
	return nil
}

var boundaryLens = []int{1, 2, 74, 75, 76, 77, 254, 255, 256, 257}

func genItem(t *rapid.T, allowBig bool) Item {
	var n int
	k := rapid.IntRange(0, 399).Draw(t, "len_kind")
	switch {
	case allowBig && gen.Rare(t, "len_big"):
		n = rapid.SampledFrom([]int{65534, 65535, 65536, 65537}).Draw(t, "len")
	case k < 200:
		n = rapid.SampledFrom(boundaryLens).Draw(t, "len")
	case k < 300:
		n = rapid.IntRange(1, 40).Draw(t, "len")
	default:
		n = rapid.IntRange(1, 400).Draw(t, "len")
	}
	pl := n
	if pl > 24 {
		pl = rapid.IntRange(1, 24).Draw(t, "patlen")
	}
	return Item{Len: n, Pat: gen.Bytes(t, pl, "pat")}
}

func TestParts(t *testing.T) {
	pbt.Run(t, pbt.Sub[Parts]{
		Name: "parts", Quick: 96000, Thorough: 2400000,
		Gen: func(t *rapid.T) Parts {
			n := rapid.IntRange(1, 6).Draw(t, "n")
			p := Parts{}
			big := 0
			for i := 0; i < n; i++ {
				it := genItem(t, big < 2)
				if it.Len > 60000 {
					big++
				}
				p.Items = append(p.Items, it)
			}
			return p
		},
		Check:    checkParts,
		EnumDesc: "every single item of length 1..300 and 65530..65540 (two fill patterns), all single one-byte items 00..ff, and all ordered pairs and triples over lengths {1,75,76,255,256} (+65535,65536 in pairs)",
		Enum: func(tier string, yield func(Parts)) {
			for b := 0; b < 256; b++ {
				yield(Parts{Items: []Item{{Len: 1, Pat: pbt.Hex{byte(b)}}}})
			}
			for _, pat := range []pbt.Hex{{0x00}, {0x6a, 0x4c, 0xff}} {
				for n := 1; n <= 300; n++ {
					yield(Parts{Items: []Item{{Len: n, Pat: pat}}})
				}
				for n := 65530; n <= 65540; n++ {
					yield(Parts{Items: []Item{{Len: n, Pat: pat}}})
				}
			}
			b5 := []int{1, 75, 76, 255, 256}
			b7 := []int{1, 75, 76, 255, 256, 65535, 65536}
			for _, a := range b7 {
				for _, b := range b7 {
					yield(Parts{Items: []Item{{Len: a, Pat: pbt.Hex{0x4c}}, {Len: b, Pat: pbt.Hex{0x4d, 0x00}}}})
				}
			}
			for _, a := range b5 {
				for _, b := range b5 {
					for _, c := range b5 {
						yield(Parts{Items: []Item{{Len: a, Pat: pbt.Hex{0x01}}, {Len: b, Pat: pbt.Hex{0x4e}}, {Len: c, Pat: pbt.Hex{0xff, 0x00}}}})
					}
				}
			}
		},
	})
}

// ---------------------------------------------------------------------------
// (2) Parse -> Unparse identity, accept exactly the well-formed scripts

// Scr is a script given as bytes; How records how the generator derived it.
type Scr struct {
	How    string  `json:"how"`
	Script pbt.Hex `json:"script"`
}

func checkParse(ctx *pbt.Ctx, c Scr) error {
	script := []byte(c.Script)
	defer relieve(len(script))
	ctx.Key(script)
	v := ref.ParserTokenize(script)
	ctx.Label("how:" + c.How)
	labelToks(ctx, v.Toks)
	tail := 0
	if v.ReturnAt >= 0 {
		tail = len(script) - v.ReturnAt - 1
		switch {
		case tail == 0:
			ctx.Label("top-level OP_RETURN: no tail")
		case tail == 1:
			ctx.Label("top-level OP_RETURN: 1-byte tail")
		default:
			ctx.Label("top-level OP_RETURN: longer tail")
			if _, ok, _ := ref.Tokenize(script[v.ReturnAt+1:]); !ok {
				ctx.Label("top-level OP_RETURN: tail is not tokenisable")
			}
		}
	} else if v.HasOpReturn {
		ctx.Label("OP_RETURN only inside IF")
	}
	if nonTrivial(v.Toks) {
		ctx.NonTrivial()
	}
	p := &interpreter.DefaultOpcodeParser{}
	in := append([]byte(nil), script...)
	ops, err := p.Parse(bscript.NewFromBytes(in))
	if !bytes.Equal(in, script) {
		return fmt.Errorf("Parse modified its input %s -> %s", short(script), short(in))
	}
	if ferr := checkFlagged(ctx, &interpreter.DefaultOpcodeParser{ErrorOnCheckSig: true}, script, v, ops, err); ferr != nil {
		return ferr
	}
	switch {
	case v.Ambiguous:
		ctx.Label("verdict: not claimed (OP_RETURN after unbalanced ENDIF or OP_VERIF/OP_VERNOTIF)")
	case v.Truncated && err == nil:
		return fmt.Errorf("Parse accepted %s although the push at a reference-reader offset is truncated", short(script))
	case !v.Truncated && err != nil:
		return fmt.Errorf("Parse rejected the well-formed script %s: %v", short(script), err)
	}
	if err != nil {
		ctx.Label("rejected")
		return nil
	}
	ctx.Label("accepted")
	back, uerr := p.Unparse(ops)
	if uerr != nil {
		return fmt.Errorf("Unparse(Parse(%s)) failed: %v", short(script), uerr)
	}
	if back == nil || !bytes.Equal(*back, script) {
		var bb []byte
		if back != nil {
			bb = *back
		}
		return fmt.Errorf("Unparse(Parse(s)) != s: s=%s back=%s", short(script), short(bb))
	}
	if !v.Ambiguous {
		// instructions before the cut-off are the reference reader's
		if len(ops) < len(v.Toks) {
			return fmt.Errorf("Parse(%s) returned %d instructions, the reference reader %d", short(script), len(ops), len(v.Toks))
		}
		if err := sameOps(ops[:len(v.Toks)], v.Toks, script); err != nil {
			return err
		}
		if v.ReturnAt < 0 && len(ops) != len(v.Toks) {
			return fmt.Errorf("Parse(%s) returned %d instructions, the reference reader %d", short(script), len(ops), len(v.Toks))
		}
	}
	return nil
}

func sameOps(ops interpreter.ParsedScript, toks []ref.ScriptTok, script []byte) error {
	for i, t := range toks {
		if ops[i].Value() != t.Op {
			return fmt.Errorf("Parse(%s): instruction %d has opcode %02x, the reference reader reads %02x at offset %d", short(script), i, ops[i].Value(), t.Op, t.Start)
		}
		if !bytes.Equal(ops[i].Data, t.Data) {
			return fmt.Errorf("Parse(%s): instruction %d (opcode %02x at offset %d) carries %s, reference reader %s", short(script), i, t.Op, t.Start, short(ops[i].Data), short(t.Data))
		}
	}
	return nil
}

var fullOpts = gen.ScriptOpts{MaxInstr: 8, AllowReturn: true, NonMinimal: true, Big: true, OneByte: true}

func genParseCase(t *rapid.T) Scr {
	s := gen.Script(t, fullOpts)
	how := rapid.SampledFrom([]string{"well-formed", "well-formed", "well-formed", "return-tail", "return-tail", "truncated", "flip", "append"}).Draw(t, "how")
	switch how {
	case "return-tail":
		// top-level OP_RETURN followed by arbitrary bytes (often an unterminated push)
		pre := gen.Script(t, gen.ScriptOpts{MaxInstr: 3, NonMinimal: true, OneByte: true})
		if rapid.IntRange(0, 2).Draw(t, "nopre") == 0 {
			pre = nil
		}
		tl := rapid.IntRange(0, 6).Draw(t, "tail_len")
		var tail []byte
		if tl <= 3 {
			tail = gen.Bytes(t, tl, "tail")
		} else {
			tail = gen.Script(t, fullOpts)
			if len(tail) > 1 {
				tail = tail[:rapid.IntRange(1, len(tail)).Draw(t, "tail_cut")]
			}
		}
		s = append(append(append([]byte(nil), pre...), 0x6a), tail...)
	case "truncated":
		if len(s) > 0 {
			s = s[:rapid.IntRange(0, len(s)-1).Draw(t, "cut")]
		}
	case "flip":
		if len(s) > 0 {
			i := rapid.IntRange(0, min(len(s)-1, 12)).Draw(t, "i")
			s = append([]byte(nil), s...)
			s[i] = rapid.Byte().Draw(t, "b")
		}
	case "append":
		s = append(append([]byte(nil), s...), gen.Bytes(t, rapid.IntRange(1, 5).Draw(t, "n"), "extra")...)
	}
	return Scr{How: how, Script: s}
}

func enumShort(tier string, yield func(Scr)) {
	yield(Scr{How: "enum", Script: pbt.Hex{}})
	for a := 0; a < 256; a++ {
		yield(Scr{How: "enum", Script: pbt.Hex{byte(a)}})
	}
	for a := 0; a < 256; a++ {
		for b := 0; b < 256; b++ {
			yield(Scr{How: "enum", Script: pbt.Hex{byte(a), byte(b)}})
		}
	}
	enumReturnTails(yield)
	// 64 kB boundary pushes in every form wide enough, alone and between two opcodes
	for _, n := range []int{65535, 65536, 65537} {
		data := make([]byte, n)
		for i := range data {
			data[i] = byte(i*5 + n)
		}
		for _, form := range []int{2, 4} {
			if form == 2 && n > 65535 {
				continue
			}
			yield(Scr{How: "enum-64k", Script: ref.PushForm(data, form)})
			yield(Scr{How: "enum-64k", Script: append(append([]byte{0x76}, ref.PushForm(data, form)...), 0xac)})
		}
	}
	if tier == "thorough" {
		for a := 0; a < 256; a++ {
			for b := 0; b < 256; b++ {
				for c := 0; c < 256; c++ {
					yield(Scr{How: "enum", Script: pbt.Hex{byte(a), byte(b), byte(c)}})
				}
			}
		}
	}
}

const enumShortDesc = "all 65 793 scripts of length <= 2; the first byte behind an OP_RETURN sweeping all 256 values in 7 top-level contexts x 3 continuations and inside 4 IF/NOTIF/ELSE shapes (6 400 scripts); 10 scripts with a 65535/65536/65537-byte push in PUSHDATA2/4 form; thorough: also all 16 777 216 scripts of 3 bytes"

func TestParseUnparse(t *testing.T) {
	pbt.Run(t, pbt.Sub[Scr]{
		Name: "parse-unparse", Quick: 150000, Thorough: 4000000,
		Gen: genParseCase, Check: checkParse,
		Enum: enumShort, EnumDesc: enumShortDesc,
	})
}

// ---------------------------------------------------------------------------
// (3) tokeniser agreement on OP_RETURN-free scripts

func checkAgree(ctx *pbt.Ctx, c Scr) error {
	script := []byte(c.Script)
	defer relieve(len(script))
	ctx.Key(script)
	toks, ok, cut := ref.Tokenize(script)
	{
		// the parser-configuration axis does not depend on the other tokeniser: also for scripts with OP_RETURN
		zin := append([]byte(nil), script...)
		zops, zerr := (&interpreter.DefaultOpcodeParser{}).Parse(bscript.NewFromBytes(zin))
		if ferr := checkFlagged(ctx, &interpreter.DefaultOpcodeParser{ErrorOnCheckSig: true}, script, ref.ParserTokenize(script), zops, zerr); ferr != nil {
			return ferr
		}
	}
	for _, t := range toks {
		if t.Op == ref.OpReturn {
			// agreement is only claimed for OP_RETURN-free scripts
			ctx.Discard("contains OP_RETURN")
			return nil
		}
	}
	ctx.Label("how:" + c.How)
	labelToks(ctx, toks)
	if nonTrivial(toks) {
		ctx.NonTrivial()
	}
	in := append([]byte(nil), script...)
	parts, derr := bscript.DecodeParts(in)
	p := &interpreter.DefaultOpcodeParser{}
	ops, perr := p.Parse(bscript.NewFromBytes(in))
	if !bytes.Equal(in, script) {
		return fmt.Errorf("a decoder modified its input %s -> %s", short(script), short(in))
	}
	if !ok {
		ctx.Label("truncated")
		if derr == nil {
			return fmt.Errorf("DecodeParts accepted %s; the instruction at offset %d runs past the end", short(script), cut)
		}
		if perr == nil {
			return fmt.Errorf("Parse accepted %s; the instruction at offset %d runs past the end", short(script), cut)
		}
		return nil
	}
	ctx.Label("well-formed")
	if derr != nil {
		return fmt.Errorf("DecodeParts rejected the well-formed script %s: %v", short(script), derr)
	}
	if perr != nil {
		return fmt.Errorf("Parse rejected the well-formed script %s: %v", short(script), perr)
	}
	if len(parts) != len(toks) || len(ops) != len(toks) {
		return fmt.Errorf("%s: DecodeParts sees %d instructions, Parse %d, the reference reader %d", short(script), len(parts), len(ops), len(toks))
	}
	for i, t := range toks {
		want := t.Data
		if !t.IsPush {
			want = []byte{t.Op}
		}
		if !bytes.Equal(parts[i], want) {
			return fmt.Errorf("%s: DecodeParts part %d = %s; the reference reader reads %s at offset %d..%d", short(script), i, short(parts[i]), short(want), t.Start, t.End)
		}
	}
	if err := sameOps(ops, toks, script); err != nil {
		return err
	}
	// explicit boundary comparison between the two library tokenisers: the
	// instruction sizes implied by each must tile the script identically
	off := 0
	for i, t := range toks {
		dsz := 1
		if t.IsPush {
			dsz = t.End - t.Start - len(t.Data) + len(parts[i])
		}
		psz := 1
		switch l := ops[i].Length(); {
		case l > 1:
			psz = l
		case l < 0:
			psz = 1 - l + len(ops[i].Data)
		}
		if off+dsz != t.End || off+psz != t.End {
			return fmt.Errorf("%s: instruction %d starts at %d; DecodeParts ends it at %d, Parse at %d, the reference reader at %d", short(script), i, off, off+dsz, off+psz, t.End)
		}
		off = t.End
	}
	return nil
}

var noReturnOpts = gen.ScriptOpts{MaxInstr: 8, AllowReturn: false, NonMinimal: true, Big: true, OneByte: true}

func genAgreeCase(t *rapid.T) Scr {
	s := gen.Script(t, noReturnOpts)
	how := rapid.SampledFrom([]string{"well-formed", "well-formed", "well-formed", "truncated", "flip", "append"}).Draw(t, "how")
	switch how {
	case "truncated":
		s = s[:rapid.IntRange(0, len(s)-1).Draw(t, "cut")]
	case "flip":
		i := rapid.IntRange(0, min(len(s)-1, 12)).Draw(t, "i")
		s = append([]byte(nil), s...)
		b := rapid.Byte().Draw(t, "b")
		if b == 0x6a {
			b = 0x4c
		}
		s[i] = b
	case "append":
		ex := gen.Bytes(t, rapid.IntRange(1, 5).Draw(t, "n"), "extra")
		for i := range ex {
			if ex[i] == 0x6a {
				ex[i] = 0x4d
			}
		}
		s = append(append([]byte(nil), s...), ex...)
	}
	return Scr{How: how, Script: s}
}

func TestTokeniserAgreement(t *testing.T) {
	pbt.Run(t, pbt.Sub[Scr]{
		Name: "agreement", Quick: 150000, Thorough: 4000000,
		Gen: genAgreeCase, Check: checkAgree,
		Enum: enumShort, EnumDesc: enumShortDesc + " (those containing an OP_RETURN instruction are counted as discards)",
	})
}

// ---------------------------------------------------------------------------
// (4) every truncation that cuts a push is an error in every decoder

func cutPositions(script []byte, toks []ref.ScriptTok) []int {
	var cuts []int
	if len(script) <= 700 {
		for _, t := range toks {
			if !t.IsPush {
				continue
			}
			for c := t.Start + 1; c < t.End; c++ {
				cuts = append(cuts, c)
			}
		}
		return cuts
	}
	for _, t := range toks {
		if !t.IsPush {
			continue
		}
		seen := map[int]bool{}
		for _, c := range []int{t.Start + 1, t.Start + 2, t.Start + 3, t.Start + 4, t.Start + 5, t.Start + 6, (t.Start + t.End) / 2, t.End - 2, t.End - 1} {
			if c > t.Start && c < t.End && !seen[c] {
				seen[c] = true
				cuts = append(cuts, c)
			}
		}
	}
	return cuts
}

func checkTrunc(ctx *pbt.Ctx, c Scr) error {
	script := []byte(c.Script)
	ctx.Key(script)
	toks, ok, _ := ref.Tokenize(script)
	if !ok {
		return fmt.Errorf("harness: generated script %s is not well-formed", short(script))
	}
	labelToks(ctx, toks)
	if nonTrivial(toks) {
		ctx.NonTrivial()
	}
	cuts := cutPositions(script, toks)
	if len(cuts) == 0 {
		ctx.Discard("no push to cut")
		return nil
	}
	p := &interpreter.DefaultOpcodeParser{}
	nParse := 0
	parseCuts := map[int]bool{}
	for _, t := range toks {
		if t.IsPush {
			for _, c := range []int{t.Start + 1, t.Start + 2, t.Start + 3, t.Start + 5, (t.Start + t.End) / 2, t.End - 1} {
				parseCuts[c] = true
			}
		}
	}
	for _, cut := range cuts {
		pre := script[:cut:cut]
		if _, rok, _ := ref.Tokenize(pre); rok {
			return fmt.Errorf("harness: cut %d of %s does not cut a push", cut, short(script))
		}
		if _, err := bscript.DecodeParts(pre); err == nil {
			return fmt.Errorf("DecodeParts accepted %s, which is %s cut at %d inside a push", short(pre), short(script), cut)
		}
		if len(pre) <= 2048 {
			if _, err := bscript.DecodeStringParts(hex.EncodeToString(pre)); err == nil {
				return fmt.Errorf("DecodeStringParts accepted %s (cut at %d inside a push)", short(pre), cut)
			}
			asm, err := bscript.NewFromBytes(pre).ToASM()
			if err != nil {
				return fmt.Errorf("ToASM(%s) returned error %v", short(pre), err)
			}
			if !strings.HasSuffix(asm, "[error]") {
				return fmt.Errorf("ToASM(%s) = %q does not flag the truncated push with [error]", short(pre), asm)
			}
		}
		// the opcode parser stops at a top-level OP_RETURN; before one it must reject.
		// (Parse allocates 70+ bytes per script byte, so on longer scripts it is only run
		// at the cuts next to each push's boundaries and in its middle.)
		if len(script) > 64 && !parseCuts[cut] {
			continue
		}
		v := ref.ParserTokenize(pre)
		if v.Truncated && !v.Ambiguous {
			nParse++
			_, err := p.Parse(bscript.NewFromBytes(pre))
			relieve(len(pre))
			if err == nil {
				return fmt.Errorf("Parse accepted %s, which is %s cut at %d inside a push", short(pre), short(script), cut)
			}
		}
	}
	if nParse > 0 {
		ctx.Label("parser verdict claimed")
	} else {
		ctx.Label("cuts only after top-level OP_RETURN")
	}
	ctx.Labelf("cuts~%s", lenClass(len(cuts)))
	return nil
}

func TestTruncation(t *testing.T) {
	pbt.Run(t, pbt.Sub[Scr]{
		Name: "truncation", Quick: 48000, Thorough: 1200000,
		Gen: func(t *rapid.T) Scr {
			o := fullOpts
			o.MaxInstr = 6
			if rapid.IntRange(0, 2).Draw(t, "noreturn") > 0 {
				o.AllowReturn = false
			}
			s := gen.Script(t, o)
			// make sure there is a push
			if rapid.IntRange(0, 1).Draw(t, "addpush") == 0 {
				s = append(s, gen.Push(t, o)...)
			}
			return Scr{How: "well-formed", Script: s}
		},
		Check:    checkTrunc,
		EnumDesc: "single pushes of every length 1..300 in every push form wide enough (direct, PUSHDATA1/2/4), alone and behind OP_DUP, every cut position; 65535/65536-byte pushes at the cuts next to the push boundaries",
		Enum: func(tier string, yield func(Scr)) {
			for _, n := range []int{65535, 65536} {
				data := make([]byte, n)
				yield(Scr{How: "enum-64k", Script: append([]byte{0x76}, ref.PushForm(data, 0)...)})
				yield(Scr{How: "enum-64k", Script: ref.PushForm(data, 4)})
			}
			for n := 0; n <= 300; n++ {
				data := make([]byte, n)
				for i := range data {
					data[i] = byte(0x4c + i)
				}
				for _, form := range []int{-1, 1, 2, 4} {
					if form == -1 && (n < 1 || n > 75) {
						continue
					}
					if form == 1 && n > 255 {
						continue
					}
					yield(Scr{How: "enum", Script: ref.PushForm(data, form)})
					yield(Scr{How: "enum", Script: append([]byte{0x76}, ref.PushForm(data, form)...)})
				}
			}
		},
	})
}

// ---------------------------------------------------------------------------
// (5) hex and JSON identity on arbitrary bytes

func checkHexJSON(ctx *pbt.Ctx, c Scr) error {
	script := []byte(c.Script)
	ctx.Key(script)
	ctx.Label("len:" + lenClass(len(script)))
	toks, ok, _ := ref.Tokenize(script)
	if ok {
		ctx.Label("well-formed")
	} else {
		ctx.Label("truncated")
	}
	if nonTrivial(toks) {
		ctx.NonTrivial()
	}
	s := bscript.NewFromBytes(append([]byte(nil), script...))
	want := hex.EncodeToString(script)
	if got := s.String(); got != want {
		return fmt.Errorf("String() = %q, bytes are %q", got, want)
	}
	back, err := bscript.NewFromHexString(s.String())
	if err != nil || back == nil || !bytes.Equal(*back, script) {
		return fmt.Errorf("NewFromHexString(String()) = %v, %v for %s", back, err, short(script))
	}
	if !s.EqualsHex(want) || !s.EqualsBytes(script) || !s.Equals(back) {
		return fmt.Errorf("Equals/EqualsHex/EqualsBytes deny identity for %s", short(script))
	}
	jb, err := json.Marshal(s)
	if err != nil {
		return fmt.Errorf("json.Marshal(script %s): %v", short(script), err)
	}
	if string(jb) != `"`+want+`"` {
		return fmt.Errorf("json.Marshal = %s, want %q", short(jb), want)
	}
	var u bscript.Script
	jbKept := append([]byte(nil), jb...)
	if err := json.Unmarshal(jb, &u); err != nil {
		return fmt.Errorf("json.Unmarshal(%s): %v", short(jb), err)
	}
	if !bytes.Equal(u, script) {
		return fmt.Errorf("JSON round trip: %s -> %s -> %s", short(script), short(jb), short(u))
	}
	// (tenth round) the JSON text is the caller's: reading it leaves it as it was (it can be read
	// again), and what was read does not live in it (encoding/json: "UnmarshalJSON must copy the JSON
	// data if it wishes to retain the data after returning") - the caller's buffer is refilled below
	if !bytes.Equal(jb, jbKept) {
		return fmt.Errorf("json.Unmarshal into a script changed the JSON text it was given: %s became %s", short(jbKept), short(jb))
	}
	var u2 bscript.Script
	own := append([]byte(nil), jbKept...)
	if err := u2.UnmarshalJSON(own); err != nil || !bytes.Equal(u2, script) {
		return fmt.Errorf("UnmarshalJSON(%s) = %s, %v", short(jbKept), short(u2), err)
	}
	if !bytes.Equal(own, jbKept) {
		return fmt.Errorf("Script.UnmarshalJSON changed the JSON text it was given: %s became %s", short(jbKept), short(own))
	}
	for i := range own {
		own[i] = 0xee
	}
	for i := range jb {
		jb[i] = 0xdd
	}
	if !bytes.Equal(u2, script) || !bytes.Equal(u, script) {
		return fmt.Errorf("a script read from JSON changed when the caller refilled the buffer the text was in: %s became %s / %s", short(script), short(u), short(u2))
	}
	// as a struct field behind a pointer, the way Input/Output JSON carries it
	type holder struct {
		S *bscript.Script `json:"s"`
	}
	hb, err := json.Marshal(holder{S: s})
	if err != nil {
		return fmt.Errorf("json.Marshal(holder): %v", err)
	}
	var h holder
	if err := json.Unmarshal(hb, &h); err != nil || h.S == nil || !bytes.Equal(*h.S, script) {
		return fmt.Errorf("JSON round trip through a struct field: %s -> %s -> %v (%v)", short(script), short(hb), h.S, err)
	}
	if !bytes.Equal(*s, script) {
		return fmt.Errorf("rendering modified the script")
	}
	return nil
}

func TestHexJSON(t *testing.T) {
	pbt.Run(t, pbt.Sub[Scr]{
		Name: "hex-json", Quick: 60000, Thorough: 1600000,
		Gen: func(t *rapid.T) Scr {
			if rapid.IntRange(0, 1).Draw(t, "kind") == 0 {
				n := gen.EdgeLen(t, 600, "len", 0, 1, 2, 25, 75, 76, 255, 256, 520)
				return Scr{How: "random", Script: gen.Bytes(t, n, "bytes")}
			}
			return genParseCase(t)
		},
		Check:    checkHexJSON,
		EnumDesc: "the empty script, all 256 one-byte scripts and the 512 two-byte scripts xx00 / 00xx",
		Enum: func(tier string, yield func(Scr)) {
			yield(Scr{How: "enum", Script: pbt.Hex{}})
			for a := 0; a < 256; a++ {
				yield(Scr{How: "enum", Script: pbt.Hex{byte(a)}})
				yield(Scr{How: "enum", Script: pbt.Hex{byte(a), 0}})
				yield(Scr{How: "enum", Script: pbt.Hex{0, byte(a)}})
			}
		},
	})
}

// ---------------------------------------------------------------------------
// (6) ToASM -> NewFromASM on non-data scripts of non-push opcodes and minimal multi-byte pushes

// inASMClass reports whether the script is in the class the statement names.
func inASMClass(script []byte) (toks []ref.ScriptTok, why string) {
	toks, ok, _ := ref.Tokenize(script)
	if !ok {
		return nil, "truncated"
	}
	if len(script) > 0 && script[0] == 0x6a || len(script) > 1 && script[0] == 0x00 && script[1] == 0x6a {
		return nil, "data script"
	}
	for _, t := range toks {
		if !t.IsPush {
			continue
		}
		if len(t.Data) < 2 {
			return nil, "push shorter than two bytes"
		}
		if t.End-t.Start != len(ref.MinimalPushPrefix(len(t.Data)))+len(t.Data) {
			return nil, "non-minimal push"
		}
	}
	return toks, ""
}

func checkASM(ctx *pbt.Ctx, c Scr) error {
	script := []byte(c.Script)
	ctx.Key(script)
	toks, why := inASMClass(script)
	if why != "" {
		return fmt.Errorf("harness: generated script %s is outside the class (%s)", short(script), why)
	}
	labelToks(ctx, toks)
	if nonTrivial(toks) {
		ctx.NonTrivial()
	}
	s := bscript.NewFromBytes(append([]byte(nil), script...))
	asm, err := s.ToASM()
	if err != nil {
		return fmt.Errorf("ToASM(%s): %v", short(script), err)
	}
	if len(script) == 0 {
		ctx.Label("empty script")
		back, err := bscript.NewFromASM(asm)
		if err != nil || back == nil || len(*back) != 0 {
			var bb []byte
			if back != nil {
				bb = *back
			}
			return fmt.Errorf("the empty script renders as %q and NewFromASM(%q) = %s, %v (not the empty script)", asm, asm, short(bb), err)
		}
		return nil
	}
	// shape of the rendering: one blank-separated word per instruction, pushes as hex
	words := strings.Split(asm, " ")
	if len(words) != len(toks) {
		return fmt.Errorf("ToASM(%s) = %q has %d words for %d instructions", short(script), short([]byte(asm)), len(words), len(toks))
	}
	for i, t := range toks {
		if t.IsPush {
			if words[i] != hex.EncodeToString(t.Data) {
				return fmt.Errorf("ToASM(%s): word %d = %q, the push carries %s", short(script), i, words[i], short(t.Data))
			}
		} else if !strings.HasPrefix(words[i], "OP_") {
			return fmt.Errorf("ToASM(%s): word %d = %q for opcode %02x is not an opcode name", short(script), i, words[i], t.Op)
		}
	}
	back, err := bscript.NewFromASM(asm)
	if err != nil {
		return fmt.Errorf("NewFromASM(ToASM(%s) = %q): %v", short(script), short([]byte(asm)), err)
	}
	if back == nil || !bytes.Equal(*back, script) {
		var bb []byte
		if back != nil {
			bb = *back
		}
		return fmt.Errorf("NewFromASM(ToASM(s)) != s: s=%s asm=%q back=%s", short(script), short([]byte(asm)), short(bb))
	}
	return nil
}

var asmOpts = gen.ScriptOpts{MaxInstr: 8, AllowReturn: true, NonMinimal: false, Big: true, OneByte: false}

func nonPushOps() []byte {
	ops := []byte{0x00}
	for v := 0x4f; v <= 0xff; v++ {
		ops = append(ops, byte(v))
	}
	return ops
}

func TestASM(t *testing.T) {
	pbt.Run(t, pbt.Sub[Scr]{
		Name: "asm", Quick: 96000, Thorough: 2400000,
		Gen: func(t *rapid.T) Scr {
			s := gen.Script(t, asmOpts)
			// keep it a non-data script: it must not start with OP_RETURN / OP_FALSE OP_RETURN
			if s[0] == 0x6a {
				s[0] = 0x69
			}
			if len(s) > 1 && s[0] == 0x00 && s[1] == 0x6a {
				s[0] = 0x51
			}
			return Scr{How: "class", Script: s}
		},
		Check:    checkASM,
		EnumDesc: "the empty script; every non-push opcode value (00, 4f..ff: 178 values) alone (except 6a, a data script), after and before OP_DUP, after and before a 2-byte push; thorough: all 178x178 ordered pairs that are not data scripts; minimal pushes of every length 2..300 and 65535, 65536 between two opcodes",
		Enum: func(tier string, yield func(Scr)) {
			yield(Scr{How: "enum", Script: pbt.Hex{}})
			ops := nonPushOps()
			for _, op := range ops {
				if op != 0x6a {
					yield(Scr{How: "enum", Script: pbt.Hex{op}})
					yield(Scr{How: "enum", Script: pbt.Hex{op, 0x76}})
					yield(Scr{How: "enum", Script: pbt.Hex{op, 0x02, 0xab, 0xcd}})
				}
				yield(Scr{How: "enum", Script: pbt.Hex{0x76, op}})
				yield(Scr{How: "enum", Script: pbt.Hex{0x02, 0xab, 0xcd, op}})
			}
			if tier == "thorough" {
				for _, a := range ops {
					for _, b := range ops {
						if a == 0x6a || (a == 0x00 && b == 0x6a) {
							continue
						}
						yield(Scr{How: "enum", Script: pbt.Hex{a, b}})
					}
				}
			}
			lensToDo := []int{65535, 65536}
			for n := 2; n <= 300; n++ {
				lensToDo = append(lensToDo, n)
			}
			for _, n := range lensToDo {
				data := make([]byte, n)
				for i := range data {
					data[i] = byte(i*3 + n)
				}
				s := append([]byte{0x76}, ref.PushForm(data, 0)...)
				s = append(s, 0xac)
				yield(Scr{How: "enum", Script: s})
			}
		},
	})
}
