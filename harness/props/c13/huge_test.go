package c13

// Round 5: size classes far beyond 65536. One push of 2^15 .. 2^22 bytes (on, just below and
// just above every power of two, and a few bytes below 2^19 / 2^20 so that the RENDERED
// string - hex doubles, JSON adds quotes, the script adds its header and neighbours - crosses
// the power of two as well) sits alone / first / in the middle / last in an otherwise small
// script of the statement's ASM class. The case stores lengths and a salt, never the bytes.
// Every round trip of the statement is made: ToASM -> NewFromASM, String -> NewFromHexString,
// MarshalJSON -> UnmarshalJSON (bare and as a struct field), EncodeParts -> DecodeParts,
// DecodeParts / DecodeStringParts of the script, Parse -> Unparse, AppendPushData /
// AppendPushDataHexString; with Drop > 0 the last bytes are missing and every decoder must
// report the truncated push. Memory: one case holds a handful of copies of the script and
// its hex (<= ~60 MB for 4 MiB); Parse (64 B per script byte) is skipped above 2^20+64 bytes
// unless the push stands alone; a collection is forced after every case.

import (
	"bytes"
	"encoding/hex"
	"encoding/json"
	"fmt"
	"runtime"
	"strings"
	"testing"

	"github.com/libsv/go-bt/v2/bscript"
	"github.com/libsv/go-bt/v2/bscript/interpreter"
	"pgregory.net/rapid"

	"verif/harness/pbt"
	"verif/harness/ref"
)

// Huge describes the script.
type Huge struct {
	Pos  string `json:"pos"` // alone, first, middle, last
	Len  int    `json:"len"` // bytes of the big push
	Salt byte   `json:"salt"`
	Drop int    `json:"drop"` // bytes removed from the end of the script (only meaningful for alone / last)
}

func hugeData(n int, salt byte) []byte {
	b := make([]byte, n)
	for i := range b {
		b[i] = salt + byte(i*13) + byte(i>>8) + byte(i>>16)
	}
	return b
}

// build returns the script, its data items (pushes only) and the index of the big one.
func (c Huge) build() (script []byte, data []byte) {
	data = hugeData(c.Len, c.Salt)
	big := ref.PushForm(data, 0)
	small := ref.PushForm([]byte{0xca, 0xfe, c.Salt}, 0)
	switch c.Pos {
	case "first":
		script = append(append(append([]byte{}, big...), 0x87, 0x76), small...)
	case "middle":
		script = append(append(append(append([]byte{0x76, 0xa9}, small...), big...), 0x88), 0xac)
	case "last":
		script = append(append([]byte{0x76}, small...), big...)
	default:
		script = append([]byte{}, big...)
	}
	return script, data
}

func sizeClass(n int) string {
	for k := 15; k <= 22; k++ {
		p := 1 << uint(k)
		switch {
		case n == p:
			return fmt.Sprintf("2^%d", k)
		case n < p && n >= p-16:
			return fmt.Sprintf("2^%d-16..-1", k)
		case n > p && n <= p+16:
			return fmt.Sprintf("2^%d+1..+16", k)
		case n < p:
			return fmt.Sprintf("<2^%d", k)
		}
	}
	return ">2^22"
}

func checkHuge(ctx *pbt.Ctx, c Huge) error {
	if c.Len < 2 || c.Len > 1<<22+64 {
		return fmt.Errorf("harness: length %d outside 2..2^22+64", c.Len)
	}
	defer runtime.GC()
	full, data := c.build()
	ctx.Key([]byte(c.Pos), []byte(fmt.Sprint(c.Len, c.Drop)), []byte{c.Salt})
	ctx.Label("pos:" + c.Pos)
	ctx.Label("push:" + sizeClass(c.Len))
	ctx.NonTrivial()
	p := &interpreter.DefaultOpcodeParser{}
	withParse := len(full) <= 1<<20+64 || c.Pos == "alone"

	if c.Drop > 0 {
		// ---- truncated: every decoder reports it
		if c.Pos != "alone" && c.Pos != "last" {
			return fmt.Errorf("harness: drop on position %q", c.Pos)
		}
		ctx.Label("truncated")
		cut := full[:max(len(full)-c.Drop, 0)]
		if _, ok, _ := ref.Tokenize(cut); ok {
			ctx.Label("drop removed the whole push (well-formed rest)")
			return nil
		}
		if _, err := bscript.DecodeParts(cut); err == nil {
			return fmt.Errorf("DecodeParts accepted a script whose %d-byte push lacks its last %d bytes", c.Len, c.Drop)
		}
		if _, err := bscript.DecodeStringParts(hex.EncodeToString(cut)); err == nil {
			return fmt.Errorf("DecodeStringParts accepted a script whose %d-byte push lacks its last %d bytes", c.Len, c.Drop)
		}
		asm, err := bscript.NewFromBytes(cut).ToASM()
		if err != nil || !strings.HasSuffix(asm, "[error]") {
			return fmt.Errorf("ToASM of a script whose %d-byte push lacks its last %d bytes: %d characters ending %q, err %v", c.Len, c.Drop, len(asm), tail(asm), err)
		}
		if withParse {
			if _, err := p.Parse(bscript.NewFromBytes(cut)); err == nil {
				return fmt.Errorf("Parse accepted a script whose %d-byte push lacks its last %d bytes", c.Len, c.Drop)
			}
		}
		return nil
	}

	toks, why := inASMClass(full)
	if why != "" {
		return fmt.Errorf("harness: built script is outside the ASM class (%s)", why)
	}
	s := bscript.NewFromBytes(append([]byte(nil), full...))
	diff := func(what string, got []byte) error {
		i := 0
		for i < len(got) && i < len(full) && got[i] == full[i] {
			i++
		}
		return fmt.Errorf("%s of the %d-byte script (push of %d bytes, %s) returns %d bytes, first difference at offset %d", what, len(full), c.Len, c.Pos, len(got), i)
	}

	// ---- ASM
	asm, err := s.ToASM()
	if err != nil {
		return fmt.Errorf("ToASM: %v", err)
	}
	words := strings.Split(asm, " ")
	if len(words) != len(toks) {
		return fmt.Errorf("ToASM of %d instructions (push of %d bytes, %s) has %d words", len(toks), c.Len, c.Pos, len(words))
	}
	for i, t := range toks {
		if t.IsPush && words[i] != hex.EncodeToString(t.Data) {
			return fmt.Errorf("ToASM: word %d (%d characters) is not the hex of the %d-byte push", i, len(words[i]), len(t.Data))
		}
	}
	back, err := bscript.NewFromASM(asm)
	if err != nil || back == nil {
		return fmt.Errorf("NewFromASM(ToASM(s)) (section of %d characters): %v", 2*c.Len, err)
	}
	if !bytes.Equal(*back, full) {
		return diff("NewFromASM(ToASM(s))", *back)
	}
	back, asm, words = nil, "", nil

	// ---- hex
	hx := s.String()
	if hx != hex.EncodeToString(full) {
		return fmt.Errorf("String() of the %d-byte script has %d characters and is not its hex", len(full), len(hx))
	}
	fh, err := bscript.NewFromHexString(hx)
	if err != nil || fh == nil {
		return fmt.Errorf("NewFromHexString(String()) (%d characters): %v", len(hx), err)
	}
	if !bytes.Equal(*fh, full) {
		return diff("NewFromHexString(String())", *fh)
	}
	dsp, err := bscript.DecodeStringParts(hx)
	if err != nil || len(dsp) != len(toks) {
		return fmt.Errorf("DecodeStringParts (%d characters): %d parts for %d instructions, %v", len(hx), len(dsp), len(toks), err)
	}
	fh, dsp = nil, nil

	// ---- JSON
	jb, err := json.Marshal(s)
	if err != nil || len(jb) != len(hx)+2 || string(jb[1:len(jb)-1]) != hx {
		return fmt.Errorf("json.Marshal of the %d-byte script: %d bytes, %v", len(full), len(jb), err)
	}
	var u bscript.Script
	if err := json.Unmarshal(jb, &u); err != nil {
		return fmt.Errorf("json.Unmarshal (%d bytes of JSON): %v", len(jb), err)
	}
	if !bytes.Equal(u, full) {
		return diff("json.Unmarshal(json.Marshal(s))", u)
	}
	type holder struct {
		S *bscript.Script `json:"s"`
	}
	hb, err := json.Marshal(holder{S: s})
	var h holder
	if err == nil {
		err = json.Unmarshal(hb, &h)
	}
	if err != nil || h.S == nil {
		return fmt.Errorf("JSON round trip through a struct field (%d bytes of JSON): %v", len(hb), err)
	}
	if !bytes.Equal(*h.S, full) {
		return diff("the JSON round trip through a struct field", *h.S)
	}
	jb, hb, u, h.S, hx = nil, nil, nil, nil, ""

	// ---- parts
	parts, err := bscript.DecodeParts(*s)
	if err != nil || len(parts) != len(toks) {
		return fmt.Errorf("DecodeParts of the %d-byte script: %d parts for %d instructions, %v", len(full), len(parts), len(toks), err)
	}
	var items [][]byte
	for i, t := range toks {
		want := t.Data
		if !t.IsPush {
			want = []byte{t.Op}
		} else {
			items = append(items, t.Data)
		}
		if !bytes.Equal(parts[i], want) {
			return fmt.Errorf("DecodeParts: part %d has %d bytes and differs from the reference reader's %d bytes", i, len(parts[i]), len(want))
		}
	}
	enc, err := bscript.EncodeParts(copyItems(items))
	if err != nil {
		return fmt.Errorf("EncodeParts(lengths %v): %v", lens(items), err)
	}
	if want := refEncode(items); !bytes.Equal(enc, want) {
		return fmt.Errorf("EncodeParts(lengths %v) returns %d bytes, the shortest-form encoding has %d (or differs)", lens(items), len(enc), len(want))
	}
	dec, err := bscript.DecodeParts(enc)
	if err != nil {
		return fmt.Errorf("DecodeParts(EncodeParts(lengths %v)): %v", lens(items), err)
	}
	if err := sameItems("DecodeParts(EncodeParts)", dec, items); err != nil {
		return err
	}
	enc, dec, parts = nil, nil, nil
	ap := &bscript.Script{}
	if err := ap.AppendPushData(append([]byte(nil), data...)); err != nil || !bytes.Equal(*ap, ref.PushForm(data, 0)) {
		return fmt.Errorf("AppendPushData(%d bytes): %d bytes, %v", len(data), len(*ap), err)
	}
	ap = &bscript.Script{}
	if err := ap.AppendPushDataHexString(hex.EncodeToString(data)); err != nil || !bytes.Equal(*ap, ref.PushForm(data, 0)) {
		return fmt.Errorf("AppendPushDataHexString(%d characters): %d bytes, %v", 2*len(data), len(*ap), err)
	}
	ap = nil
	if mp := bscript.MinPushSize(data); mp != len(ref.MinimalPushPrefix(len(data)))+len(data) {
		return fmt.Errorf("MinPushSize(%d bytes) = %d", len(data), mp)
	}

	// ---- opcode parser
	if !withParse {
		ctx.Label("Parse skipped (memory)")
		return nil
	}
	ops, err := p.Parse(s)
	if err != nil {
		return fmt.Errorf("Parse of the %d-byte script: %v", len(full), err)
	}
	if len(ops) != len(toks) {
		return fmt.Errorf("Parse: %d instructions, the reference reader %d", len(ops), len(toks))
	}
	if err := sameOps(ops, toks, full[:min(len(full), 16)]); err != nil {
		return err
	}
	ub, err := p.Unparse(ops)
	if err != nil || ub == nil {
		return fmt.Errorf("Unparse(Parse(s)): %v", err)
	}
	if !bytes.Equal(*ub, full) {
		return diff("Unparse(Parse(s))", *ub)
	}
	if !bytes.Equal(*s, full) {
		return fmt.Errorf("a codec call modified the script")
	}
	return nil
}

func tail(s string) string {
	if len(s) > 24 {
		return s[len(s)-24:]
	}
	return s
}

// hugeLens: powers of two 2^15..2^22 with their neighbours, and the lengths a few bytes below
// 2^19 / 2^20 at which the whole hex / JSON string (header, neighbours, quotes included)
// reaches 2^20 / 2^21 characters.
func hugeLens(tier string) []int {
	var out []int
	for k := 15; k <= 20; k++ {
		p := 1 << uint(k)
		out = append(out, p-1, p, p+1)
	}
	for _, p := range []int{1 << 19, 1 << 20} {
		for _, d := range []int{2, 3, 4, 5, 6, 8, 9, 10, 12} {
			out = append(out, p-d)
		}
	}
	out = append(out, 1<<21-1, 1<<21, 1<<21+1, 1<<22-6, 1<<22, 1<<22+1, 3<<19, 5<<18)
	return out
}

func TestHuge(t *testing.T) {
	pbt.Run(t, pbt.Sub[Huge]{
		Name: "huge", Quick: 360, Thorough: 3000,
		Gen: func(t *rapid.T) Huge {
			k := rapid.IntRange(15, 22).Draw(t, "log2")
			if k > 20 && rapid.IntRange(0, 3).Draw(t, "keep_big") != 0 {
				k -= 3
			}
			n := 1<<uint(k) + rapid.IntRange(-16, 16).Draw(t, "delta")
			if rapid.IntRange(0, 3).Draw(t, "between") == 0 && k < 22 {
				n = rapid.IntRange(1<<uint(k), 2<<uint(k)).Draw(t, "len")
			}
			c := Huge{Pos: rapid.SampledFrom([]string{"alone", "first", "middle", "last"}).Draw(t, "pos"), Len: n, Salt: rapid.Byte().Draw(t, "salt")}
			if (c.Pos == "alone" || c.Pos == "last") && rapid.IntRange(0, 4).Draw(t, "cut") == 0 {
				c.Drop = rapid.SampledFrom([]int{1, 2, 3, 5, 1 << 15, n - 1, n, n + 1, n + 2, n + 4}).Draw(t, "drop")
			}
			return c
		},
		Check:    checkHuge,
		EnumDesc: "one push of 2^k-1, 2^k, 2^k+1 bytes for k = 15..21, 2^19-d and 2^20-d for d in {2,3,4,5,6,8,9,10,12}, 2^22-6, 2^22, 2^22+1, 3*2^19, 5*2^18 x {alone, first, middle, last} (above 2^21+1: alone and middle only); the lengths 2^17, 2^19, 2^20, 2^22 alone / last also with 1 byte, 5 bytes, and all data bytes but the header missing",
		Enum: func(tier string, yield func(Huge)) {
			i := 0
			for _, n := range hugeLens(tier) {
				for _, pos := range []string{"alone", "first", "middle", "last"} {
					if n > 1<<21+1 && pos != "alone" && pos != "middle" {
						continue
					}
					yield(Huge{Pos: pos, Len: n, Salt: byte(i * 29)})
					i++
				}
			}
			for _, n := range []int{1 << 17, 1 << 19, 1 << 20, 1 << 22} {
				for _, pos := range []string{"alone", "last"} {
					for _, d := range []int{1, 5, n} {
						yield(Huge{Pos: pos, Len: n, Salt: byte(n >> 12), Drop: d})
					}
				}
			}
		},
	})
}
