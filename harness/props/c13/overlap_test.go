package c13

// Round 9: memory layout of the arguments as an axis of the `parts` round trip.
//
// Every other sub-check hands the encoders private, freshly allocated items and a receiver
// of its own. Here ONE arena holds everything: the receiver script is a window of it
// (arena[Start:Start+Len], with 0 .. all of the following bytes as spare capacity, optionally
// obtained through Script.Slice), and the data items are windows too - of the arena, of the
// receiver's own backing array (its content or its spare capacity, e.g. right behind its
// last byte), following each other without a gap, overlapping each other, or the very same
// slice passed twice. All push encoders bscript exports are entry points: AppendPushDataArray,
// AppendPushData, AppendPushDataHexString, AppendPushDataString, AppendPushDataStrings,
// AppendOpcodes (its variadic argument is a byte slice as well), EncodeParts, PushDataPrefix.
//
// Oracle (values only): the items are snapshotted right before each library call; the call must
// succeed and the resulting script must be <receiver's earlier content> ++ <shortest-form
// encoding of the snapshots> (ref.MinimalPushPrefix), and DecodeParts of the appended bytes
// must return the snapshots. Append semantics allow the callee to write into the receiver's
// spare capacity, so whatever the caller's arena holds there after the call is NOT judged;
// every byte outside that window (the bytes below the receiver's old length, the rest of the
// arena, and for EncodeParts / PushDataPrefix the whole arena) is an input and must come out
// unchanged. EncodeParts / PushDataPrefix results are compared once more after the arena was
// overwritten at the end of the case.

import (
	"bytes"
	"encoding/hex"
	"fmt"
	"testing"
	"unsafe"

	"github.com/libsv/go-bt/v2/bscript"
	"pgregory.net/rapid"

	"verif/harness/gen"
	"verif/harness/pbt"
)

// Win is one argument given as a window of memory.
type Win struct {
	// Src: "arena" (arena[Off:Off+Len]), "script" (window of the receiver's backing array,
	// counted from the receiver's first byte, content and spare capacity alike), "spare"
	// (starts Off bytes behind the receiver's last byte, inside its capacity), "next" (starts
	// Off bytes behind the end of the previous argument), "same" (the previous argument
	// again, the identical slice), "own" (a private allocation of Len pattern bytes).
	// A window that does not fit is clipped; a region without room falls back to "own".
	Src string `json:"src"`
	Off int    `json:"off"`
	Len int    `json:"len"`
}

// OCall is one entry point applied to its arguments (entry points that take a single item are
// called once per argument, each argument resolved and snapshotted right before its call).
type OCall struct {
	Entry string `json:"entry"` // array, data, hex, string, strings, opcodes, encode, prefix
	Args  []Win  `json:"args"`
}

// Overlap is an arena, a receiver inside it and 1..3 calls.
type Overlap struct {
	N        int     `json:"n"` // arena size
	Pat      pbt.Hex `json:"pat"`
	High     bool    `json:"high,omitempty"` // every arena byte has bit 7 set (all bytes are non-push opcodes)
	Start    int     `json:"start"`
	Len      int     `json:"len"`
	Spare    int     `json:"spare"`               // spare capacity of the receiver (-1: everything up to the end of the arena)
	ViaSlice bool    `json:"via_slice,omitempty"` // receiver obtained as NewFromBytes(arena[:end of capacity]).Slice(Start, Start+Len)
	Calls    []OCall `json:"calls"`
}

type ovState struct {
	ctx   *pbt.Ctx
	c     Overlap
	arena []byte
	s     *bscript.Script
	loc   int // arena index of the receiver's first byte, -1 once the script lives elsewhere
	// previous argument (for "next" / "same")
	prev       []byte
	prevRegion []byte
	prevEnd    int
	// fresh results kept until the end of the case
	kept []keptEnc
	toks int
	big  bool
}

type keptEnc struct {
	what string
	got  []byte
	want []byte
}

func (c Overlap) fill(n int, salt byte) []byte {
	out := make([]byte, n)
	for i := range out {
		if len(c.Pat) > 0 {
			out[i] = c.Pat[i%len(c.Pat)] + byte(i/len(c.Pat))
		}
		out[i] += salt
		if c.High {
			out[i] |= 0x80
		}
	}
	return out
}

// backing is the receiver's whole backing array from its first byte on.
func (st *ovState) backing() []byte { return []byte(*st.s)[:cap(*st.s)] }

func (st *ovState) resolve(w Win, idx int) []byte {
	if w.Len < 1 {
		w.Len = 1
	}
	var region []byte
	off := w.Off
	if off < 0 {
		off = 0
	}
	switch w.Src {
	case "arena":
		region = st.arena
	case "script":
		region = st.backing()
	case "spare":
		region = st.backing()
		off += len(*st.s)
	case "next":
		if st.prevRegion != nil {
			region = st.prevRegion
			off += st.prevEnd
		} else {
			region = st.backing()
			off += len(*st.s)
		}
	case "same":
		if st.prev != nil {
			st.ctx.Label("arg:same-slice-twice")
			return st.prev
		}
		region = st.backing()
		off += len(*st.s)
	}
	if w.Src == "arena" || w.Src == "script" {
		if len(region) > 0 {
			off %= len(region)
		}
	}
	if region == nil || off >= len(region) {
		// no room (or "own"): a private allocation
		st.ctx.Label("arg:own")
		it := st.c.fill(w.Len, byte(0x31+idx))
		st.prev, st.prevRegion, st.prevEnd = it, nil, 0
		return it
	}
	end := off + w.Len
	if end > len(region) {
		end = len(region)
	}
	it := region[off:end]
	st.prev, st.prevRegion, st.prevEnd = it, region, end
	return it
}

// overlaps reports whether two slices share memory.
func overlaps(a, b []byte) bool {
	if len(a) == 0 || len(b) == 0 {
		return false
	}
	a0 := uintptr(unsafe.Pointer(unsafe.SliceData(a)))
	b0 := uintptr(unsafe.Pointer(unsafe.SliceData(b)))
	return a0 < b0+uintptr(len(b)) && b0 < a0+uintptr(len(a))
}

func (st *ovState) labelArgs(items [][]byte) {
	content := []byte(*st.s)
	spare := st.backing()[len(content):]
	for i, it := range items {
		if overlaps(it, spare) {
			st.ctx.Label("arg:in-receiver-spare")
			if len(spare) > 0 && unsafe.SliceData(it) == unsafe.SliceData(spare) {
				st.ctx.Label("arg:starts-at-receiver-end")
			}
		}
		if overlaps(it, content) {
			st.ctx.Label("arg:in-receiver-content")
		}
		for j := 0; j < i; j++ {
			if overlaps(it, items[j]) {
				st.ctx.Label("arg:overlaps-other-arg")
			}
		}
		st.ctx.Label("item:" + lenClass(len(it)))
		if len(it) >= 76 {
			st.big = true
		}
	}
}

// guard snapshots everything the call may not change and returns the comparison to make after it.
func (st *ovState) guard(what string, mayAppend bool) func() error {
	arenaBefore := append([]byte(nil), st.arena...)
	back := st.backing()
	oldLen := len(*st.s)
	backBefore := append([]byte(nil), back...)
	loc := st.loc
	return func() error {
		// bytes below the receiver's old length are never written
		if !bytes.Equal(back[:oldLen], backBefore[:oldLen]) {
			return fmt.Errorf("%s changed the receiver's earlier content in place: %s became %s", what, short(backBefore[:oldLen]), short(back[:oldLen]))
		}
		if !mayAppend && !bytes.Equal(back, backBefore) {
			return fmt.Errorf("%s wrote into the script's backing array although it has no receiver", what)
		}
		lo, hi := 0, 0 // arena window the call may write: the receiver's spare capacity
		if mayAppend && loc >= 0 {
			lo, hi = loc+oldLen, loc+len(back)
		}
		if bytes.Equal(st.arena[:lo], arenaBefore[:lo]) && bytes.Equal(st.arena[hi:], arenaBefore[hi:]) {
			return nil
		}
		for i := range st.arena {
			if (i < lo || i >= hi) && st.arena[i] != arenaBefore[i] {
				return fmt.Errorf("%s changed byte %d of the caller's arena (%02x -> %02x), which lies outside the receiver's spare capacity [%d,%d): arguments are inputs", what, i, arenaBefore[i], st.arena[i], lo, hi)
			}
		}
		return nil
	}
}

// afterAppend compares the script with the reference and follows the receiver's location.
func (st *ovState) afterAppend(what string, before []byte, backBefore []byte, snaps [][]byte, raw bool) error {
	want := append([]byte(nil), before...)
	if raw {
		for _, it := range snaps {
			want = append(want, it...)
		}
	} else {
		want = append(want, refEncode(snaps)...)
	}
	got := []byte(*st.s)
	if !bytes.Equal(got, want) {
		return fmt.Errorf("%s: the script is %s; earlier content ++ shortest-form encoding of the items as they were when the call was made (lengths %v) is %s", what, short(got), lens(snaps), short(want))
	}
	if !raw {
		parts, err := bscript.DecodeParts(got[len(before):])
		if err != nil {
			return fmt.Errorf("%s: DecodeParts of the appended pushes failed: %v", what, err)
		}
		if err := sameItems(what+" -> DecodeParts", parts, snaps); err != nil {
			return err
		}
	}
	// where does the script live now?
	if len(backBefore) == 0 || cap(*st.s) == 0 || unsafe.SliceData(st.backing()) != unsafe.SliceData(backBefore) {
		if st.loc >= 0 {
			st.ctx.Label("recv:moved-out-of-arena")
		}
		st.loc = -1
	} else if st.loc >= 0 {
		st.ctx.Label("recv:grew-in-place")
	}
	return nil
}

func snapshot(items [][]byte) [][]byte { return copyItems(items) }

func hasPushOpcode(b []byte) bool {
	for _, x := range b {
		if x >= 0x01 && x <= 0x4e {
			return true
		}
	}
	return false
}

func checkOverlap(ctx *pbt.Ctx, c Overlap) error {
	if c.N < 0 || c.N > 200000 || c.Start < 0 || c.Len < 0 || c.Start+c.Len > c.N {
		return fmt.Errorf("harness: receiver [%d,%d) outside the arena of %d bytes", c.Start, c.Start+c.Len, c.N)
	}
	ctx.Key([]byte(fmt.Sprintf("%+v", c)))
	st := &ovState{ctx: ctx, c: c, loc: c.Start}
	st.arena = c.fill(c.N, 0)
	capEnd := c.N
	if c.Spare >= 0 && c.Start+c.Len+c.Spare < c.N {
		capEnd = c.Start + c.Len + c.Spare
	}
	if c.ViaSlice {
		st.s = bscript.NewFromBytes(st.arena[:capEnd:capEnd]).Slice(uint64(c.Start), uint64(c.Start+c.Len))
		ctx.Label("recv:via-Slice")
	} else {
		s := bscript.Script(st.arena[c.Start : c.Start+c.Len : capEnd])
		st.s = &s
	}
	switch sp := cap(*st.s) - len(*st.s); {
	case sp == 0:
		ctx.Label("recv:spare=0")
	case sp < 8:
		ctx.Label("recv:spare=1..7")
	default:
		ctx.Label("recv:spare>=8")
	}
	total := 0
	for ci, call := range c.Calls {
		ctx.Label("entry=" + call.Entry)
		st.prev, st.prevRegion = nil, nil
		group := call.Entry == "array" || call.Entry == "strings" || call.Entry == "encode"
		var batches [][]Win
		if group {
			batches = [][]Win{call.Args}
		} else {
			for _, a := range call.Args {
				batches = append(batches, []Win{a})
			}
		}
		for bi, batch := range batches {
			what := fmt.Sprintf("call %d.%d (%s)", ci, bi, call.Entry)
			items := make([][]byte, len(batch))
			for i, w := range batch {
				items[i] = st.resolve(w, i)
				total += len(items[i])
			}
			st.labelArgs(items)
			snaps := snapshot(items)
			before := append([]byte(nil), *st.s...)
			backBefore := st.backing()
			mayAppend := call.Entry != "encode" && call.Entry != "prefix"
			verify := st.guard(what, mayAppend)
			st.toks += len(items)
			var err error
			switch call.Entry {
			case "array":
				err = st.s.AppendPushDataArray(items)
			case "data":
				err = st.s.AppendPushData(items[0])
			case "hex":
				err = st.s.AppendPushDataHexString(hex.EncodeToString(items[0]))
			case "string":
				err = st.s.AppendPushDataString(string(items[0]))
			case "strings":
				ss := make([]string, len(items))
				for i, it := range items {
					ss[i] = string(it)
				}
				err = st.s.AppendPushDataStrings(ss)
			case "opcodes":
				err = st.s.AppendOpcodes(items[0]...)
				if hasPushOpcode(snaps[0]) {
					// documented as unsupported; nothing is claimed about it beyond the inputs staying intact
					ctx.Label("opcodes:with-push-opcode")
					if err != nil {
						if e := verify(); e != nil {
							return e
						}
						if !bytes.Equal(*st.s, before) {
							// the library reported an error; keep the model in step with whatever it left
							ctx.Label("opcodes:error-and-script-changed")
						}
						continue
					}
				}
			case "encode":
				var enc []byte
				enc, err = bscript.EncodeParts(items)
				if err == nil {
					want := refEncode(snaps)
					if !bytes.Equal(enc, want) {
						return fmt.Errorf("%s: EncodeParts of items sharing memory (lengths %v) = %s, shortest-form encoding of their values is %s", what, lens(snaps), short(enc), short(want))
					}
					st.kept = append(st.kept, keptEnc{what, enc, want})
				}
			case "prefix":
				var pre []byte
				pre, err = bscript.PushDataPrefix(items[0])
				if err == nil {
					want := refEncode(snaps)[:len(refEncode(snaps))-len(snaps[0])]
					if !bytes.Equal(pre, want) {
						return fmt.Errorf("%s: PushDataPrefix(%d bytes) = %x, want %x", what, len(snaps[0]), pre, want)
					}
					st.kept = append(st.kept, keptEnc{what, pre, want})
				}
			default:
				return fmt.Errorf("harness: unknown entry %q", call.Entry)
			}
			if err != nil {
				return fmt.Errorf("%s failed on items of lengths %v: %v", what, lens(snaps), err)
			}
			if e := verify(); e != nil {
				return e
			}
			if mayAppend {
				if e := st.afterAppend(what, before, backBefore, snaps, call.Entry == "opcodes"); e != nil {
					return e
				}
			} else if !bytes.Equal(*st.s, before) {
				return fmt.Errorf("%s changed the script it was not given", what)
			}
		}
	}
	// fresh results do not live in the caller's memory
	final := append([]byte(nil), *st.s...)
	if len(st.kept) > 0 {
		for i := range st.arena {
			st.arena[i] = ^st.arena[i]
		}
		for _, k := range st.kept {
			if !bytes.Equal(k.got, k.want) {
				return fmt.Errorf("%s: the result changed when the caller overwrote the arena the items lived in (now %s, was %s)", k.what, short(k.got), short(k.want))
			}
		}
		if st.loc < 0 && !bytes.Equal(*st.s, final) {
			return fmt.Errorf("the script had moved out of the arena, yet overwriting the arena changed it")
		}
	}
	if st.toks >= 3 || st.big {
		ctx.NonTrivial()
	}
	relieve(total)
	return nil
}

var overlapEntries = []string{"array", "array", "array", "data", "data", "hex", "string", "strings", "opcodes", "encode", "encode", "prefix"}

func genWin(t *rapid.T, first bool, big *int) Win {
	srcs := []string{"spare", "spare", "next", "next", "same", "script", "arena", "own"}
	if first {
		srcs = []string{"spare", "spare", "spare", "script", "arena", "own"}
	}
	w := Win{Src: rapid.SampledFrom(srcs).Draw(t, "src")}
	switch w.Src {
	case "spare", "next":
		w.Off = rapid.SampledFrom([]int{0, 0, 0, 1, 2, 3, 5, 80, 300}).Draw(t, "gap")
	case "script", "arena":
		w.Off = rapid.IntRange(0, 1400).Draw(t, "off")
	}
	it := genItem(t, *big < 1)
	if it.Len > 60000 {
		*big++
	}
	w.Len = it.Len
	return w
}

func genOverlap(t *rapid.T) Overlap {
	c := Overlap{Pat: gen.Bytes(t, rapid.IntRange(1, 12).Draw(t, "patlen"), "pat"), High: rapid.IntRange(0, 3).Draw(t, "high") == 0}
	big := 0
	ncalls := rapid.IntRange(1, 3).Draw(t, "ncalls")
	need := 0
	for i := 0; i < ncalls; i++ {
		call := OCall{Entry: rapid.SampledFrom(overlapEntries).Draw(t, "entry")}
		n := rapid.IntRange(1, 4).Draw(t, "nargs")
		for k := 0; k < n; k++ {
			w := genWin(t, k == 0, &big)
			if call.Entry == "opcodes" && w.Len > 400 {
				w.Len = 400
			}
			need += w.Len + w.Off%400 + 5
			call.Args = append(call.Args, w)
		}
		c.Calls = append(c.Calls, call)
	}
	for _, call := range c.Calls {
		if call.Entry == "opcodes" && rapid.IntRange(0, 5).Draw(t, "opcodes_high") != 0 {
			c.High = true // AppendOpcodes refuses the push opcodes 01..4e
		}
	}
	c.Len = rapid.SampledFrom([]int{0, 0, 1, 2, 2, 25, 40, 75, 300}).Draw(t, "recv_len")
	c.Start = rapid.SampledFrom([]int{0, 0, 0, 1, 7, 64}).Draw(t, "recv_start")
	// arena: room for everything twice (no re-allocation), for about half, or for hardly anything
	switch rapid.IntRange(0, 5).Draw(t, "room") {
	case 0:
		c.N = c.Start + c.Len + rapid.IntRange(0, 12).Draw(t, "tight")
	case 1:
		c.N = c.Start + c.Len + need/2
	default:
		c.N = c.Start + c.Len + 2*need + 16
	}
	switch rapid.IntRange(0, 5).Draw(t, "spare_kind") {
	case 0:
		c.Spare = 0
	case 1:
		c.Spare = rapid.IntRange(1, 80).Draw(t, "spare")
	default:
		c.Spare = -1
	}
	c.ViaSlice = rapid.IntRange(0, 3).Draw(t, "via_slice") == 0
	return c
}

func enumOverlap(tier string, yield func(Overlap)) {
	b5 := []int{1, 75, 76, 255, 256}
	for _, entry := range []string{"array", "data", "hex", "string", "strings", "opcodes", "encode", "prefix"} {
		for _, k := range []int{0, 2, 40} {
			for _, gap := range []int{0, 1, 2, 5} {
				for _, l1 := range b5 {
					for _, l2 := range append([]int{0}, b5...) {
						for _, src2 := range []string{"next", "same", "script"} {
							if l2 == 0 && src2 != "next" {
								continue
							}
							args := []Win{{Src: "spare", Off: gap, Len: l1}}
							if l2 > 0 {
								args = append(args, Win{Src: src2, Off: 0, Len: l2})
							}
							c := Overlap{N: k + 2*(l1+l2) + 64, Pat: pbt.Hex{0xa1, 0x17}, High: entry == "opcodes", Len: k, Spare: -1, Calls: []OCall{{Entry: entry, Args: args}}}
							yield(c)
							// a second call that pushes again what the first one left behind the script
							c.Calls = append(c.Calls, OCall{Entry: entry, Args: []Win{{Src: "script", Off: k, Len: l1}, {Src: "spare", Off: 0, Len: 3}}})
							c.ViaSlice = true
							yield(c)
						}
					}
				}
			}
		}
	}
}

func TestOverlap(t *testing.T) {
	pbt.Run(t, pbt.Sub[Overlap]{
		Name: "overlap", Quick: 72000, Thorough: 1800000,
		Gen:      genOverlap,
		Check:    checkOverlap,
		EnumDesc: "every entry point x receiver of 0/2/40 bytes at the start of an arena x first item 0/1/2/5 bytes behind the receiver's end x lengths {1,75,76,255,256} x second item (none, adjacent, the same slice again, a window of the script) of the same lengths; each once alone and once followed by a second call that re-pushes the bytes the first call wrote, the receiver obtained through Script.Slice",
		Enum:     enumOverlap,
	})
}
