package c13

// Round 4: retained results. A sequence of codec calls on DIFFERENT inputs, one
// DefaultOpcodeParser serving all of them; everything the calls handed out is kept and
// compared with the reference only AFTER THE LAST CALL. Then (optionally) every byte
// slice some calls returned is overwritten by the caller, and (a) the results of the other
// calls must still be the reference values, (b) every call repeated on fresh copies of the
// same inputs must again give the reference values.
//
// The library only ever sees private copies of the inputs; the pristine inputs stay with
// the check. Results that alias the private input copy (DecodeParts parts, Parse Data)
// are therefore only affected by what the check itself writes, never by another step.

import (
	"bytes"
	"encoding/hex"
	"fmt"
	"strings"
	"testing"

	"github.com/libsv/go-bt/v2/bscript"
	"github.com/libsv/go-bt/v2/bscript/interpreter"
	"pgregory.net/rapid"

	"verif/harness/gen"
	"verif/harness/pbt"
	"verif/harness/ref"
)

// RStep is one codec call.
type RStep struct {
	// Op: encode (EncodeParts), prefix (PushDataPrefix per item), append (Append* on a script
	// holding Script, Variant picks the entry point), decode (DecodeParts), decode-hex
	// (DecodeStringParts), parse (Parse + Unparse), asm (ToASM + NewFromASM), hex
	// (String + NewFromHexString), json (MarshalJSON + UnmarshalJSON).
	Op      string  `json:"op"`
	Variant int     `json:"variant,omitempty"`
	Items   []Item  `json:"items,omitempty"`
	Script  pbt.Hex `json:"script,omitempty"`
}

// Retained is a sequence of calls; bit i of Scribble says that the caller overwrites
// everything step i returned once all results have been compared.
type Retained struct {
	Steps    []RStep `json:"steps"`
	Scribble uint    `json:"scribble"`
}

type rres struct {
	st     RStep
	items  [][]byte // pristine
	script []byte   // pristine

	enc      []byte
	prefixes [][]byte
	appended *bscript.Script
	parts    [][]byte
	partsErr error
	ops      interpreter.ParsedScript
	opsErr   error
	back     *bscript.Script
	asm      string
	fromASM  *bscript.Script
	hexStr   string
	fromHex  *bscript.Script
	js       []byte
	unm      bscript.Script
	unmOK    bool
}

func copyItems(items [][]byte) [][]byte {
	out := make([][]byte, len(items))
	for i, it := range items {
		out[i] = append([]byte(nil), it...)
	}
	return out
}

func refEncode(items [][]byte) []byte {
	var want []byte
	for _, it := range items {
		want = append(want, ref.MinimalPushPrefix(len(it))...)
		want = append(want, it...)
	}
	return want
}

// runStep performs the call on private copies and keeps what it returned. Errors that the
// reference decides on are kept for verifyStep; anything else unexpected is returned now.
func runStep(p *interpreter.DefaultOpcodeParser, st RStep) (*rres, error) {
	r := &rres{st: st, script: append([]byte(nil), st.Script...)}
	for _, it := range st.Items {
		if it.Len < 1 {
			return nil, fmt.Errorf("harness: empty item generated (outside the domain)")
		}
		r.items = append(r.items, it.bytes())
	}
	in := append(make([]byte, 0, len(r.script)+st.Variant%3*40), r.script...)
	var err error
	switch st.Op {
	case "encode":
		if r.enc, err = bscript.EncodeParts(copyItems(r.items)); err != nil {
			return nil, fmt.Errorf("EncodeParts(lengths %v): %v", lens(r.items), err)
		}
	case "prefix":
		for _, it := range copyItems(r.items) {
			pre, err := bscript.PushDataPrefix(it)
			if err != nil {
				return nil, fmt.Errorf("PushDataPrefix(%d bytes): %v", len(it), err)
			}
			r.prefixes = append(r.prefixes, pre)
		}
	case "append":
		s := bscript.NewFromBytes(in)
		its := copyItems(r.items)
		switch st.Variant % 5 {
		case 0:
			err = s.AppendPushDataArray(its)
		case 1:
			for _, it := range its {
				if err == nil {
					err = s.AppendPushData(it)
				}
			}
		case 2:
			for _, it := range its {
				if err == nil {
					err = s.AppendPushDataHexString(hex.EncodeToString(it))
				}
			}
		case 3:
			ss := make([]string, len(its))
			for i, it := range its {
				ss[i] = string(it)
			}
			err = s.AppendPushDataStrings(ss)
		default:
			for _, it := range its {
				if err == nil {
					err = s.AppendPushDataString(string(it))
				}
			}
		}
		if err != nil {
			return nil, fmt.Errorf("append variant %d (lengths %v): %v", st.Variant%5, lens(r.items), err)
		}
		r.appended = s
	case "decode":
		r.parts, r.partsErr = bscript.DecodeParts(in)
	case "decode-hex":
		r.parts, r.partsErr = bscript.DecodeStringParts(hex.EncodeToString(in))
	case "parse":
		r.ops, r.opsErr = p.Parse(bscript.NewFromBytes(in))
		if r.opsErr == nil {
			if r.back, err = p.Unparse(r.ops); err != nil || r.back == nil {
				return nil, fmt.Errorf("Unparse(Parse(%s)) failed: %v", short(r.script), err)
			}
		}
	case "asm":
		s := bscript.NewFromBytes(in)
		if r.asm, err = s.ToASM(); err != nil {
			return nil, fmt.Errorf("ToASM(%s): %v", short(r.script), err)
		}
		if _, why := inASMClass(r.script); why == "" {
			if r.fromASM, err = bscript.NewFromASM(r.asm); err != nil || r.fromASM == nil {
				return nil, fmt.Errorf("NewFromASM(ToASM(%s)): %v", short(r.script), err)
			}
		}
	case "hex":
		r.hexStr = bscript.NewFromBytes(in).String()
		if r.fromHex, err = bscript.NewFromHexString(r.hexStr); err != nil || r.fromHex == nil {
			return nil, fmt.Errorf("NewFromHexString(String(%s)): %v", short(r.script), err)
		}
	case "json":
		if r.js, err = bscript.NewFromBytes(in).MarshalJSON(); err != nil {
			return nil, fmt.Errorf("MarshalJSON(%s): %v", short(r.script), err)
		}
		if err = r.unm.UnmarshalJSON(append([]byte(nil), r.js...)); err != nil {
			return nil, fmt.Errorf("UnmarshalJSON(MarshalJSON(%s)): %v", short(r.script), err)
		}
		r.unmOK = true
	default:
		return nil, fmt.Errorf("harness: unknown op %q", st.Op)
	}
	return r, nil
}

// verifyStep compares what the step returned with the reference (computed from the
// pristine inputs). when says at which moment the comparison is made.
func verifyStep(i int, r *rres, when string) error {
	fail := func(f string, a ...any) error {
		return fmt.Errorf("step %d (%s) %s: %s", i, r.st.Op, when, fmt.Sprintf(f, a...))
	}
	switch r.st.Op {
	case "encode":
		if want := refEncode(r.items); !bytes.Equal(r.enc, want) {
			return fail("EncodeParts(lengths %v) result is %s, shortest-form encoding is %s", lens(r.items), short(r.enc), short(want))
		}
	case "prefix":
		for k, it := range r.items {
			if want := ref.MinimalPushPrefix(len(it)); !bytes.Equal(r.prefixes[k], want) {
				return fail("PushDataPrefix(%d bytes) result is %x, shortest prefix is %x", len(it), r.prefixes[k], want)
			}
		}
	case "append":
		want := append(append([]byte(nil), r.script...), refEncode(r.items)...)
		if !bytes.Equal(*r.appended, want) {
			return fail("script %s after appending items of lengths %v (variant %d) is %s, want %s", short(r.script), lens(r.items), r.st.Variant%5, short(*r.appended), short(want))
		}
	case "decode", "decode-hex":
		toks, ok, cut := ref.Tokenize(r.script)
		if !ok {
			if r.partsErr == nil {
				return fail("%s accepted; the instruction at offset %d runs past the end", short(r.script), cut)
			}
			return nil
		}
		if r.partsErr != nil {
			return fail("well-formed script %s rejected: %v", short(r.script), r.partsErr)
		}
		if len(r.parts) != len(toks) {
			return fail("%s decodes into %d parts, the reference reader sees %d instructions", short(r.script), len(r.parts), len(toks))
		}
		for k, t := range toks {
			want := t.Data
			if !t.IsPush {
				want = []byte{t.Op}
			}
			if !bytes.Equal(r.parts[k], want) {
				return fail("%s: part %d is %s; the reference reader reads %s at offset %d", short(r.script), k, short(r.parts[k]), short(want), t.Start)
			}
		}
	case "parse":
		v := ref.ParserTokenize(r.script)
		if !v.Ambiguous {
			if v.Truncated && r.opsErr == nil {
				return fail("Parse accepted %s although a push before any top-level OP_RETURN is truncated", short(r.script))
			}
			if !v.Truncated && r.opsErr != nil {
				return fail("Parse rejected the well-formed script %s: %v", short(r.script), r.opsErr)
			}
		}
		if r.opsErr != nil {
			return nil
		}
		if !bytes.Equal(*r.back, r.script) {
			return fail("Unparse(Parse(s)) result is %s, s = %s", short(*r.back), short(r.script))
		}
		if !v.Ambiguous {
			if len(r.ops) < len(v.Toks) || (v.ReturnAt < 0 && len(r.ops) != len(v.Toks)) {
				return fail("Parse(%s) holds %d instructions, the reference reader %d", short(r.script), len(r.ops), len(v.Toks))
			}
			if err := sameOps(r.ops[:len(v.Toks)], v.Toks, r.script); err != nil {
				return fail("%v", err)
			}
		}
	case "asm":
		_, ok, _ := ref.Tokenize(r.script)
		if len(r.script) > 0 && strings.HasSuffix(r.asm, "[error]") != !ok {
			return fail("ToASM(%s) = %q; well-formed = %v", short(r.script), short([]byte(r.asm)), ok)
		}
		if toks, why := inASMClass(r.script); why == "" {
			if !bytes.Equal(*r.fromASM, r.script) {
				return fail("NewFromASM(ToASM(s)) result is %s, s = %s", short(*r.fromASM), short(r.script))
			}
			if len(r.script) > 0 {
				words := strings.Split(r.asm, " ")
				if len(words) != len(toks) {
					return fail("ToASM(%s) has %d words for %d instructions", short(r.script), len(words), len(toks))
				}
				for k, t := range toks {
					if t.IsPush && words[k] != hex.EncodeToString(t.Data) {
						return fail("ToASM(%s): word %d = %q, the push carries %s", short(r.script), k, words[k], short(t.Data))
					}
				}
			}
		}
	case "hex":
		if r.hexStr != hex.EncodeToString(r.script) {
			return fail("String() = %q for %s", r.hexStr, short(r.script))
		}
		if !bytes.Equal(*r.fromHex, r.script) {
			return fail("NewFromHexString(String(s)) result is %s, s = %s", short(*r.fromHex), short(r.script))
		}
	case "json":
		if string(r.js) != `"`+hex.EncodeToString(r.script)+`"` {
			return fail("MarshalJSON result is %s for %s", short(r.js), short(r.script))
		}
		if !r.unmOK || !bytes.Equal(r.unm, r.script) {
			return fail("UnmarshalJSON(MarshalJSON(s)) result is %s, s = %s", short(r.unm), short(r.script))
		}
	}
	return nil
}

func invert(b []byte) {
	for i := range b {
		b[i] = ^b[i]
	}
}

// scribble overwrites every byte slice the step returned.
func scribble(r *rres) {
	invert(r.enc)
	for _, p := range r.prefixes {
		invert(p)
	}
	if r.appended != nil {
		invert(*r.appended)
	}
	for _, p := range r.parts {
		invert(p)
	}
	for _, o := range r.ops {
		invert(o.Data)
	}
	if r.back != nil {
		invert(*r.back)
	}
	if r.fromASM != nil {
		invert(*r.fromASM)
	}
	if r.fromHex != nil {
		invert(*r.fromHex)
	}
	invert(r.js)
	invert(r.unm)
}

func checkRetained(ctx *pbt.Ctx, c Retained) error {
	if len(c.Steps) < 2 {
		return fmt.Errorf("harness: fewer than two steps")
	}
	p := &interpreter.DefaultOpcodeParser{}
	res := make([]*rres, len(c.Steps))
	total := 0
	seen := map[string]int{}
	nt := false
	var key [][]byte
	for i, st := range c.Steps {
		r, err := runStep(p, st)
		if err != nil {
			return fmt.Errorf("step %d: %v", i, err)
		}
		res[i] = r
		seen[st.Op]++
		total += len(r.script)
		key = append(key, []byte(st.Op), r.script)
		for _, it := range r.items {
			total += len(it)
			key = append(key, []byte(fmt.Sprint(len(it))), it[:min(len(it), 8)])
			if len(it) >= 76 {
				nt = true
			}
		}
		if toks, _, _ := ref.Tokenize(r.script); nonTrivial(toks) || len(r.items) >= 3 {
			nt = true
		}
	}
	defer relieve(total)
	ctx.Key(key...)
	ctx.Labelf("steps=%d", len(c.Steps))
	twice := false
	for _, op := range sortedKeysInt(seen) {
		ctx.Label("op:" + op)
		if seen[op] >= 2 {
			ctx.Label("same op twice:" + op)
			twice = true
		}
	}
	if nt && twice {
		ctx.NonTrivial()
	}
	// (1) everything that was handed out, compared only now
	for i, r := range res {
		if err := verifyStep(i, r, fmt.Sprintf("after all %d calls", len(res))); err != nil {
			return err
		}
	}
	// one long-lived parser with ErrorOnCheckSig over all parse steps
	fp := &interpreter.DefaultOpcodeParser{ErrorOnCheckSig: true}
	for i, r := range res {
		if r.st.Op == "parse" {
			if err := checkFlagged(ctx, fp, r.script, ref.ParserTokenize(r.script), r.ops, r.opsErr); err != nil {
				return fmt.Errorf("step %d: %v", i, err)
			}
		}
	}
	if c.Scribble == 0 {
		ctx.Label("no caller writes")
		return nil
	}
	// (2) the caller overwrites what some calls returned
	ctx.Label("caller overwrites returned buffers")
	for i, r := range res {
		if c.Scribble>>uint(i)&1 == 1 {
			scribble(r)
		}
	}
	for i, r := range res {
		if c.Scribble>>uint(i)&1 == 0 {
			if err := verifyStep(i, r, "after the caller overwrote the results of other calls"); err != nil {
				return err
			}
		}
	}
	// (3) the same calls again, on fresh copies of the same inputs
	again := make([]*rres, len(c.Steps))
	for i, st := range c.Steps {
		r, err := runStep(p, st)
		if err != nil {
			return fmt.Errorf("step %d repeated after the caller overwrote returned buffers: %v", i, err)
		}
		again[i] = r
		if err := verifyStep(i, r, "repeated after the caller overwrote returned buffers"); err != nil {
			return err
		}
	}
	for i, r := range again {
		if err := verifyStep(i, r, "repeated, compared after all repeated calls"); err != nil {
			return err
		}
	}
	return nil
}

func sortedKeysInt(m map[string]int) []string {
	b := map[string]bool{}
	for k := range m {
		b[k] = true
	}
	return sortedKeys(b)
}

var retainedOps = []string{"encode", "prefix", "append", "decode", "decode-hex", "parse", "asm", "hex", "json"}

var smallOpts = gen.ScriptOpts{MaxInstr: 5, AllowReturn: true, NonMinimal: true, Big: false, OneByte: true}

func genASMScript(t *rapid.T, o gen.ScriptOpts) []byte {
	s := gen.Script(t, o)
	if s[0] == 0x6a {
		s[0] = 0x69
	}
	if len(s) > 1 && s[0] == 0x00 && s[1] == 0x6a {
		s[0] = 0x51
	}
	return s
}

func genRStep(t *rapid.T, op string, big *int) RStep {
	st := RStep{Op: op, Variant: rapid.IntRange(0, 14).Draw(t, "variant")}
	switch op {
	case "encode", "prefix", "append":
		n := rapid.IntRange(1, 4).Draw(t, "n")
		for i := 0; i < n; i++ {
			it := genItem(t, *big < 1)
			if it.Len > 60000 {
				*big++
			}
			st.Items = append(st.Items, it)
		}
		if op == "append" && rapid.IntRange(0, 2).Draw(t, "base") > 0 {
			st.Script = gen.Script(t, smallOpts)
		}
	case "asm":
		if rapid.IntRange(0, 3).Draw(t, "in_class") > 0 {
			o := asmOpts
			o.MaxInstr, o.Big = 5, false
			st.Script = genASMScript(t, o)
		} else {
			st.Script = genParseCase(t).Script
		}
	case "hex", "json":
		if rapid.IntRange(0, 1).Draw(t, "kind") == 0 {
			st.Script = gen.Bytes(t, gen.EdgeLen(t, 300, "len", 0, 1, 2, 25, 75, 76, 255, 256), "bytes")
		} else {
			st.Script = gen.Script(t, smallOpts)
		}
	default: // decode, decode-hex, parse
		o := smallOpts
		o.Big = *big < 1
		s := gen.Script(t, o)
		switch rapid.IntRange(0, 5).Draw(t, "shape") {
		case 0:
			if len(s) > 0 {
				s = s[:rapid.IntRange(0, len(s)-1).Draw(t, "cut")]
			}
		case 1:
			s = append(append([]byte(nil), s...), 0x6a)
			s = append(s, gen.Bytes(t, rapid.IntRange(0, 4).Draw(t, "tail_len"), "tail")...)
		}
		if len(s) > 60000 {
			*big++
		}
		st.Script = s
	}
	return st
}

func TestRetained(t *testing.T) {
	pbt.Run(t, pbt.Sub[Retained]{
		Name: "retained", Quick: 72000, Thorough: 1800000,
		Gen: func(t *rapid.T) Retained {
			n := rapid.IntRange(2, 6).Draw(t, "nsteps")
			focus := rapid.SampledFrom(retainedOps).Draw(t, "focus")
			c := Retained{}
			big := 0
			for i := 0; i < n; i++ {
				op := focus
				if rapid.IntRange(0, 1).Draw(t, "other") == 1 {
					op = rapid.SampledFrom(retainedOps).Draw(t, "op")
				}
				c.Steps = append(c.Steps, genRStep(t, op, &big))
			}
			if rapid.IntRange(0, 1).Draw(t, "scribble") == 1 {
				c.Scribble = uint(rapid.IntRange(1, 1<<uint(n)-1).Draw(t, "mask"))
			}
			return c
		},
		Check:    checkRetained,
		EnumDesc: "for every codec call (9 kinds): the call made twice and three times in a row on inputs of shrinking, growing and equal size (push lengths 1/75/76/255/256 and 20/33), without and with the caller overwriting the first result",
		Enum: func(tier string, yield func(Retained)) {
			mk := func(op string, n int, variant int) RStep {
				st := RStep{Op: op, Variant: variant}
				data := Item{Len: n, Pat: pbt.Hex{byte(n), 0x4c, 0x6a}}
				switch op {
				case "encode", "prefix", "append":
					st.Items = []Item{data, {Len: 2, Pat: pbt.Hex{0xab}}}
					if op == "append" {
						st.Script = pbt.Hex{0x76, 0xa9}
					}
				default:
					if n < 2 {
						n = 2
					}
					data.Len = n
					s := append([]byte{0x76}, ref.PushForm(data.bytes(), 0)...)
					st.Script = append(s, 0xac)
				}
				return st
			}
			sizes := [][]int{{256, 20}, {20, 256}, {75, 76}, {76, 75}, {255, 256}, {33, 33}, {1, 255}, {256, 76, 20}, {20, 76, 256}, {33, 33, 33}}
			for _, op := range retainedOps {
				for _, sz := range sizes {
					for variant := 0; variant < 5; variant++ {
						if op != "append" && variant > 0 {
							break
						}
						c := Retained{}
						for _, n := range sz {
							c.Steps = append(c.Steps, mk(op, n, variant))
						}
						yield(c)
						c.Scribble = 1
						yield(c)
					}
				}
			}
		},
	})
}
