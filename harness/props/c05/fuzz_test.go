package c05

import (
	"testing"

	"verif/harness/interp"
	"verif/harness/libexec"
	"verif/harness/pbt"
	"verif/harness/sgen"
)

// nonSigMask is the union of the flags C05 quantifies over.
var nonSigMask = func() uint32 {
	var m interp.Flags
	for _, f := range sgen.FlagPoolNonSig {
		m |= f
	}
	return uint32(m)
}()

func hasSigByte(b []byte) bool {
	for _, x := range b {
		if x >= 0xac && x <= 0xaf {
			return true
		}
	}
	return false
}

// FuzzInterp is the coverage-guided differential target of the thorough tier: the same oracle as
// the `generated` sub-check (verdict and every step's stacks against the reference interpreter),
// with Go's native fuzzer choosing the script bytes, the flag subset and the transaction context.
// Inputs holding a byte 0xac..0xaf anywhere (signature opcodes, C06's domain) are skipped.
func FuzzInterp(f *testing.F) {
	for _, v := range vectors {
		if hasSigByte(v.Unlock) || hasSigByte(v.Lock) {
			continue
		}
		f.Add(v.Unlock, v.Lock, uint32(v.Flags), uint32(1), uint32(0), uint32(0xffffffff))
	}
	for _, fl := range tupleConfigs {
		f.Add([]byte{0x51, 0x52}, []byte{0x93, 0x53, 0x87}, uint32(fl), uint32(2), uint32(100), uint32(50))
		f.Add([]byte{0x02, 0x01, 0x02, 0x58}, []byte{0x98, 0x02, 0x00, 0x01, 0x87, 0x63, 0x51, 0x67, 0x00, 0x68}, uint32(fl), uint32(2), uint32(500000000), uint32(1<<22+5))
		f.Add([]byte{0x01, 0x05}, []byte{0xb1, 0x75, 0x01, 0x05, 0xb2, 0x75, 0x51}, uint32(fl), uint32(2), uint32(6), uint32(7))
	}
	flim := interp.Limits{MaxElem: 1 << 16}
	f.Fuzz(func(t *testing.T, unlock, lock []byte, flags, version, locktime, seq uint32) {
		if len(unlock) > 400 || len(lock) > 400 || hasSigByte(unlock) || hasSigByte(lock) {
			t.Skip()
		}
		c := libexec.Prog{Unlock: unlock, Lock: lock, Flags: flags & nonSigMask,
			Ctx: libexec.TxCtx{Version: version, LockTime: locktime, Seq: seq, Amount: 1}, Level: "fuzz"}
		// cheap pre-pass with the smaller element budget: growth beyond it is not explored here
		m := c.Ctx.Model(c.Unlock, c.Lock)
		if r := interp.VerifyScript(c.Unlock, c.Lock, interp.Flags(c.Flags), interp.TxChecker{Tx: m, Idx: c.Ctx.Index(), Amount: 1}, false, flim); r.BudgetHit {
			t.Skip()
		}
		pbt.FuzzCheck(t, "C05", "generated", check, c)
	})
}
