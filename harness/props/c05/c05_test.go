// Package c05 decides property C05: the interpreter agrees with the BSV script
// rules (reference interpreter, calibrated on the node vectors) on verdict and
// on the data/alt stack after every instruction, for non-signature opcodes.
package c05

import (
	"fmt"
	"os"
	"testing"

	"pgregory.net/rapid"

	"verif/harness/interp"
	"verif/harness/libexec"
	"verif/harness/pbt"
	"verif/harness/sgen"
)

var vectors []interp.Vector

func TestMain(m *testing.M) {
	c, err := interp.Calibrate()
	if err != nil || c.VerdictAgree != c.Vectors {
		fmt.Printf("CALIBRATION FAILED: %v %+v\n", err, c)
		os.Exit(2)
	}
	pbt.SetExtra("generated", "calibration_vectors", c.Vectors)
	pbt.SetExtra("generated", "calibration_verdict_agree", c.VerdictAgree)
	vectors, _ = interp.LoadVectors()
	pbt.Main(m)
}

var lim = interp.Limits{MaxElem: 1 << 20}

func check(ctx *pbt.Ctx, c libexec.Prog) error {
	flags := interp.Flags(c.Flags)
	model := c.Ctx.Model(c.Unlock, c.Lock)
	r := interp.VerifyScript(c.Unlock, c.Lock, flags, interp.TxChecker{Tx: model, Idx: c.Ctx.Index(), Amount: c.Ctx.Amount}, true, lim)
	if r.BudgetHit {
		ctx.Discard("over_budget")
		return nil
	}
	rec := &libexec.Recorder{}
	out := libexec.Run(c.Unlock, c.Lock, flags, c.Ctx, rec)
	if out.Panic != "" {
		return fmt.Errorf("library panicked: %s", out.Panic)
	}
	if out.Damage != "" {
		return fmt.Errorf("%s; unlock=%x lock=%x flags=%#x", out.Damage, c.Unlock, c.Lock, c.Flags)
	}
	libOK := out.Err == nil
	ctx.Label("level=" + c.Level)
	if c.Ctx.Index() > 0 {
		ctx.Label("checked_input_is_not_input_0")
	}
	if flags.Has(interp.FlagAfterGenesis) {
		ctx.Label("era=post")
	} else {
		ctx.Label("era=pre")
	}
	if r.OK {
		ctx.Label("verdict=accept")
	} else {
		ctx.Label("verdict=reject:" + r.Err)
	}
	okOps := 0
	for _, s := range r.Trace {
		if s.Executed && s.Op > 0x60 {
			okOps++
			ctx.Labelf("op_ok=%02x", s.Op)
		}
	}
	if len(r.Trace) >= 3 && okOps >= 1 {
		ctx.NonTrivial()
	}
	if libOK != r.OK {
		return fmt.Errorf("verdict: library err=%v, rules ok=%v (%s); unlock=%x lock=%x flags=%#x", out.Err, r.OK, r.Err, c.Unlock, c.Lock, c.Flags)
	}
	if err := libexec.CompareTraces(out.Steps, libOK, r); err != nil {
		return fmt.Errorf("%v; unlock=%x lock=%x flags=%#x liberr=%v", err, c.Unlock, c.Lock, c.Flags, out.Err)
	}
	return nil
}

func excludeSig(op byte) bool { return sgen.IsSigOp(op) }

func genCtx(t *rapid.T) libexec.TxCtx {
	if rapid.IntRange(0, 2).Draw(t, "ctx_default") != 0 {
		return libexec.TxCtx{Version: 1, LockTime: 0, Seq: 0xffffffff}
	}
	return libexec.TxCtx{
		Version:  rapid.SampledFrom([]uint32{0, 1, 2, 3, 0xffffffff}).Draw(t, "version"),
		LockTime: rapid.SampledFrom([]uint32{0, 1, 100, 70000, 499999999, 500000000, 500000001, 0xffffffff}).Draw(t, "locktime"),
		Seq:      rapid.SampledFrom([]uint32{0, 1, 100, 0xffff, 0x10000, 70000, 1 << 22, 1<<22 + 5, 1 << 31, 0xfffffffe, 0xffffffff}).Draw(t, "seq"),
		Amount:   uint64(rapid.IntRange(0, 3).Draw(t, "amount")),
		NBefore:  rapid.SampledFrom([]int{0, 0, 1, 1, 2, 3}).Draw(t, "nbefore"),
		NAfter:   rapid.SampledFrom([]int{0, 0, 1, 2}).Draw(t, "nafter"),
		OtherSeq: otherSeq(t),
	}
}

// otherSeq is the sequence number of the inputs that are not checked: final, not final, with the
// relative-lock-time disable bit / type flag set or not (whatever the checked input carries, the
// lock-time opcodes must read the checked input's).
func otherSeq(t *rapid.T) uint32 {
	return rapid.SampledFrom([]uint32{0, 1, 5, 0xffff, 1 << 22, 1<<22 + 5, 1 << 31, 1<<31 + 5, 0xfffffffe, 0xffffffff}).Draw(t, "other_seq")
}

func genProg(t *rapid.T) libexec.Prog {
	flags := sgen.Flags(t, sgen.FlagPoolNonSig)
	var p sgen.Program
	switch rapid.IntRange(0, 13).Draw(t, "level") {
	case 13:
		p = sgen.DegenerateP2SH(t, flags)
	case 12:
		p = sgen.DeepStack(t, flags)
	case 10:
		p = sgen.P2SHLookalike(t, flags)
	case 11:
		lp, lc := sgen.LockTimeProgram(t, flags)
		return libexec.Prog{Unlock: lp.Unlock, Lock: lp.Lock, Flags: uint32(lp.Flags), Ctx: libexec.TxCtx{Version: lc.Version, LockTime: lc.LockTime, Seq: lc.Seq, Amount: 1,
			NBefore: rapid.SampledFrom([]int{0, 1, 1, 2}).Draw(t, "nbefore"), NAfter: rapid.SampledFrom([]int{0, 0, 1}).Draw(t, "nafter"), OtherSeq: otherSeq(t)}, Level: lp.Level}
	case 0:
		p = sgen.RandomOps(t, flags, excludeSig)
	case 1, 2:
		p = sgen.MutateVector(t, vectors, sgen.FlagPoolNonSig, excludeSig)
	default:
		max := 12
		if pbt.Thorough() {
			max = 40
		}
		p = sgen.StackAware(t, flags, max)
	}
	return libexec.Prog{Unlock: p.Unlock, Lock: p.Lock, Flags: uint32(p.Flags), Ctx: genCtx(t), Level: p.Level}
}

func TestGenerated(t *testing.T) {
	pbt.Run(t, pbt.Sub[libexec.Prog]{
		Name: "generated", Quick: 120000, Thorough: 4000000,
		Gen: genProg, Check: check,
	})
}

var unaryOps = []byte{0x69, 0x73, 0x75, 0x76, 0x81, 0x82, 0x83, 0x8b, 0x8c, 0x8d, 0x8e, 0x8f, 0x90, 0x91, 0x92, 0xa6, 0xa7, 0xa8, 0xa9, 0xaa, 0x63, 0x64, 0xb1, 0xb2, 0x6b}
var binaryOps = []byte{0x7e, 0x7f, 0x80, 0x84, 0x85, 0x86, 0x87, 0x88, 0x93, 0x94, 0x95, 0x96, 0x97, 0x98, 0x99, 0x9a, 0x9b, 0x9c, 0x9d, 0x9e, 0x9f, 0xa0, 0xa1, 0xa2, 0xa3, 0xa4, 0x79, 0x7a, 0x77, 0x78, 0x7c, 0x7d, 0x6d, 0x6e}

var tupleConfigs = []interp.Flags{0, interp.FlagMinimalData, interp.FlagAfterGenesis, interp.FlagAfterGenesis | interp.FlagMinimalData, interp.FlagMinimalIf | interp.FlagCLTV | interp.FlagCSV}

func tupleProg(op byte, flags interp.Flags, operands ...[]byte) libexec.Prog {
	var u []byte
	for _, o := range operands {
		u = append(u, sgen.Push(o, 1)...) // direct pushes so that MINIMALDATA judges the number, not the push form
	}
	lock := []byte{op}
	if op == 0x63 || op == 0x64 {
		lock = append(lock, 0x51, 0x67, 0x52, 0x68)
	}
	lock = append(lock, 0x74) // DEPTH: something is always left to judge
	return libexec.Prog{Unlock: u, Lock: lock, Flags: uint32(flags), Ctx: libexec.TxCtx{Version: 2, LockTime: 100, Seq: 50}, Level: "L4"}
}

func TestTuples(t *testing.T) {
	pool := sgen.NumPool
	pbt.Run(t, pbt.Sub[libexec.Prog]{
		Name:     "tuples",
		EnumDesc: fmt.Sprintf("every unary opcode x %d edge operands, every binary opcode x %d^2, WITHIN x 20^3, LSHIFT/RSHIFT x operand lengths 0..5 x two bit patterns x counts 0..8n+1, each under 5 flag configurations (both eras, MINIMALDATA on/off)", len(pool), len(pool)),
		Enum: func(tier string, yield func(libexec.Prog)) {
			for _, fl := range tupleConfigs {
				for _, op := range unaryOps {
					for _, a := range pool {
						yield(tupleProg(op, fl, a))
					}
				}
				for _, op := range binaryOps {
					for _, a := range pool {
						for _, b := range pool {
							yield(tupleProg(op, fl, a, b))
						}
					}
				}
				sub := pool[:20]
				for _, a := range sub {
					for _, b := range sub {
						for _, c := range sub {
							yield(tupleProg(0xa5, fl, a, b, c))
						}
					}
				}
				for _, op := range []byte{0x98, 0x99} {
					for n := 0; n <= 5; n++ {
						for _, pat := range []byte{0xff, 0xa5} {
							v := make([]byte, n)
							for i := range v {
								v[i] = pat ^ byte(i*17)
							}
							for cnt := 0; cnt <= 8*n+1; cnt++ {
								yield(tupleProg(op, fl, v, interp.EncodeNum(bigInt(cnt))))
							}
						}
					}
				}
			}
		},
		Check: check,
	})
}
