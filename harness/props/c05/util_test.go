package c05

import "math/big"

func bigInt(n int) *big.Int { return big.NewInt(int64(n)) }
