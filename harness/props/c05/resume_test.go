package c05

import (
	"fmt"
	"testing"

	"pgregory.net/rapid"

	"verif/harness/interp"
	"verif/harness/libexec"
	"verif/harness/pbt"
)

// ---------------------------------------------------------------------------
// sub-check: resume (ninth round). The exported option WithState starts an execution from a State
// record; the documentation names the records a debugger receives in BeforeStep as the ones to use.
// A program is executed once with a debugger that keeps those records; the execution is then
// resumed from one of them (a private deep copy) on a fresh engine, with or without a recording
// debugger. Oracle: the reference interpreter's run of the WHOLE program - the resumed execution
// returns its verdict and, step by step from the resumption point, its data and alt stacks.
// ---------------------------------------------------------------------------

// ResumeCase is a program and the BeforeStep record to resume from.
type ResumeCase struct {
	libexec.Prog
	At  int  `json:"at"`  // index of the record (modulo the number of records)
	Dbg bool `json:"dbg"` // the resumed execution has a recording debugger
}

func checkResume(ctx *pbt.Ctx, c ResumeCase) error {
	if c.At < 0 {
		ctx.Discard("malformed case")
		return nil
	}
	flags := interp.Flags(c.Flags)
	model := c.Ctx.Model(c.Unlock, c.Lock)
	idx := c.Ctx.Index()
	r := interp.VerifyScript(c.Unlock, c.Lock, flags, interp.TxChecker{Tx: model, Idx: idx, Amount: c.Ctx.Amount}, true, lim)
	if r.BudgetHit {
		ctx.Discard("over_budget")
		return nil
	}
	k := &libexec.Keeper{}
	full := libexec.RunModel(model, idx, c.Lock, c.Ctx.Amount, flags, k)
	if full.Panic != "" {
		return fmt.Errorf("library panicked: %s", full.Panic)
	}
	if (full.Err == nil) != r.OK {
		// the uninterrupted run already disagrees with the rules: that is the `generated` sub-check's report
		return fmt.Errorf("verdict: library err=%v, rules ok=%v (%s); unlock=%x lock=%x flags=%#x", full.Err, r.OK, r.Err, c.Unlock, c.Lock, c.Flags)
	}
	if len(k.States) == 0 {
		ctx.Discard("no step reached")
		return nil
	}
	at := c.At % len(k.States)
	rec := k.States[at]
	if rec.ScriptIdx < 0 || rec.ScriptIdx >= len(rec.Scripts) {
		ctx.Discard("record without a current script")
		return nil
	}
	st := libexec.CopyState(rec)
	var out libexec.Outcome
	if c.Dbg {
		out = libexec.ResumeModel(model, idx, c.Lock, c.Ctx.Amount, flags, st, &libexec.Recorder{})
	} else {
		out = libexec.ResumeModel(model, idx, c.Lock, c.Ctx.Amount, flags, st, nil)
	}
	id := fmt.Sprintf("unlock=%x lock=%x flags=%#x ctx=%+v, resumed from BeforeStep record %d of %d (script %d, opcode %d, data stack %d items, alt stack %d, conditional stack %v), debugger on the resumed run: %v",
		[]byte(c.Unlock), []byte(c.Lock), c.Flags, c.Ctx, at, len(k.States), rec.ScriptIdx, rec.OpcodeIdx, len(rec.DataStack), len(rec.AltStack), rec.CondStack, c.Dbg)
	if err := libexec.CompareResumed(out, at, r, c.Dbg); err != nil {
		return fmt.Errorf("%v; %s", err, id)
	}
	ctx.Label("level=" + c.Level)
	ctx.Labelf("resumed_in_script=%d", rec.ScriptIdx)
	ctx.Labelf("resumed_inside_conditional=%v", len(rec.CondStack) > 0)
	if len(rec.CondStack) >= 2 {
		ctx.Label("resumed_inside_nested_conditional")
		dead := false
		for _, v := range rec.CondStack {
			if v != 1 {
				dead = true
			}
		}
		if dead {
			ctx.Label("resumed_inside_nested_conditional_with_dead_branch")
		}
	}
	ctx.Labelf("resumed_with_alt_items=%v", len(rec.AltStack) > 0)
	if flags.Has(interp.FlagAfterGenesis) {
		ctx.Label("era=post")
	} else {
		ctx.Label("era=pre")
	}
	if at > 0 && (len(rec.CondStack) > 0 || len(rec.AltStack) > 0 || rec.ScriptIdx > 0) {
		ctx.NonTrivial()
	}
	return nil
}

func TestResume(t *testing.T) {
	pbt.Run(t, pbt.Sub[ResumeCase]{
		Name: "resume", Quick: 60000, Thorough: 1200000,
		Gen: func(t *rapid.T) ResumeCase {
			return ResumeCase{Prog: genProg(t), At: rapid.IntRange(0, 60).Draw(t, "at"), Dbg: rapid.Bool().Draw(t, "dbg")}
		},
		Check: checkResume,
	})
}
