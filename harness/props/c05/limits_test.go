package c05

import (
	"bytes"
	"testing"

	"verif/harness/interp"
	"verif/harness/libexec"
	"verif/harness/pbt"
	"verif/harness/sgen"
)

func rep(b byte, n int) []byte { return bytes.Repeat([]byte{b}, n) }

func cat(parts ...[]byte) []byte {
	var o []byte
	for _, p := range parts {
		o = append(o, p...)
	}
	return o
}

func limProg(u, l []byte, fl interp.Flags) libexec.Prog {
	return libexec.Prog{Unlock: u, Lock: l, Flags: uint32(fl), Ctx: libexec.TxCtx{Version: 1, Seq: 0xffffffff}, Level: "L5-limits"}
}

// TestLimits enumerates programs that sit exactly on, one below and one above
// every pre-genesis limit (operation count, stack depth, script size, element
// size), in both eras: after genesis none of them applies.
func TestLimits(t *testing.T) {
	pbt.Run(t, pbt.Sub[libexec.Prog]{
		Name:     "limits",
		EnumDesc: "operation count 199..202 / 499..502 (plain, inside a dead branch, via CHECKMULTISIG-free opcodes only), stack+alt depth 999..1002 (data only, split with the alt stack, produced by DUP chains), script size 9999..10001 for each script, element size 519..521 (pushed, pushed in a dead branch, produced by CAT and NUM2BIN), each in both eras; after genesis numeric operands and BIN2NUM results of 749999 / 750000 / 750001 / 751000 / 768000 / 1000000 bytes",
		Enum: func(tier string, yield func(libexec.Prog)) {
			for _, fl := range []interp.Flags{0, interp.FlagAfterGenesis, interp.FlagMinimalData} {
				// operation count
				for _, k := range []int{199, 200, 201, 202, 499, 500, 501, 502} {
					yield(limProg([]byte{0x51}, cat(rep(0x61, k)), fl))
					yield(limProg([]byte{0x51}, cat([]byte{0x00, 0x63}, rep(0x61, k-2), []byte{0x68}), fl)) // IF ... ENDIF count too, dead branch
					yield(limProg(cat([]byte{0x51}, rep(0x61, k)), []byte{0x51}, fl))                       // the count is per script
					yield(limProg(cat([]byte{0x51}, rep(0x61, k/2)), cat(rep(0x61, k-k/2)), fl))
				}
				// the P2SH redeem script is a script of its own: fresh operation count, same limits
				if fl&interp.FlagAfterGenesis == 0 {
					for _, k := range []int{199, 200, 201, 202, 499, 500, 501, 502} {
						redeem := cat(rep(0x61, k), []byte{0x51})
						p := sgen.WrapP2SH(sgen.Program{Unlock: cat(rep(0x61, 0)), Lock: redeem, Flags: fl | interp.FlagP2SH}, false)
						yield(limProg(p.Unlock, p.Lock, p.Flags))
						// operations spent in the locking script do not count against the redeem script
						p2 := sgen.WrapP2SH(sgen.Program{Unlock: []byte{0x51, 0x75}, Lock: redeem, Flags: fl | interp.FlagP2SH}, false)
						yield(limProg(p2.Unlock, p2.Lock, p2.Flags))
					}
				}
				// stack depth: k items from the unlocking script, one more from the locking script
				for _, k := range []int{998, 999, 1000, 1001} {
					yield(limProg(rep(0x51, k), []byte{0x51}, fl))
					yield(limProg(rep(0x51, k), []byte{0x76}, fl))                         // DUP
					yield(limProg(rep(0x51, k), []byte{0x6b, 0x51, 0x51}, fl))             // one item on the alt stack
					yield(limProg(rep(0x51, k-2), []byte{0x6f}, fl))                       // 3DUP: +3
					yield(limProg(rep(0x51, k), []byte{0x00, 0x63, 0x51, 0x68, 0x51}, fl)) // IF pops one, dead push, then push
				}
				// script size
				big := sgen.Push(make([]byte, 520), 0) // 523 bytes
				for _, l := range []int{9999, 10000, 10001} {
					body := cat(bytes.Repeat(big, 19))
					body = append(body, rep(0x51, l-len(body))...)
					yield(limProg([]byte{0x51}, body, fl))
					yield(limProg(body, []byte{0x51}, fl))
				}
				// element size
				for _, n := range []int{519, 520, 521, 522} {
					d := make([]byte, n)
					d[0] = 1
					yield(limProg(sgen.Push(d, 0), []byte{0x82, 0x75}, fl))                                                                     // pushed, SIZE DROP
					yield(limProg([]byte{0x51}, cat([]byte{0x00, 0x63}, sgen.Push(d, 0), []byte{0x68}), fl))                                    // pushed in a dead branch
					yield(limProg(cat(sgen.Push(d[:n-1], 0), sgen.Push(d[:1], 0)), []byte{0x7e, 0x82, 0x75, 0x51}, fl))                         // CAT to n bytes
					yield(limProg(cat(sgen.Push([]byte{5}, 0), sgen.Push(interp.EncodeNum(bigInt(n)), 0)), []byte{0x80, 0x82, 0x75, 0x51}, fl)) // NUM2BIN to n bytes
				}
			}
			// after genesis numbers may be up to 750 000 bytes long: operands and BIN2NUM results one
			// below, on, one above and well above that length
			for _, fl := range []interp.Flags{interp.FlagAfterGenesis, interp.FlagAfterGenesis | interp.FlagMinimalData} {
				for _, n := range []int{749999, 750000, 750001, 751000, 768000, 1000000} {
					d := make([]byte, n)
					d[0], d[n-1] = 0x07, 0x01 // minimal, positive
					// (the library needs about 13 s to re-serialise a 750 kB result - see DESIGN 7.4 - so the
					// arithmetic cases that succeed run in the thorough tier only)
					if n > 750000 || tier == "thorough" {
						yield(limProg(sgen.Push(d, 0), []byte{0x8b, 0x82, 0x75, 0x51}, fl)) // 1ADD SIZE DROP 1
						yield(limProg(sgen.Push(d, 0), []byte{0x00, 0x93, 0x75, 0x51}, fl)) // 0 ADD DROP 1
					}
					yield(limProg(sgen.Push(d, 0), []byte{0x91, 0x51}, fl))                                                      // NOT 1 (unary, boolean result)
					yield(limProg(sgen.Push(append(append([]byte{}, d...), 0x00, 0x00), 0), []byte{0x81, 0x82, 0x75, 0x51}, fl)) // BIN2NUM to n bytes
				}
			}
		},
		Check: check,
	})
}
