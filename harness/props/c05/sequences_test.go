package c05

import (
	"fmt"
	"testing"

	"github.com/libsv/go-bt/v2/bscript/interpreter"
	"pgregory.net/rapid"

	"verif/harness/interp"
	"verif/harness/libexec"
	"verif/harness/pbt"
	"verif/harness/sgen"
)

// ---------------------------------------------------------------------------
// sub-check: sequences. One engine object executes 2..6 programs one after the
// other (different scripts, flags, eras); every one of them is judged against
// the rules exactly as if it had run alone. Whatever an execution leaves
// behind - in the engine, in a pooled thread or stack, in package-level
// numbers - must not reach the next one.
// ---------------------------------------------------------------------------

// Seq is a sequence of programs for one engine. Dbg[i] attaches a recording debugger to run i
// (always true for the last run, whose trace is compared step by step; earlier runs are judged
// by verdict with or without a debugger attached, which itself may be the thing that leaks).
type Seq struct {
	Progs []libexec.Prog `json:"progs"`
	Dbg   []bool         `json:"dbg"`
	// Shared runs the whole sequence on ONE set of library objects (transaction, input, script
	// objects, spent output) whose fields and script bytes are refilled in place for every run
	Shared bool `json:"shared,omitempty"`
}

// dirtying programs: each ends its execution in a state a careless reset would carry over
var dirty = []struct {
	name         string
	unlock, lock []byte
	flags        interp.Flags
}{
	{"alt-stack-left", []byte{0x51}, []byte{0x52, 0x6b, 0x53, 0x6b}, 0},
	{"open-if-error", []byte{0x51}, []byte{0x63, 0x51}, 0},
	{"open-notif-else-error", []byte{0x00}, []byte{0x64, 0x51, 0x67}, interp.FlagAfterGenesis},
	{"early-return-success", []byte{0x51}, []byte{0x6a, 0xff, 0xfe}, interp.FlagAfterGenesis},
	{"return-in-branch", []byte{0x51}, []byte{0x51, 0x63, 0x6a, 0x68, 0x51}, interp.FlagAfterGenesis},
	{"verify-fails", []byte{0x00}, []byte{0x69, 0x51}, 0},
	{"separator-then-fail", []byte{0x51}, []byte{0xab, 0x51, 0xab, 0x00}, 0},
	{"p2sh-spend", []byte{0x51, 0x01, 0x51}, append(append([]byte{0xa9, 0x14}, sgen.Hash160([]byte{0x51})...), 0x87), interp.FlagP2SH},
	{"numbers", []byte{0x51}, []byte{0x8b, 0x8c, 0x8f, 0x90, 0x91, 0x92, 0x51, 0x93, 0x51, 0x94, 0x52, 0x95, 0x52, 0x96, 0x53, 0x97, 0x75, 0x51}, interp.FlagAfterGenesis},
	{"big-numbers", []byte{0x09, 0xff, 0xff, 0xff, 0xff, 0xff, 0xff, 0xff, 0xff, 0x7f}, []byte{0x76, 0x93, 0x76, 0x95, 0x8f, 0x8b, 0x8c, 0x75, 0x51}, interp.FlagAfterGenesis},
	{"deep-stack", []byte{0x51}, []byte{0x76, 0x76, 0x6e, 0x6e, 0x6e, 0x6e, 0x6f, 0x6f, 0x6f, 0x6b, 0x6b, 0x6b}, 0},
	{"op-count", []byte{0x51}, repeat(0x61, 201), 0},
	{"op-count-exceeded", []byte{0x51}, repeat(0x61, 501), 0},
	{"disabled-in-dead-branch", []byte{0x00}, []byte{0x63, 0x8d, 0x68, 0x51}, 0},
	{"shifts", []byte{0x02, 0x80, 0x01}, []byte{0x76, 0x51, 0x98, 0x75, 0x76, 0x51, 0x99, 0x75, 0x83, 0x75, 0x51}, interp.FlagAfterGenesis},
	{"split-cat", []byte{0x04, 0x01, 0x02, 0x03, 0x04}, []byte{0x52, 0x7f, 0x7c, 0x7e, 0x75, 0x51}, interp.FlagAfterGenesis},
	{"cltv-fails", []byte{0x51}, []byte{0x03, 0x00, 0x00, 0x01, 0xb1}, interp.FlagCLTV},
	{"clean-stack-fails", []byte{0x51, 0x51}, []byte{0x51}, interp.FlagCleanStack | interp.FlagP2SH},
}

func repeat(b byte, n int) []byte {
	o := make([]byte, n)
	for i := range o {
		o[i] = b
	}
	return o
}

func checkSeq(ctx *pbt.Ctx, c Seq) error {
	if len(c.Progs) < 2 || len(c.Dbg) != len(c.Progs) {
		ctx.Discard("malformed case")
		return nil
	}
	// reference verdicts first (also bounds the cost)
	refs := make([]interp.Result, len(c.Progs))
	for i, p := range c.Progs {
		flags := interp.Flags(p.Flags)
		model := p.Ctx.Model(p.Unlock, p.Lock)
		refs[i] = interp.VerifyScript(p.Unlock, p.Lock, flags, interp.TxChecker{Tx: model, Idx: p.Ctx.Index(), Amount: p.Ctx.Amount}, true, lim)
		if refs[i].BudgetHit {
			ctx.Discard("over_budget")
			return nil
		}
	}
	eng := interpreter.NewEngine()
	kinds := map[string]bool{}
	// the option values are built once per case and handed to every run that needs them
	pool := libexec.NewOptPool()
	libexec.SetPool(pool)
	defer libexec.SetPool(nil)
	runOn := libexec.RunOn
	if c.Shared {
		runOn = (&libexec.Reuse{}).RunOn
		ctx.Label("shared_objects")
	}
	for i, p := range c.Progs {
		flags := interp.Flags(p.Flags)
		var rec *libexec.Recorder
		var out libexec.Outcome
		if c.Dbg[i] || i == len(c.Progs)-1 {
			rec = &libexec.Recorder{}
			out = runOn(eng, p.Unlock, p.Lock, flags, p.Ctx, rec)
		} else {
			out = runOn(eng, p.Unlock, p.Lock, flags, p.Ctx, nil)
		}
		id := fmt.Sprintf("run %d of %d on one engine (unlock=%x lock=%x flags=%#x)", i+1, len(c.Progs), []byte(p.Unlock), []byte(p.Lock), p.Flags)
		if out.Panic != "" {
			return fmt.Errorf("library panicked in %s: %s", id, out.Panic)
		}
		if out.Damage != "" {
			return fmt.Errorf("%s: %s", id, out.Damage)
		}
		libOK := out.Err == nil
		if libOK != refs[i].OK {
			return fmt.Errorf("verdict of %s: library err=%v, rules ok=%v (%s)", id, out.Err, refs[i].OK, refs[i].Err)
		}
		if rec != nil {
			if err := libexec.CompareTraces(out.Steps, libOK, refs[i]); err != nil {
				return fmt.Errorf("%s: %v; liberr=%v", id, err, out.Err)
			}
		}
		if refs[i].OK {
			kinds["accept"] = true
		} else {
			kinds["reject"] = true
		}
		if flags.Has(interp.FlagAfterGenesis) {
			kinds["post"] = true
		} else {
			kinds["pre"] = true
		}
		ctx.Label("level=" + p.Level)
	}
	if pool.Shared > 0 {
		ctx.Label("option value used by more than one run")
	}
	ctx.Labelf("runs=%d", len(c.Progs))
	if kinds["accept"] && kinds["reject"] {
		ctx.Label("mixed_verdicts")
	}
	if kinds["pre"] && kinds["post"] {
		ctx.Label("mixed_eras")
	}
	if len(refs[len(refs)-1].Trace) >= 3 {
		ctx.NonTrivial()
	}
	return nil
}

func genSeq(t *rapid.T) Seq {
	n := rapid.IntRange(2, 6).Draw(t, "runs")
	var c Seq
	for i := 0; i < n; i++ {
		var p libexec.Prog
		switch k := rapid.IntRange(0, 9).Draw(t, "kind"); {
		case k <= 3:
			d := dirty[rapid.IntRange(0, len(dirty)-1).Draw(t, "dirty")]
			p = libexec.Prog{Unlock: d.unlock, Lock: d.lock, Flags: uint32(d.flags), Ctx: libexec.TxCtx{Version: 2, LockTime: 100, Seq: 50}, Level: "dirty:" + d.name}
		case k == 4 && i > 0:
			// the same program once more, or under the other era
			p = c.Progs[rapid.IntRange(0, i-1).Draw(t, "again")]
			if rapid.Bool().Draw(t, "flip_era") {
				p.Flags ^= uint32(interp.FlagAfterGenesis)
			}
			p.Level = "again"
		default:
			p = genProg(t)
		}
		c.Progs = append(c.Progs, p)
		c.Dbg = append(c.Dbg, rapid.Bool().Draw(t, "dbg"))
	}
	c.Shared = rapid.IntRange(0, 2).Draw(t, "shared") == 0
	return c
}

func TestSequences(t *testing.T) {
	pbt.Run(t, pbt.Sub[Seq]{
		Name: "sequences", Quick: 40000, Thorough: 400000,
		Gen: genSeq, Check: checkSeq,
	})
}
