// Package c04 decides property C04: signatures made through the library's
// signing path verify in the library's interpreter and commit to exactly what
// their hash type says.
package c04

import (
	"bytes"
	"context"
	"crypto/sha256"
	"encoding/binary"
	"encoding/hex"
	"fmt"
	"os"
	"strings"
	"sync/atomic"
	"testing"

	"github.com/libsv/go-bk/bec"
	"github.com/libsv/go-bt/v2"
	"github.com/libsv/go-bt/v2/bscript"
	"github.com/libsv/go-bt/v2/bscript/interpreter"
	"github.com/libsv/go-bt/v2/sighash"
	"github.com/libsv/go-bt/v2/unlocker"
	"golang.org/x/crypto/ripemd160" //nolint:staticcheck // Bitcoin's HASH160
	"pgregory.net/rapid"

	"verif/harness/gen"
	"verif/harness/interp"
	"verif/harness/libexec"
	"verif/harness/pbt"
	"verif/harness/ref"
)

const subName = "sign_verify_commit"

var (
	calib     ref.SigHashCalibration
	mutations atomic.Int64
	stillOK   atomic.Int64
)

func TestMain(m *testing.M) {
	// The commitment table is cross-checked against the reference digests, so the
	// reference is calibrated first (harness error / exit 2 on any mismatch).
	calib = ref.MustCalibrateSigHash()
	if !pbt.Replaying() {
		pbt.SetExtra(subName, "calibration_vectors", calib.OKBIP143+calib.OKLegacy)
	}
	pbt.Main(m)
}

// Case is one signing job.
type Case struct {
	Key          pbt.Hex `json:"key"`    // 32-byte private key, 0 < key < N
	Tx           ref.Tx  `json:"tx"`     // every input records the output it spends (prev_script, prev_sats)
	Signed       int     `json:"signed"` // input that is signed, verified and mutated; it spends P2PKH / P2PKH-inscription paying Key
	HashType     int     `json:"hash_type"`
	AfterGenesis bool    `json:"after_genesis"`
	// Path: "FillInput" (explicit flag), "FillInputDefault" (SigHashFlags left 0; HashType 0x41),
	// "FillAllInputs" (HashType 0x41; every input spends an output paying Key).
	Path string `json:"path"`
	Salt uint64 `json:"salt"` // drives the mutated values
}

// ---- small independent helpers -------------------------------------------------

func hash160(b []byte) []byte {
	s := sha256.Sum256(b)
	r := ripemd160.New()
	r.Write(s[:])
	return r.Sum(nil)
}

func p2pkh(pubkey []byte) []byte {
	s := []byte{0x76, 0xa9, 0x14}
	s = append(s, hash160(pubkey)...)
	return append(s, 0x88, 0xac)
}

func push(d []byte) []byte {
	n := len(d)
	switch {
	case n <= 75:
		return append([]byte{byte(n)}, d...)
	case n <= 255:
		return append([]byte{0x4c, byte(n)}, d...)
	}
	return append([]byte{0x4d, byte(n), byte(n >> 8)}, d...)
}

// pushForm encodes a push with the shortest form (0) or with OP_PUSHDATA1 / 2 / 4 (1, 2, 3) where
// the length fits: a script is what its bytes are, and the envelope of an inscription sits in a
// branch that is never executed, so any push form is legal there.
func pushForm(d []byte, form int) []byte {
	n := len(d)
	switch {
	case form == 1 && n <= 255:
		return append([]byte{0x4c, byte(n)}, d...)
	case form == 2 && n <= 65535:
		return append([]byte{0x4d, byte(n), byte(n >> 8)}, d...)
	case form == 3:
		return append([]byte{0x4e, byte(n), byte(n >> 8), byte(n >> 16), byte(n >> 24)}, d...)
	}
	return push(d)
}

// inscription: <P2PKH> OP_FALSE OP_IF "ord" OP_1 <content type> OP_0 <data> OP_ENDIF; forms gives
// the push form of "ord", the content type and the data (base-4 digits).
func inscription(pubkey, contentType, data []byte, forms int) []byte {
	s := p2pkh(pubkey)
	s = append(s, 0x00, 0x63)
	s = append(s, pushForm([]byte("ord"), forms%4)...)
	s = append(s, 0x51)
	s = append(s, pushForm(contentType, forms/4%4)...)
	s = append(s, 0x00)
	s = append(s, pushForm(data, forms/16%4)...)
	return append(s, 0x68)
}

// twoPushes parses "<push a> <push b>" made of direct pushes (1..75 bytes).
func twoPushes(s []byte) (a, b []byte, ok bool) {
	if len(s) < 1 || s[0] < 1 || s[0] > 75 || len(s) < 1+int(s[0])+1 {
		return nil, nil, false
	}
	a = s[1 : 1+int(s[0])]
	r := s[1+int(s[0]):]
	if r[0] < 1 || r[0] > 75 || len(r) != 1+int(r[0]) {
		return nil, nil, false
	}
	return a, r[1:], true
}

func typeName(ht int) string {
	n := map[int]string{1: "ALL", 2: "NONE", 3: "SINGLE"}[ht&0x1f]
	if ht&0x40 != 0 {
		n += "|FORKID"
	}
	if ht&0x80 != 0 {
		n += "|ACP"
	}
	return n
}

func cloneModel(m ref.Tx) ref.Tx {
	c := ref.Tx{Version: m.Version, LockTime: m.LockTime}
	for _, in := range m.In {
		in.TxID = append(pbt.Hex{}, in.TxID...)
		in.Unlock = append(pbt.Hex{}, in.Unlock...)
		in.PrevScript = append(pbt.Hex{}, in.PrevScript...)
		c.In = append(c.In, in)
	}
	for _, o := range m.Out {
		o.Script = append(pbt.Hex{}, o.Script...)
		c.Out = append(c.Out, o)
	}
	return c
}

// refDigest is the calibrated reference digest for the signed input under the
// algorithm the hash type selects (FORKID types are only used with the FORKID
// flag, legacy types only without it).
func refDigest(m ref.Tx, s int, ht int) []byte {
	in := m.In[s]
	if ht&0x40 != 0 {
		_, d := ref.SigHashForkID(m, s, in.PrevScript, in.PrevSats, uint32(ht))
		return d
	}
	_, d := ref.SigHashLegacy(m, s, in.PrevScript, uint32(ht), true)
	return d
}

// verify runs the library's interpreter on a fresh library object built from
// the model (the engine records the spent output on the transaction it is
// given, so it never sees an object shared with anything else).
func verify(m ref.Tx, s int, ht int, afterGenesis bool) error {
	return verifyCarrying(m, s, ht, afterGenesis, nil)
}

// verifyCarrying is verify, except that when carry is non-nil the transaction object
// handed to the engine still carries that (signing-time) spent-output data on the
// checked input - the in-memory object a wallet has just signed - while the spent
// output passed to WithTx is the one recorded in the model m. The statement says the
// engine records the spent output's value and script on the checked input, so what
// the object carried before must not matter.
func verifyCarrying(m ref.Tx, s int, ht int, afterGenesis bool, carry *ref.In) error {
	// The transaction handed to the engine carries no spent-output data of its own
	// (as a verifier holding the raw transaction would have it): the engine is
	// given the spent output separately and documents that it records it.
	bare := cloneModel(m)
	for i := range bare.In {
		bare.In[i].PrevScript, bare.In[i].PrevNil, bare.In[i].PrevSats = nil, true, 0
	}
	if carry != nil {
		bare.In[s].PrevScript, bare.In[s].PrevNil, bare.In[s].PrevSats = append(pbt.Hex{}, carry.PrevScript...), false, carry.PrevSats
	}
	tx := ref.ToLib(bare)
	prev := &bt.Output{Satoshis: m.In[s].PrevSats, LockingScript: bscript.NewFromBytes(ref.Canary(m.In[s].PrevScript))}
	opts := []interpreter.ExecutionOptionFunc{interpreter.WithTx(tx, s, prev)}
	// the other documented way to hand the same things over: the scripts through WithScripts, the
	// spent output carrying the value only (chosen by the shape of the case, so that replays agree)
	if carry == nil && tx.Inputs[s].UnlockingScript != nil && (len(m.In[s].Unlock)+len(m.In)+s)%3 == 0 {
		lockS := bscript.NewFromBytes(ref.Canary(m.In[s].PrevScript))
		opts = []interpreter.ExecutionOptionFunc{interpreter.WithTx(tx, s, &bt.Output{Satoshis: m.In[s].PrevSats}), interpreter.WithScripts(lockS, tx.Inputs[s].UnlockingScript)}
	}
	// the flags go in through one of the equivalent forms the options allow (ninth round): the named
	// options alone, one WithFlags, the named options before or behind a WithFlags carrying the rest
	var fl interp.Flags
	if ht&0x40 != 0 {
		fl |= interp.FlagForkID
	}
	if afterGenesis {
		fl |= interp.FlagAfterGenesis
	}
	switch form := (len(m.In[s].Unlock) + len(m.In) + len(m.Out) + s) % 4; form {
	case 0:
		if ht&0x40 != 0 {
			opts = append(opts, interpreter.WithForkID())
		}
		if afterGenesis {
			opts = append(opts, interpreter.WithAfterGenesis())
		}
	default:
		opts = append(opts, libexec.FlagOpts(fl, form-1)...)
	}
	// an engine is the caller's object and may have served other executions before - without a
	// transaction, or one that failed
	eng := interpreter.NewEngine()
	if (len(m.In[s].Unlock)+len(m.Out)+s)%2 == 0 {
		one := bscript.NewFromBytes([]byte{0x51})
		_ = eng.Execute(interpreter.WithScripts(one, bscript.NewFromBytes([]byte{0x51})))
		_ = eng.Execute(interpreter.WithScripts(bscript.NewFromBytes([]byte{0x00, 0x69}), one), interpreter.WithAfterGenesis())
	}
	// ... or a spend by a RELATED key: the same signature presented with the negated public key (same
	// X coordinate, other parity) against an output paying that key. It is rejected, as it must be;
	// what the process remembers about that key must not reach the verification that follows.
	if sig, key, ok := twoPushes(m.In[s].Unlock); ok && len(key) == 33 && (key[0] == 2 || key[0] == 3) && (len(m.In)+len(m.Out)+s)%2 == 1 {
		neg := append([]byte{key[0] ^ 1}, key[1:]...)
		rel := cloneModel(bare)
		rel.In[s].Unlock, rel.In[s].UnlockNil = append(push(sig), push(neg)...), false
		relOpts := []interpreter.ExecutionOptionFunc{interpreter.WithTx(ref.ToLib(rel), s, &bt.Output{Satoshis: m.In[s].PrevSats, LockingScript: bscript.NewFromBytes(p2pkh(neg))})}
		if ht&0x40 != 0 {
			relOpts = append(relOpts, interpreter.WithForkID())
		}
		if afterGenesis {
			relOpts = append(relOpts, interpreter.WithAfterGenesis())
		}
		if eng.Execute(relOpts...) == nil {
			return fmt.Errorf("a signature made by one key is accepted for the negated public key %x (output paying that key)", neg)
		}
	}
	return eng.Execute(opts...)
}

// ---- mutations and the commitment table ----------------------------------------

type mutation struct {
	class string // row of the commitment table
	at    int    // other input j / output k (or -1)
	m     ref.Tx // mutated transaction (signed input keeps its unlocking script)
	s     int    // index of the signed input in the mutated transaction
}

func flipBit(b []byte, salt uint64) []byte {
	o := append([]byte{}, b...)
	if len(o) == 0 {
		return []byte{byte(0x51 + salt%16)}
	}
	i := int(salt % uint64(len(o)))
	o[i] ^= 1 << ((salt >> 8) % 8)
	return o
}

func mutationsOf(c Case, sm ref.Tx) []mutation {
	s := c.Signed
	salt := c.Salt
	var out []mutation
	add := func(class string, at int, s2 int, f func(m *ref.Tx)) {
		m := cloneModel(sm)
		f(&m)
		out = append(out, mutation{class, at, m, s2})
	}
	b32 := func(k uint64) uint32 { return 1 << ((salt + k*7) % 32) }
	b64 := func(k uint64) uint64 { return 1 << ((salt + k*11) % 64) }

	add("version", -1, s, func(m *ref.Tx) { m.Version ^= b32(1) })
	add("locktime", -1, s, func(m *ref.Tx) { m.LockTime ^= b32(2) })
	add("own_txid", -1, s, func(m *ref.Tx) { m.In[s].TxID = flipBit(m.In[s].TxID, salt) })
	add("own_vout", -1, s, func(m *ref.Tx) { m.In[s].Vout ^= b32(3) })
	add("own_sequence", -1, s, func(m *ref.Tx) { m.In[s].Seq ^= b32(4) })
	add("spent_value", -1, s, func(m *ref.Tx) { m.In[s].PrevSats ^= b64(5) })
	add("spent_script", -1, s, func(m *ref.Tx) { m.In[s].PrevScript = append(m.In[s].PrevScript, 0x61) }) // + OP_NOP: still runs
	for j := range sm.In {
		if j == s {
			continue
		}
		j := j
		add("other_txid", j, s, func(m *ref.Tx) { m.In[j].TxID = flipBit(m.In[j].TxID, salt+uint64(j)) })
		add("other_vout", j, s, func(m *ref.Tx) { m.In[j].Vout ^= b32(6 + uint64(j)) })
		add("other_sequence", j, s, func(m *ref.Tx) { m.In[j].Seq ^= b32(7 + uint64(j)) })
		add("other_unlock", j, s, func(m *ref.Tx) {
			m.In[j].Unlock, m.In[j].UnlockNil = flipBit(m.In[j].Unlock, salt+uint64(j)), false
		})
		s2 := s
		if j < s {
			s2 = s - 1
		}
		add("input_removed", j, s2, func(m *ref.Tx) { m.In = append(m.In[:j:j], m.In[j+1:]...) })
	}
	add("input_appended", -1, s, func(m *ref.Tx) {
		var sb [8]byte
		binary.LittleEndian.PutUint64(sb[:], salt)
		m.In = append(m.In, ref.In{TxID: pbt.Hex(ref.Sha256d(sb[:])), Vout: uint32(salt >> 7), Seq: uint32(salt >> 13),
			Unlock: pbt.Hex{0x51}, PrevSats: salt >> 3, PrevScript: pbt.Hex{0x51}})
	})
	for k := range sm.Out {
		k := k
		add("output_value", k, s, func(m *ref.Tx) { m.Out[k].Sats ^= b64(8 + uint64(k)) })
		add("output_script", k, s, func(m *ref.Tx) { m.Out[k].Script = flipBit(m.Out[k].Script, salt+uint64(k)) })
		add("output_removed", k, s, func(m *ref.Tx) { m.Out = append(m.Out[:k:k], m.Out[k+1:]...) })
	}
	add("output_appended", -1, s, func(m *ref.Tx) {
		m.Out = append(m.Out, ref.Out{Sats: salt >> 5, Script: pbt.Hex{0x76, byte(salt), 0x88, 0xac}})
	})
	return out
}

// outView is what SIGHASH_SINGLE sees at position i: the serialised output, or
// nil when there is none.
func outView(outs []ref.Out, i int) []byte {
	if i >= len(outs) {
		return nil
	}
	o := outs[i]
	return append(binary.LittleEndian.AppendUint64([]byte{1}, o.Sats), o.Script...)
}

// committed is the commitment table: does hash type ht, under the digest
// algorithm it selects, commit to the part of the transaction / spent output
// that mutation mu changed? (Statement: ALL/NONE/SINGLE and ANYONECANPAY rules;
// spent value only under FORKID; legacy SINGLE commits to the output count
// idx+1 with earlier outputs blanked, and to nothing at all when idx >= #outputs.)
func committed(ht int, orig ref.Tx, s int, mu mutation) bool {
	forkid := ht&0x40 != 0
	acp := ht&0x80 != 0
	base := ht & 0x1f
	all, none, single := base == 1, base == 2, base == 3
	_ = none
	m0, m1 := len(orig.Out), len(mu.m.Out)

	if !forkid && single {
		bugBefore, bugAfter := s >= m0, mu.s >= m1
		if bugBefore && bugAfter {
			return false // the digest is the constant 1 before and after
		}
		if bugBefore != bugAfter {
			return true
		}
	}
	switch mu.class {
	case "version", "locktime", "own_txid", "own_vout", "own_sequence", "spent_script":
		return true
	case "spent_value":
		return forkid
	case "other_txid", "other_vout", "input_appended":
		return !acp
	case "other_sequence":
		return !acp && all
	case "other_unlock":
		return false
	case "input_removed":
		if !acp {
			return true
		}
		if !single || mu.s == s {
			return false
		}
		if forkid { // the signed input moved: SINGLE now pairs it with another output
			return !bytes.Equal(outView(orig.Out, s), outView(mu.m.Out, mu.s))
		}
		return true // legacy SINGLE commits to the output count idx+1
	case "output_value", "output_script":
		return all || (single && mu.at == s)
	case "output_appended":
		if all {
			return true
		}
		return single && forkid && s == m0 // an output comes into existence at the signed index
	case "output_removed":
		if all {
			return true
		}
		if !single {
			return false
		}
		return !bytes.Equal(outView(orig.Out, s), outView(mu.m.Out, mu.s))
	}
	panic("harness: unknown mutation class " + mu.class)
}

func harnessError(format string, a ...any) {
	fmt.Printf("HARNESS-ERROR C04 self-check: "+format+"\n", a...)
	os.Exit(2)
}

// nonMinimalPush reports whether a well-formed script uses a longer push form than necessary.
func nonMinimalPush(s []byte) bool {
	for i := 0; i < len(s); {
		op, n, h := s[i], 0, 1
		switch {
		case op >= 1 && op <= 75:
			n = int(op)
		case op == 0x4c && i+1 < len(s):
			n, h = int(s[i+1]), 2
			if n <= 75 {
				return true
			}
		case op == 0x4d && i+2 < len(s):
			n, h = int(s[i+1])|int(s[i+2])<<8, 3
			if n <= 255 {
				return true
			}
		case op == 0x4e && i+4 < len(s):
			n, h = int(s[i+1])|int(s[i+2])<<8|int(s[i+3])<<16|int(s[i+4])<<24, 5
			if n <= 65535 {
				return true
			}
		}
		i += h + n
	}
	return false
}

// ---- the check -----------------------------------------------------------------

func check(ctx *pbt.Ctx, c Case) error {
	priv, pub := bec.PrivKeyFromBytes(bec.S256(), c.Key)
	pubBytes := pub.SerialiseCompressed()
	s, ht := c.Signed, c.HashType
	flag := sighash.Flag(ht)
	want25 := p2pkh(pubBytes)
	spent := c.Tx.In[s].PrevScript
	if len(spent) < 25 || !bytes.Equal(spent[:25], want25) {
		harnessError("case outside the domain: signed input does not spend an output paying the key")
	}
	kind := "p2pkh"
	if len(spent) > 25 {
		kind = "inscription"
		if nonMinimalPush(spent[25:]) {
			ctx.Label("inscription_with_non_minimal_push")
		}
	}

	// ---- sign through the library's signing path only
	// the object that gets signed is built field by field, a clone, a clone of a clone or parsed
	// from the extended serialisation
	tx, via := ref.ToLibViaSalt(c.Tx, int(c.Salt>>3%4))
	ctx.Label("object=" + via)
	signedIdx := []int{s}
	var err error
	// The unlocker objects are the caller's and may have served another key before: in a third of
	// the cases they first sign a throw-away transaction with a different key, then get this
	// case's key assigned to their exported field.
	simple, getter := &unlocker.Simple{PrivateKey: priv}, &unlocker.Getter{PrivateKey: priv}
	if c.Salt%3 == 0 {
		var kb [32]byte
		binary.BigEndian.PutUint64(kb[24:], c.Salt|1)
		other, otherPub := bec.PrivKeyFromBytes(bec.S256(), kb[:])
		simple, getter = &unlocker.Simple{PrivateKey: other}, &unlocker.Getter{PrivateKey: other}
		warm := bt.NewTx()
		_ = warm.From("11"+strings.Repeat("00", 31), 0, hex.EncodeToString(p2pkh(otherPub.SerialiseCompressed())), 1000)
		_ = warm.From("22"+strings.Repeat("00", 31), 1, hex.EncodeToString(p2pkh(otherPub.SerialiseCompressed())), 1000)
		if werr := warm.FillAllInputs(context.Background(), getter); werr != nil {
			harnessError("warm-up FillAllInputs: %v", werr)
		}
		if werr := warm.FillInput(context.Background(), simple, bt.UnlockerParams{InputIdx: 0}); werr != nil {
			harnessError("warm-up FillInput: %v", werr)
		}
		simple.PrivateKey, getter.PrivateKey = priv, priv
		ctx.Label("unlocker_object_served_another_key_before")
	}
	switch c.Path {
	case "FillInput":
		if c.Salt%5 == 1 {
			// the same thing by hand: ask the unlocker for the script and install it
			us, uerr := simple.UnlockingScript(context.Background(), tx, bt.UnlockerParams{InputIdx: uint32(s), SigHashFlags: flag})
			if uerr != nil {
				return fmt.Errorf("Simple.UnlockingScript(%s, input %d) failed: %v", typeName(ht), s, uerr)
			}
			err = tx.InsertInputUnlockingScript(uint32(s), us)
			ctx.Label("signed_via_UnlockingScript+InsertInputUnlockingScript")
			break
		}
		err = tx.FillInput(context.Background(), simple, bt.UnlockerParams{InputIdx: uint32(s), SigHashFlags: flag})
	case "FillInputDefault":
		if ht != 0x41 {
			harnessError("FillInputDefault with type 0x%02x", ht)
		}
		if c.Salt%5 == 1 {
			us, uerr := simple.UnlockingScript(context.Background(), tx, bt.UnlockerParams{InputIdx: uint32(s)})
			if uerr != nil {
				return fmt.Errorf("Simple.UnlockingScript(default type, input %d) failed: %v", s, uerr)
			}
			err = tx.InsertInputUnlockingScript(uint32(s), us)
			ctx.Label("signed_via_UnlockingScript+InsertInputUnlockingScript(default)")
			break
		}
		err = tx.FillInput(context.Background(), simple, bt.UnlockerParams{InputIdx: uint32(s)})
	case "FillAllInputs":
		if ht != 0x41 {
			harnessError("FillAllInputs with type 0x%02x", ht)
		}
		err = tx.FillAllInputs(context.Background(), getter)
		signedIdx = signedIdx[:0]
		for i := range c.Tx.In {
			signedIdx = append(signedIdx, i)
		}
	default:
		harnessError("unknown path %q", c.Path)
	}
	if err != nil {
		return fmt.Errorf("%s(%s, input %d spending %s) failed: %v", c.Path, typeName(ht), s, kind, err)
	}
	sm := ref.FromLib(tx) // the transaction as the library left it
	// signing installs unlocking scripts on the signed inputs and nothing else: every other
	// field of the transaction the signature is for must still be what it was
	{
		isSigned := map[int]bool{}
		for _, i := range signedIdx {
			isSigned[i] = true
		}
		if sm.Version != c.Tx.Version || sm.LockTime != c.Tx.LockTime || len(sm.In) != len(c.Tx.In) || len(sm.Out) != len(c.Tx.Out) {
			return fmt.Errorf("signing via %s changed version/locktime/counts of the transaction", c.Path)
		}
		for i := range sm.Out {
			if sm.Out[i].Sats != c.Tx.Out[i].Sats || !bytes.Equal(sm.Out[i].Script, c.Tx.Out[i].Script) {
				return fmt.Errorf("signing input %d via %s with %s changed output %d of the transaction: %d/%x -> %d/%x", s, c.Path, typeName(ht), i,
					c.Tx.Out[i].Sats, []byte(c.Tx.Out[i].Script), sm.Out[i].Sats, []byte(sm.Out[i].Script))
			}
		}
		for i := range sm.In {
			a, b := c.Tx.In[i], sm.In[i]
			if !bytes.Equal(a.TxID, b.TxID) || a.Vout != b.Vout || a.Seq != b.Seq || a.PrevSats != b.PrevSats || !bytes.Equal(a.PrevScript, b.PrevScript) {
				return fmt.Errorf("signing input %d via %s with %s changed outpoint/sequence/spent output of input %d", s, c.Path, typeName(ht), i)
			}
			if !isSigned[i] && !bytes.Equal(a.Unlock, b.Unlock) {
				return fmt.Errorf("signing input %d via %s changed the unlocking script of input %d, which was not signed", s, c.Path, i)
			}
		}
	}
	era := "pre-genesis"
	if c.AfterGenesis {
		era = "after-genesis"
	}

	// ---- part 1: the interpreter accepts every input that was signed
	for _, i := range signedIdx {
		own := sm.In[i]
		if verr := verifyCarrying(sm, i, ht, c.AfterGenesis, &own); verr != nil {
			return fmt.Errorf("input %d signed via %s with %s is rejected when the signed in-memory object is verified: %v", i, c.Path, typeName(ht), verr)
		}
		if verr := verify(sm, i, ht, c.AfterGenesis); verr != nil {
			return fmt.Errorf("input %d signed via %s with %s (spending %s, %s, %d inputs, %d outputs) is rejected by the interpreter: %v",
				i, c.Path, typeName(ht), kind, era, len(sm.In), len(sm.Out), verr)
		}
		// 1b: the signature is <sig+type> <pubkey>, carries the requested type and is a
		// valid ECDSA signature over the digest the specification defines for that type
		sigT, pk, ok := twoPushes(sm.In[i].Unlock)
		if !ok || len(sigT) < 9 {
			return fmt.Errorf("input %d: unlocking script %x is not <signature> <public key>", i, sm.In[i].Unlock)
		}
		if !bytes.Equal(pk, pubBytes) {
			return fmt.Errorf("input %d: unlocking script carries public key %x, signer's key is %x", i, pk, pubBytes)
		}
		if int(sigT[len(sigT)-1]) != ht {
			return fmt.Errorf("input %d signed via %s with %s: signature carries hash type 0x%02x, requested 0x%02x", i, c.Path, typeName(ht), sigT[len(sigT)-1], ht)
		}
		sig, perr := bec.ParseDERSignature(sigT[:len(sigT)-1], bec.S256())
		if perr != nil {
			return fmt.Errorf("input %d: signature %x is not DER: %v", i, sigT, perr)
		}
		// VERIF_C04_SKIP_1B=1 switches this sub-oracle off - used only in sensitivity
		// experiments to show that part 2 detects a mutant on its own.
		if os.Getenv("VERIF_C04_SKIP_1B") == "" && !sig.Verify(refDigest(sm, i, ht), pub) {
			return fmt.Errorf("input %d signed via %s with %s: signature does not verify against the specified digest %x (reference) for that hash type",
				i, c.Path, typeName(ht), refDigest(sm, i, ht))
		}
	}

	// ---- part 1c: sign, edit the same object in place, sign again. The new signature is made
	// for the transaction as it now stands and must be accepted for it.
	if c.Path == "FillInput" {
		tx2 := tx // the very object that was just signed
		salt := c.Salt
		switch salt % 4 {
		case 0:
			if len(tx2.Outputs) > 0 {
				tx2.Outputs[int(salt/4)%len(tx2.Outputs)].Satoshis ^= 1 << (salt % 40)
			}
		case 1:
			if len(tx2.Outputs) > 0 {
				o := tx2.Outputs[int(salt/4)%len(tx2.Outputs)]
				ns := append(append([]byte{}, *o.LockingScript...), 0x61)
				o.LockingScript = bscript.NewFromBytes(ns)
			}
		case 2:
			tx2.Inputs[int(salt/4)%len(tx2.Inputs)].SequenceNumber ^= 1 << (salt % 31)
		default:
			j := int(salt/4) % len(tx2.Inputs)
			tx2.Inputs[j].PreviousTxOutIndex ^= 1 << (salt % 31)
		}
		if err := tx2.FillInput(context.Background(), &unlocker.Simple{PrivateKey: priv}, bt.UnlockerParams{InputIdx: uint32(s), SigHashFlags: flag}); err != nil {
			return fmt.Errorf("re-signing input %d after an in-place edit failed: %v", s, err)
		}
		sm2 := ref.FromLib(tx2)
		if verr := verify(sm2, s, ht, c.AfterGenesis); verr != nil {
			return fmt.Errorf("input %d re-signed via FillInput with %s after an in-place edit (class %d) of the same transaction object is rejected for the transaction as it now stands: %v",
				s, typeName(ht), salt%4, verr)
		}
		ctx.Label("resigned_after_edit")
	}

	// ---- part 1d: several signatures on one object. After all inputs were signed, one of them
	// is signed again with another FORKID type; every input must still be accepted (no type
	// commits to another input's unlocking script), the re-signed one under its new type.
	if c.Path == "FillAllInputs" && len(tx.Inputs) >= 2 {
		j := int(c.Salt/7) % len(tx.Inputs)
		ht2 := []int{0x41, 0x42, 0x43, 0xc1, 0xc2, 0xc3}[int(c.Salt/3)%6]
		if err := tx.FillInput(context.Background(), &unlocker.Simple{PrivateKey: priv}, bt.UnlockerParams{InputIdx: uint32(j), SigHashFlags: sighash.Flag(ht2)}); err != nil {
			return fmt.Errorf("signing input %d again with %s after FillAllInputs failed: %v", j, typeName(ht2), err)
		}
		sm3 := ref.FromLib(tx)
		for i := range sm3.In {
			h := 0x41
			if i == j {
				h = ht2
			}
			if verr := verify(sm3, i, h, c.AfterGenesis); verr != nil {
				return fmt.Errorf("after FillAllInputs and signing input %d again with %s, input %d (%s) of the same object is rejected: %v", j, typeName(ht2), i, typeName(h), verr)
			}
		}
		ctx.Label("resigned_one_of_all")
	}

	// ---- part 2: coverage. One mutation at a time, same unlocking script.
	d0 := refDigest(sm, s, ht)
	sawStillValid := false
	seen := map[string]bool{}
	for _, mu := range mutationsOf(c, sm) {
		want := committed(ht, sm, s, mu)
		d1 := refDigest(mu.m, mu.s, ht)
		if changed := !bytes.Equal(d0, d1); changed != want {
			harnessError("commitment table says committed=%v for %s[%d] under %s (signed %d, %d in, %d out) but the reference digest changed=%v",
				want, mu.class, mu.at, typeName(ht), s, len(sm.In), len(sm.Out), changed)
		}
		verr := verify(mu.m, mu.s, ht, c.AfterGenesis)
		if mu.class == "spent_value" || mu.class == "spent_script" {
			// same mutation, but the object handed to the engine is the one that was signed
			// (it still carries the original spent output): the verdict must not depend on it
			orig := sm.In[s]
			verr2 := verifyCarrying(mu.m, mu.s, ht, c.AfterGenesis, &orig)
			if (verr == nil) != (verr2 == nil) {
				return fmt.Errorf("%s, mutation %s of the spent output: a bare transaction object gives %v, the object that still carries the signing-time spent output gives %v (input %d, %s, %s)",
					typeName(ht), mu.class, verr, verr2, s, kind, era)
			}
		}
		mutations.Add(1)
		switch {
		case want && verr == nil:
			return fmt.Errorf("%s commits to %s, but after mutating %s[%d] the signed input %d (now %d; %s, %s, via %s; %d inputs, %d outputs) still verifies",
				typeName(ht), mu.class, mu.class, mu.at, s, mu.s, kind, era, c.Path, len(sm.In), len(sm.Out))
		case !want && verr != nil:
			return fmt.Errorf("%s does not commit to %s, but after mutating %s[%d] the signed input %d (now %d; %s, %s, via %s; %d inputs, %d outputs) is rejected: %v",
				typeName(ht), mu.class, mu.class, mu.at, s, mu.s, kind, era, c.Path, len(sm.In), len(sm.Out), verr)
		}
		l := "mut:" + mu.class + "=invalid"
		if !want {
			l = "mut:" + mu.class + "=still_valid"
			sawStillValid = true
			stillOK.Add(1)
		}
		if !seen[l] {
			seen[l] = true
			ctx.Label(l)
		}
	}

	ctx.Label("type=" + typeName(ht))
	ctx.Label(era)
	ctx.Label("path=" + c.Path)
	ctx.Label("spent=" + kind)
	ctx.Labelf("nin=%d", len(sm.In))
	ctx.Labelf("nout=%d", len(sm.Out))
	if ht&0x40 == 0 && ht&0x1f == 3 && s >= len(sm.Out) {
		ctx.Label("legacy_single_bug_shape")
	}
	if ht&0x1f == 3 && s >= len(sm.Out) {
		ctx.Label("single_without_output")
	}
	if ht != 0x41 || (len(sm.In) >= 2 && s > 0) || sawStillValid {
		ctx.NonTrivial()
	}
	ctx.Key(ref.Sha256d(ref.Encode(c.Tx, true)), c.Key, []byte{byte(ht), byte(s)}, []byte(c.Path))
	return nil
}

// ---- generator -----------------------------------------------------------------

var types = []int{0x41, 0x42, 0x43, 0xc1, 0xc2, 0xc3, 0x01, 0x02, 0x03, 0x81, 0x82, 0x83}

// secp256k1 group order
var orderN = []byte{0xff, 0xff, 0xff, 0xff, 0xff, 0xff, 0xff, 0xff, 0xff, 0xff, 0xff, 0xff, 0xff, 0xff, 0xff, 0xfe,
	0xba, 0xae, 0xdc, 0xe6, 0xaf, 0x48, 0xa0, 0x3b, 0xbf, 0xd2, 0x5e, 0x8c, 0xd0, 0x36, 0x41, 0x41}

func genKey(t *rapid.T) []byte {
	var k []byte
	switch rapid.IntRange(0, 9).Draw(t, "key_kind") {
	case 0:
		k = make([]byte, 32)
		k[31] = byte(rapid.IntRange(1, 3).Draw(t, "key_small"))
	case 1: // N-1, N-2, ...
		k = append([]byte{}, orderN...)
		k[31] -= byte(rapid.IntRange(1, 3).Draw(t, "key_top"))
	default:
		k = gen.Bytes(t, 32, "key")
	}
	zero := true
	for _, b := range k {
		if b != 0 {
			zero = false
		}
	}
	if zero || bytes.Compare(k, orderN) >= 0 { // repair instead of rejecting
		k[0] = 0
		k[31] |= 1
	}
	return k
}

func genCase(t *rapid.T) Case {
	key := genKey(t)
	_, pub := bec.PrivKeyFromBytes(bec.S256(), key)
	pubBytes := pub.SerialiseCompressed()

	c := Case{Key: key, AfterGenesis: rapid.Bool().Draw(t, "after_genesis"), Salt: gen.U64(t, "salt")}
	c.HashType = rapid.SampledFrom(types).Draw(t, "type")
	c.Path = "FillInput"
	if c.HashType == 0x41 {
		c.Path = rapid.SampledFrom([]string{"FillInput", "FillInputDefault", "FillAllInputs"}).Draw(t, "path")
	}
	nin := rapid.IntRange(1, 5).Draw(t, "nin")
	nout := rapid.IntRange(0, 5).Draw(t, "nout")
	c.Signed = rapid.IntRange(0, nin-1).Draw(t, "signed")

	payTo := func(label string) pbt.Hex {
		if rapid.IntRange(0, 2).Draw(t, label+"_kind") != 0 {
			return p2pkh(pubBytes)
		}
		max := 600
		if !c.AfterGenesis {
			max = 520 // pre-Genesis element limit applies to pushes in unexecuted branches too
		}
		ct := gen.Bytes(t, rapid.IntRange(1, 30).Draw(t, label+"_ctlen"), label+"_ct")
		dl := gen.EdgeLen(t, max, label+"_dlen", 1, 2, 75, 76, 255, 256, 520, 521, 600)
		if dl == 0 {
			dl = 1
		}
		forms := 0
		if rapid.IntRange(0, 3).Draw(t, label+"_pushforms") == 0 {
			forms = rapid.IntRange(1, 63).Draw(t, label+"_forms")
		}
		ins := inscription(pubBytes, ct, gen.FillBytes(t, dl, label+"_data"), forms)
		// enriched form: ... OP_ENDIF OP_RETURN <items>; a top-level OP_RETURN only succeeds after genesis
		if c.AfterGenesis && rapid.IntRange(0, 2).Draw(t, label+"_enrich") == 0 {
			ins = append(ins, 0x6a)
			for k := rapid.IntRange(0, 3).Draw(t, label+"_nret"); k > 0; k-- {
				ins = append(ins, push(gen.Bytes(t, rapid.IntRange(1, 4).Draw(t, label+"_retlen"), label+"_ret"))...)
			}
		}
		return ins
	}

	m := ref.Tx{Version: gen.U32(t, "version"), LockTime: gen.U32(t, "locktime")}
	for i := 0; i < nin; i++ {
		in := ref.In{TxID: pbt.Hex(gen.Bytes(t, 32, "txid")), Vout: gen.U32(t, "vout"), Seq: gen.U32(t, "seq"), PrevSats: gen.U64(t, "prevsats")}
		mine := i == c.Signed || c.Path == "FillAllInputs" || rapid.IntRange(0, 3).Draw(t, "mine") == 0
		if mine {
			in.PrevScript = payTo("spent")
		} else {
			in.PrevScript = gen.Bytes(t, rapid.IntRange(0, 40).Draw(t, "plen"), "prevscript")
		}
		switch rapid.IntRange(0, 2).Draw(t, "unlock_kind") {
		case 0:
			in.UnlockNil = true
		default:
			in.Unlock = gen.Bytes(t, rapid.IntRange(0, 40).Draw(t, "ulen"), "unlock")
		}
		m.In = append(m.In, in)
	}
	for i := 0; i < nout; i++ {
		o := ref.Out{Sats: gen.U64(t, "sats")}
		switch rapid.IntRange(0, 3).Draw(t, "out_kind") {
		case 0:
			o.Script = p2pkh(pubBytes)
		case 1:
			if i > 0 { // duplicate of the previous output (exercises the "same output after a shift" rows)
				o = ref.Out{Sats: m.Out[i-1].Sats, Script: append(pbt.Hex{}, m.Out[i-1].Script...)}
				break
			}
			fallthrough
		default:
			o.Script = gen.Bytes(t, rapid.IntRange(0, 40).Draw(t, "olen"), "oscript")
		}
		m.Out = append(m.Out, o)
	}
	c.Tx = m
	return c
}

func TestSignVerifyCommit(t *testing.T) {
	pbt.Run(t, pbt.Sub[Case]{
		Name: subName, Quick: 24000, Thorough: 240000,
		Gen:   genCase,
		Check: check,
	})
	pbt.SetExtra(subName, "sum_mutations_executed", mutations.Load())
	pbt.SetExtra(subName, "sum_mutations_expected_still_valid", stillOK.Load())
}
