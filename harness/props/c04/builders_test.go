package c04

import (
	"context"
	"encoding/hex"
	"fmt"
	"testing"

	"github.com/libsv/go-bk/bec"
	"github.com/libsv/go-bt/v2"
	"github.com/libsv/go-bt/v2/bscript"
	"github.com/libsv/go-bt/v2/bscript/interpreter"
	"github.com/libsv/go-bt/v2/sighash"
	"github.com/libsv/go-bt/v2/unlocker"
	"pgregory.net/rapid"

	"verif/harness/gen"
	"verif/harness/pbt"
)

// ---------------------------------------------------------------------------
// sub-check: builders. The main sub-check hands the library a transaction
// object built field by field. A wallet builds it through the library: the
// inputs come from the exported helpers (From, FromUTXOs,
// AddP2PKHInputsFromTx over a previous transaction), a placeholder unlocking
// script may sit on the inputs while fees are estimated - one object for all
// of them, or one each - and then FillAllInputs / FillInput sign. Every input
// signed that way must be accepted by the interpreter when it is checked
// against the REAL previous output (script and value taken from the previous
// transaction, not from what the helpers recorded on the input), on a
// transaction object parsed from the signed bytes.
// ---------------------------------------------------------------------------

// BOut is one output of the previous transaction.
type BOut struct {
	Kind   int     `json:"kind"` // 0 P2PKH to the key, 1 inscription to the key, 2 P2PKH to another key, 3 other script
	Sats   uint64  `json:"sats"`
	CT     pbt.Hex `json:"ct,omitempty"`
	Data   pbt.Hex `json:"data,omitempty"`
	Forms  int     `json:"forms,omitempty"`
	Script pbt.Hex `json:"script,omitempty"`
}

// BCase is one wallet session.
type BCase struct {
	Key          pbt.Hex `json:"key"`
	Prev         []BOut  `json:"prev"`
	Via          int     `json:"via"`         // 0 AddP2PKHInputsFromTx, 1 From (hex strings), 2 FromUTXOs
	Placeholder  int     `json:"placeholder"` // 0 none, 1 one shared 107-byte script object on all inputs, 2 one object each
	SignAll      bool    `json:"sign_all"`    // FillAllInputs with a Getter; otherwise FillInput per input
	HashTypes    []int   `json:"hash_types"`  // per input when signing one by one (FORKID types)
	NOut         int     `json:"nout"`
	AfterGenesis bool    `json:"after_genesis"`
	Salt         uint64  `json:"salt"`
}

func (c BCase) script(o BOut, pub []byte) []byte {
	switch o.Kind {
	case 0:
		return p2pkh(pub)
	case 1:
		return inscription(pub, o.CT, o.Data, o.Forms)
	case 2:
		other := append([]byte{}, pub...)
		other[5] ^= 0x40
		return p2pkh(other)
	}
	return append([]byte{}, o.Script...)
}

func checkBuilders(ctx *pbt.Ctx, c BCase) error {
	if len(c.Key) != 32 || len(c.Prev) == 0 || len(c.Prev) > 8 || c.NOut < 0 || c.NOut > 4 {
		ctx.Discard("malformed case")
		return nil
	}
	priv, pub := bec.PrivKeyFromBytes(bec.S256(), c.Key)
	pubBytes := pub.SerialiseCompressed()
	// the previous transaction
	prevTx := bt.NewTx()
	_ = prevTx.From(hex.EncodeToString(make([]byte, 31))+fmt.Sprintf("%02x", byte(c.Salt)|1), uint32(c.Salt%7), "51", 1<<40)
	type real struct {
		script []byte
		sats   uint64
	}
	var reals []real
	mine := 0
	for _, o := range c.Prev {
		s := c.script(o, pubBytes)
		prevTx.AddOutput(&bt.Output{Satoshis: o.Sats, LockingScript: bscript.NewFromBytes(append([]byte{}, s...))})
		reals = append(reals, real{s, o.Sats})
		if o.Kind <= 1 {
			mine++
		}
	}
	if mine == 0 {
		ctx.Discard("nothing pays the key")
		return nil
	}
	prevID := prevTx.TxID()
	// the spending transaction, inputs through the library
	tx := bt.NewTx()
	var spent []int // index into reals per input
	switch c.Via {
	case 0:
		// AddP2PKHInputsFromTx asks every output for its key hash; an output without one is an error
		for _, o := range c.Prev {
			if o.Kind == 3 {
				ctx.Discard("previous transaction has an output without a key hash")
				return nil
			}
		}
		if err := tx.AddP2PKHInputsFromTx(prevTx, pubBytes); err != nil {
			return fmt.Errorf("AddP2PKHInputsFromTx failed: %v", err)
		}
		for i, o := range c.Prev {
			if o.Kind <= 1 {
				spent = append(spent, i)
			}
		}
	case 1:
		for i, o := range c.Prev {
			if o.Kind <= 1 {
				if err := tx.From(prevID, uint32(i), hex.EncodeToString(reals[i].script), o.Sats); err != nil {
					return fmt.Errorf("From failed: %v", err)
				}
				spent = append(spent, i)
			}
		}
	default:
		idb, _ := hex.DecodeString(prevID)
		for i, o := range c.Prev {
			if o.Kind <= 1 {
				if err := tx.FromUTXOs(&bt.UTXO{TxID: idb, Vout: uint32(i), Satoshis: o.Sats, LockingScript: bscript.NewFromBytes(append([]byte{}, reals[i].script...))}); err != nil {
					return fmt.Errorf("FromUTXOs failed: %v", err)
				}
				spent = append(spent, i)
			}
		}
	}
	if len(tx.Inputs) != len(spent) {
		return fmt.Errorf("the input helpers added %d inputs for %d outputs paying the key", len(tx.Inputs), len(spent))
	}
	for k := 0; k < c.NOut; k++ {
		tx.AddOutput(&bt.Output{Satoshis: 1 + uint64(k), LockingScript: bscript.NewFromBytes(p2pkh(pubBytes))})
	}
	// a placeholder while fees are estimated
	switch c.Placeholder {
	case 1:
		ph := bscript.NewFromBytes(make([]byte, 107))
		for _, in := range tx.Inputs {
			in.UnlockingScript = ph
		}
	case 2:
		for _, in := range tx.Inputs {
			in.UnlockingScript = bscript.NewFromBytes(make([]byte, 107))
		}
	}
	if c.Placeholder != 0 {
		_, _ = tx.EstimateSizeWithTypes()
	}
	// signing
	types := make([]int, len(tx.Inputs))
	if c.SignAll {
		for i := range types {
			types[i] = 0x41
		}
		if err := tx.FillAllInputs(context.Background(), &unlocker.Getter{PrivateKey: priv}); err != nil {
			return fmt.Errorf("FillAllInputs failed: %v", err)
		}
	} else {
		simple := &unlocker.Simple{PrivateKey: priv}
		for i := range tx.Inputs {
			ht := 0x41
			if i < len(c.HashTypes) {
				ht = c.HashTypes[i]&0x83 | 0x40
				if ht&0x1f == 0 {
					ht |= 1
				}
			}
			types[i] = ht
			if err := tx.FillInput(context.Background(), simple, bt.UnlockerParams{InputIdx: uint32(i), SigHashFlags: sighash.Flag(ht)}); err != nil {
				return fmt.Errorf("FillInput(%d, %s) failed: %v", i, typeName(ht), err)
			}
		}
	}
	// verification against the real previous outputs, on an object parsed from the signed bytes
	raw := tx.Bytes()
	for i := range tx.Inputs {
		parsed, err := bt.NewTxFromBytes(raw)
		if err != nil {
			return fmt.Errorf("the signed transaction does not parse: %v", err)
		}
		r := reals[spent[i]]
		if c.Prev[spent[i]].Kind == 1 && !c.AfterGenesis && (len(c.Prev[spent[i]].Data) > 520 || len(c.Prev[spent[i]].CT) > 520) {
			continue
		}
		opts := []interpreter.ExecutionOptionFunc{interpreter.WithTx(parsed, i, &bt.Output{Satoshis: r.sats, LockingScript: bscript.NewFromBytes(append([]byte{}, r.script...))}), interpreter.WithForkID()}
		if c.AfterGenesis {
			opts = append(opts, interpreter.WithAfterGenesis())
		}
		if err := interpreter.NewEngine().Execute(opts...); err != nil {
			return fmt.Errorf("input %d of %d (spending output %d of the previous transaction, a %s output; inputs added through %s, placeholder mode %d, signed with %s through %s) is rejected against the real previous output: %v\n previous script %x\n unlocking script %x",
				i, len(tx.Inputs), spent[i], []string{"P2PKH", "P2PKH-inscription"}[c.Prev[spent[i]].Kind], []string{"AddP2PKHInputsFromTx", "From", "FromUTXOs"}[c.Via], c.Placeholder,
				typeName(types[i]), map[bool]string{true: "FillAllInputs", false: "FillInput"}[c.SignAll], err, r.script, []byte(*parsed.Inputs[i].UnlockingScript))
		}
		ctx.Label("spent=" + []string{"p2pkh", "inscription"}[c.Prev[spent[i]].Kind])
	}
	ctx.Label("via=" + []string{"AddP2PKHInputsFromTx", "From", "FromUTXOs"}[c.Via])
	ctx.Labelf("placeholder=%d", c.Placeholder)
	ctx.Labelf("inputs=%d", min(len(tx.Inputs), 4))
	if len(tx.Inputs) >= 2 {
		ctx.NonTrivial()
	}
	return nil
}

func TestBuilders(t *testing.T) {
	pbt.Run(t, pbt.Sub[BCase]{
		Name: "builders", Quick: 24000, Thorough: 400000,
		Gen: func(t *rapid.T) BCase {
			c := BCase{Key: genKey(t), Via: rapid.IntRange(0, 2).Draw(t, "via"), Placeholder: rapid.IntRange(0, 2).Draw(t, "placeholder"),
				SignAll: rapid.Bool().Draw(t, "sign_all"), NOut: rapid.IntRange(0, 4).Draw(t, "nout"), AfterGenesis: rapid.Bool().Draw(t, "genesis"), Salt: rapid.Uint64().Draw(t, "salt")}
			n := rapid.IntRange(1, 5).Draw(t, "nprev")
			for i := 0; i < n; i++ {
				o := BOut{Kind: rapid.SampledFrom([]int{0, 0, 1, 1, 2, 3}).Draw(t, "kind"), Sats: gen.U64(t, "sats") % (1 << 50)}
				switch o.Kind {
				case 1:
					o.CT = gen.Bytes(t, rapid.IntRange(1, 30).Draw(t, "ctlen"), "ct")
					o.Data = gen.FillBytes(t, rapid.SampledFrom([]int{1, 2, 75, 76, 255, 256, 520}).Draw(t, "dlen"), "data")
					if rapid.IntRange(0, 3).Draw(t, "forms") == 0 {
						o.Forms = rapid.IntRange(1, 63).Draw(t, "forms_v")
					}
				case 3:
					o.Script = gen.Bytes(t, rapid.IntRange(0, 30).Draw(t, "slen"), "script")
				}
				c.Prev = append(c.Prev, o)
				c.HashTypes = append(c.HashTypes, rapid.SampledFrom([]int{0x41, 0x41, 0x42, 0x43, 0xc1, 0xc2, 0xc3}).Draw(t, "ht"))
			}
			return c
		},
		Check: checkBuilders,
	})
}
