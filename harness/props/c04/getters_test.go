package c04

import (
	"bytes"
	"context"
	"fmt"
	"testing"

	"github.com/libsv/go-bk/bec"
	"github.com/libsv/go-bt/v2"
	"github.com/libsv/go-bt/v2/bscript"
	"github.com/libsv/go-bt/v2/bscript/interpreter"
	"github.com/libsv/go-bt/v2/sighash"
	"github.com/libsv/go-bt/v2/unlocker"
	"pgregory.net/rapid"

	"verif/harness/gen"
	"verif/harness/pbt"
)

// ---------------------------------------------------------------------------
// sub-check: getters (ninth round). FillAllInputs takes an UnlockerGetter, an interface the caller
// implements: it is asked for an unlocker per input (by the spent locking script) and the unlocker
// produces the script. A wallet that holds several keys, or only some of the keys a transaction
// spends from, answers with a different unlocker per input - the library's unlocker.Simple for a
// key it holds, one that declines (nil script, nil error: "not mine") for a foreign input, one that
// wraps unlocker.Simple. Whatever the mixture: every input that WAS signed through the library's
// signing path is accepted by the interpreter against its real spent output. Nothing is asserted
// about the declined inputs.
// ---------------------------------------------------------------------------

// GIn is one input of the session.
type GIn struct {
	Owner int     `json:"owner"` // index into Keys; -1: a foreign output, the getter's unlocker declines
	Insc  bool    `json:"insc"`  // the spent output is a P2PKH inscription
	Wrap  bool    `json:"wrap"`  // the unlocker is a caller's type delegating to unlocker.Simple
	HSM   bool    `json:"hsm"`   // (tenth round) a caller's unlocker that signs itself and assembles the script with bscript.NewP2PKHUnlockingScript
	Sats  uint64  `json:"sats"`
	Data  pbt.Hex `json:"data,omitempty"`
}

// GCase is one signing session with a caller-implemented getter.
type GCase struct {
	Keys []pbt.Hex `json:"keys"`
	Ins  []GIn     `json:"ins"`
	NOut int       `json:"nout"`
	// (tenth round) all UTXOs of one owner hand ONE locking-script object to FromUTXOs (a wallet that
	// keeps one script per address); Types, when set, are signed per input through FillInput (legacy
	// types without the FORKID bit included) instead of FillAllInputs
	ShareLock bool  `json:"sharelock"`
	Types     []int `json:"types,omitempty"`
}

type decliner struct{}

func (decliner) UnlockingScript(context.Context, *bt.Tx, bt.UnlockerParams) (*bscript.Script, error) {
	return nil, nil
}

type wrapper struct{ inner bt.Unlocker }

func (w wrapper) UnlockingScript(ctx context.Context, tx *bt.Tx, up bt.UnlockerParams) (*bscript.Script, error) {
	return w.inner.UnlockingScript(ctx, tx, up)
}

// hsmUnlocker is what a signer outside the library looks like: it asks the transaction for the
// digest, signs, and lets the library's exported helper assemble the unlocking script. Signature and
// public key live next to each other in one buffer, as a device would return them.
type hsmUnlocker struct {
	priv   *bec.PrivateKey
	damage *string
}

func (h hsmUnlocker) UnlockingScript(_ context.Context, tx *bt.Tx, up bt.UnlockerParams) (*bscript.Script, error) {
	if up.SigHashFlags == 0 {
		up.SigHashFlags = sighash.AllForkID
	}
	sh, err := tx.CalcInputSignatureHash(up.InputIdx, up.SigHashFlags)
	if err != nil {
		return nil, err
	}
	sig, err := h.priv.Sign(sh)
	if err != nil {
		return nil, err
	}
	der, pub := sig.Serialise(), h.priv.PubKey().SerialiseCompressed()
	buf := append(append(make([]byte, 0, len(der)+len(pub)+8), der...), pub...)
	buf = append(buf, 0xc5, 0x3a, 0x96, 0x69, 0x5c, 0xa3, 0x0f, 0xf0)
	sigW, pubW := buf[:len(der)], buf[len(der):len(der)+len(pub)] // windows: the signature's capacity runs over the key
	s, err := bscript.NewP2PKHUnlockingScript(pubW, sigW, up.SigHashFlags)
	if !bytes.Equal(buf[:len(der)], der) || !bytes.Equal(buf[len(der):len(der)+len(pub)], pub) || !bytes.Equal(buf[len(der)+len(pub):], []byte{0xc5, 0x3a, 0x96, 0x69, 0x5c, 0xa3, 0x0f, 0xf0}) {
		*h.damage = fmt.Sprintf("bscript.NewP2PKHUnlockingScript changed the buffer holding its arguments (signature||key||tail): %x became %x", append(append(append([]byte{}, der...), pub...), 0xc5), buf)
	}
	return s, err
}

type walletGetter struct {
	byScript map[string]bt.Unlocker
	asked    int
}

func (g *walletGetter) Unlocker(_ context.Context, ls *bscript.Script) (bt.Unlocker, error) {
	g.asked++
	if ls != nil {
		if u, ok := g.byScript[string(*ls)]; ok {
			return u, nil
		}
	}
	return decliner{}, nil
}

func checkGetters(ctx *pbt.Ctx, c GCase) error {
	if len(c.Keys) == 0 || len(c.Keys) > 4 || len(c.Ins) == 0 || len(c.Ins) > 8 || c.NOut < 0 || c.NOut > 3 {
		ctx.Discard("malformed case")
		return nil
	}
	var privs []*bec.PrivateKey
	var pubs [][]byte
	for _, k := range c.Keys {
		if len(k) != 32 {
			ctx.Discard("malformed key")
			return nil
		}
		p, q := bec.PrivKeyFromBytes(bec.S256(), k)
		privs, pubs = append(privs, p), append(pubs, q.SerialiseCompressed())
	}
	foreign := bytes.Repeat([]byte{0x42}, 33)
	foreign[0] = 2
	g := &walletGetter{byScript: map[string]bt.Unlocker{}}
	tx := bt.NewTx()
	var scripts [][]byte
	shared := map[string]*bscript.Script{}
	sharedUsed := false
	damage := ""
	signed, declinedBeforeSigned := 0, false
	seenDecline := false
	for i, in := range c.Ins {
		if in.Owner >= len(c.Keys) || in.Owner < -1 {
			ctx.Discard("malformed owner")
			return nil
		}
		pub := foreign
		if in.Owner >= 0 {
			pub = pubs[in.Owner]
		}
		var ls []byte
		if in.Insc {
			ls = inscription(pub, []byte("text/plain"), append([]byte{byte(i)}, in.Data...), 0)
		} else {
			// distinct scripts per input of one owner are not needed: the getter answers by script
			ls = p2pkh(pub)
		}
		scripts = append(scripts, ls)
		id := make([]byte, 32)
		id[0], id[31] = byte(i+1), 0x33
		lsObj := bscript.NewFromBytes(append([]byte{}, ls...))
		if c.ShareLock {
			if o, ok := shared[string(ls)]; ok {
				lsObj = o
				sharedUsed = true
			} else {
				shared[string(ls)] = lsObj
			}
		}
		if err := tx.FromUTXOs(&bt.UTXO{TxID: id, Vout: uint32(i), Satoshis: in.Sats, LockingScript: lsObj}); err != nil {
			return fmt.Errorf("FromUTXOs failed: %v", err)
		}
		if in.Owner >= 0 {
			var u bt.Unlocker = &unlocker.Simple{PrivateKey: privs[in.Owner]}
			if in.HSM {
				u = hsmUnlocker{privs[in.Owner], &damage}
			}
			if in.Wrap {
				u = wrapper{u}
			}
			g.byScript[string(ls)] = u
			signed++
			if seenDecline {
				declinedBeforeSigned = true
			}
		} else {
			seenDecline = true
		}
	}
	if signed == 0 {
		ctx.Discard("nothing to sign")
		return nil
	}
	for k := 0; k < c.NOut; k++ {
		tx.AddOutput(&bt.Output{Satoshis: 1 + uint64(k), LockingScript: bscript.NewFromBytes(p2pkh(pubs[0]))})
	}
	types := make([]int, len(c.Ins))
	for i := range types {
		types[i] = 0x41
	}
	if len(c.Types) == 0 {
		if err := tx.FillAllInputs(context.Background(), g); err != nil {
			return fmt.Errorf("FillAllInputs with a getter that signs %d of %d inputs failed: %v", signed, len(c.Ins), err)
		}
		if g.asked != len(c.Ins) {
			return fmt.Errorf("FillAllInputs asked the getter %d times for %d inputs", g.asked, len(c.Ins))
		}
	} else {
		for i, in := range c.Ins {
			if in.Owner < 0 {
				continue
			}
			ht := c.Types[i%len(c.Types)] & 0xc3
			if ht&0x03 == 0 {
				ht |= 1
			}
			types[i] = ht
			u, _ := g.Unlocker(context.Background(), tx.Inputs[i].PreviousTxScript)
			if err := tx.FillInput(context.Background(), u, bt.UnlockerParams{InputIdx: uint32(i), SigHashFlags: sighash.Flag(ht)}); err != nil {
				return fmt.Errorf("FillInput(%d, %s) failed: %v", i, typeName(ht), err)
			}
		}
	}
	if damage != "" {
		return fmt.Errorf("%s", damage)
	}
	// declined inputs get a placeholder so that the transaction serialises, as a co-signer would add its own script later
	for i, in := range c.Ins {
		if in.Owner < 0 {
			tx.Inputs[i].UnlockingScript = bscript.NewFromBytes([]byte{0x51})
		} else if tx.Inputs[i].UnlockingScript == nil {
			return fmt.Errorf("input %d of %d, whose unlocker signs, was left without an unlocking script (owners %v)", i, len(c.Ins), owners(c))
		}
	}
	raw := tx.Bytes()
	for i, in := range c.Ins {
		if in.Owner < 0 {
			continue
		}
		parsed, err := bt.NewTxFromBytes(raw)
		if err != nil {
			return fmt.Errorf("the signed transaction does not parse: %v", err)
		}
		opts := []interpreter.ExecutionOptionFunc{interpreter.WithTx(parsed, i, &bt.Output{Satoshis: in.Sats, LockingScript: bscript.NewFromBytes(append([]byte{}, scripts[i]...))}),
			interpreter.WithAfterGenesis()}
		if types[i]&0x40 != 0 {
			opts = append(opts, interpreter.WithForkID())
		}
		if err := interpreter.NewEngine().Execute(opts...); err != nil {
			return fmt.Errorf("input %d of %d (key %d, type %s, signed through a caller-implemented getter; owners per input %v, -1 = declined; HSM-style unlocker: %v; one locking-script object per owner: %v) is rejected against its real spent output: %v\n spent script %x\n unlocking script %x",
				i, len(c.Ins), in.Owner, typeName(types[i]), owners(c), in.HSM, c.ShareLock, err, scripts[i], []byte(*parsed.Inputs[i].UnlockingScript))
		}
	}
	ctx.Labelf("keys=%d", len(c.Keys))
	ctx.Labelf("shared_lock_object_used=%v", sharedUsed)
	ctx.Labelf("legacy_types=%v", len(c.Types) > 0)
	for _, in := range c.Ins {
		if in.HSM && in.Owner >= 0 {
			ctx.Label("hsm_unlocker")
			break
		}
	}
	ctx.Labelf("declined_before_signed=%v", declinedBeforeSigned)
	ctx.Labelf("signed=%d", min(signed, 4))
	if declinedBeforeSigned || len(c.Keys) >= 2 && signed >= 2 {
		ctx.NonTrivial()
	}
	return nil
}

func owners(c GCase) []int {
	var o []int
	for _, in := range c.Ins {
		o = append(o, in.Owner)
	}
	return o
}

func TestGetters(t *testing.T) {
	pbt.Run(t, pbt.Sub[GCase]{
		Name: "getters", Quick: 6000, Thorough: 120000,
		Gen: func(t *rapid.T) GCase {
			var c GCase
			nk := rapid.IntRange(1, 3).Draw(t, "nkeys")
			for i := 0; i < nk; i++ {
				k := gen.Bytes(t, 32, "key")
				k[0] &= 0x7f
				k[31] |= 1
				c.Keys = append(c.Keys, k)
			}
			n := rapid.IntRange(1, 6).Draw(t, "nin")
			for i := 0; i < n; i++ {
				in := GIn{Owner: rapid.IntRange(-1, nk-1).Draw(t, "owner"), Insc: rapid.IntRange(0, 3).Draw(t, "insc") == 0, Wrap: rapid.IntRange(0, 3).Draw(t, "wrap") == 0, HSM: rapid.IntRange(0, 2).Draw(t, "hsm") == 0,
					Sats: uint64(rapid.IntRange(0, 100000).Draw(t, "sats"))}
				if in.Insc {
					in.Data = gen.Bytes(t, rapid.IntRange(0, 40).Draw(t, "dl"), "data")
				}
				c.Ins = append(c.Ins, in)
			}
			c.NOut = rapid.IntRange(0, 3).Draw(t, "nout")
			c.ShareLock = rapid.Bool().Draw(t, "sharelock")
			if rapid.IntRange(0, 2).Draw(t, "pertype") == 0 {
				for i := 0; i < n; i++ {
					c.Types = append(c.Types, rapid.SampledFrom([]int{0x01, 0x02, 0x03, 0x81, 0x82, 0x83, 0x41, 0x42, 0x43, 0xc1, 0xc2, 0xc3}).Draw(t, "type"))
				}
			}
			return c
		},
		Check: checkGetters,
	})
}
