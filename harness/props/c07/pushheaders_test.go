package c07

import (
	"testing"

	"verif/harness/interp"
	"verif/harness/pbt"
	"verif/harness/sgen"
)

// sub-check: pushheaders. A complete grid over push headers: every push opcode
// class x declared lengths at the edges of each length-field width (including
// the values within a few bytes of 2^8, 2^16, 2^31 and 2^32, where "offset +
// length" wraps in fixed-width arithmetic) x how much of the header and of the
// payload is really there x the position of the push in its script x the script
// it sits in (unlocking, locking, P2SH redeem script) x era x with / without a
// transaction.

func pushHeaderScripts(yield func([]byte)) {
	payloads := func(l uint64) []int {
		p := []int{0, 1, 3}
		if l <= 600 {
			p = append(p, int(l))
			if l > 0 {
				p = append(p, int(l)-1)
			}
			p = append(p, int(l)+1)
		}
		return p
	}
	fill := func(n int) []byte {
		b := make([]byte, n)
		for i := range b {
			b[i] = byte(0x51 + i%16) // reads as OP_1..OP_16 if it is taken for code
		}
		return b
	}
	for _, pre := range []int{0, 1, 2, 5, 9} {
		head := make([]byte, pre)
		for i := range head {
			head[i] = 0x61
		}
		emit := func(hdr []byte, l uint64) {
			for _, n := range payloads(l) {
				s := append(append(append([]byte{}, head...), hdr...), fill(n)...)
				yield(s)
			}
		}
		for _, op := range []byte{0x01, 0x02, 0x4b} {
			emit([]byte{op}, uint64(op))
		}
		for _, l := range []uint64{0, 1, 0x4b, 0x4c, 0x7f, 0x80, 0xfe, 0xff} {
			emit([]byte{0x4c, byte(l)}, l)
		}
		yield(append(append([]byte{}, head...), 0x4c))
		l16 := []uint64{0, 1, 0xff, 0x100, 0x208, 0x209, 0x7fff, 0x8000}
		for k := uint64(0); k <= 14; k++ {
			l16 = append(l16, 0xffff-k)
		}
		for _, l := range l16 {
			emit([]byte{0x4d, byte(l), byte(l >> 8)}, l)
		}
		for h := 0; h < 2; h++ {
			yield(append(append(append([]byte{}, head...), 0x4d), fill(h)...))
		}
		l32 := []uint64{0, 1, 0xffff, 0x10000, 0x7ffffffe, 0x7fffffff, 0x80000000, 0x80000001}
		for k := uint64(0); k <= 20; k++ {
			l32 = append(l32, 0xffffffff-k)
		}
		for _, l := range l32 {
			emit([]byte{0x4e, byte(l), byte(l >> 8), byte(l >> 16), byte(l >> 24)}, l)
		}
		for h := 0; h < 4; h++ {
			yield(append(append(append([]byte{}, head...), 0x4e), []byte{0xff, 0xff, 0xff, 0xff}[:h]...))
		}
	}
}

func TestPushHeaders(t *testing.T) {
	pbt.Run(t, pbt.Sub[Case]{
		Name:     "pushheaders",
		EnumDesc: "push opcodes 01/02/4b/4c/4d/4e x declared lengths at the edges of each width (0, 1, 0x4b/0x4c, 0x7f/0x80, 0xfe/0xff, 0x100, 0x208/0x209, 0x7fff/0x8000, 0xffff-k k<=14, 0x10000, 0x7ffffffe..0x80000001, 0xffffffff-k k<=20) x payload really present (0, 1, 3, L-1, L, L+1 bytes) x truncated length fields x 0/1/2/5/9 preceding instructions x {locking, unlocking, P2SH redeem} script x {pre-genesis, P2SH flag, after genesis} x {with, without transaction}",
		Enum: func(tier string, yield func(Case)) {
			pushHeaderScripts(func(s []byte) {
				for _, fl := range []interp.Flags{0, interp.FlagP2SH, interp.FlagAfterGenesis} {
					for _, ck := range []int{0, 1} {
						base := Case{Flags: uint32(fl), CtxKind: ck, NIn: 1, Version: 2, Lock32: 100, Seq: 50, Level: "pushheaders"}
						c := base
						c.Unlock, c.Lock = pbt.Hex{0x51}, append(pbt.Hex{}, s...)
						yield(c)
						c = base
						c.Unlock, c.Lock = append(pbt.Hex{}, s...), pbt.Hex{0x51}
						yield(c)
						if len(s) <= 520 && fl == interp.FlagP2SH {
							c = base
							c.Unlock = append(pbt.Hex{0x51}, interp.PushEncode(s)...)
							c.Lock = append(append(pbt.Hex{0xa9, 0x14}, sgen.Hash160(s)...), 0x87)
							yield(c)
						}
					}
				}
			})
		},
		Check: check, Precommit: true,
	})
}
