// Package c07 decides property C07: script execution is total — for any
// scripts, transaction context and flags Execute returns nil or an error.
package c07

import (
	"encoding/json"
	"fmt"
	"os"
	"path/filepath"
	"runtime/debug"
	"testing"
	"time"

	"github.com/libsv/go-bt/v2"
	"github.com/libsv/go-bt/v2/bscript"
	"github.com/libsv/go-bt/v2/bscript/interpreter"
	"github.com/libsv/go-bt/v2/bscript/interpreter/errs"
	"pgregory.net/rapid"

	"verif/harness/gen"
	"verif/harness/interp"
	"verif/harness/libexec"
	"verif/harness/pbt"
	"verif/harness/ref"
	"verif/harness/sgen"
)

var vectors []interp.Vector

func TestMain(m *testing.M) {
	var err error
	vectors, err = interp.LoadVectors()
	if err != nil {
		fmt.Println("cannot load node vectors:", err)
		os.Exit(2)
	}
	pbt.Main(m)
}

// Case is one execution request. CtxKind selects how the engine is invoked:
// 0 WithScripts only; 1 WithTx(tx, idx, prevOut); 2 WithTx(tx, idx, nil)+WithScripts;
// 3 WithTx with a previous output that has no locking script + WithScripts;
// 4 WithTx + matching WithScripts; 5 WithTx whose input has a nil unlocking script + WithScripts;
// 6/7 WithTx + WithScripts with a differing locking / unlocking script; 8/9 a nil locking / unlocking script;
// 10 no option at all; 11 a transaction without inputs; 12 WithTx with a nil previous output and no scripts.
type Case struct {
	Unlock  pbt.Hex `json:"unlock"`
	Lock    pbt.Hex `json:"lock"`
	Flags   uint32  `json:"flags"`
	CtxKind int     `json:"ctx_kind"`
	NIn     int     `json:"n_in"`
	Idx     int     `json:"idx"`
	Version uint32  `json:"version"`
	Lock32  uint32  `json:"locktime"`
	Seq     uint32  `json:"seq"`
	Amount  uint64  `json:"amount"`
	Level   string  `json:"level,omitempty"`
	Dbg     bool    `json:"dbg,omitempty"` // attach a recording debugger first
	// Warm says what the engine object executed before: 0 nothing (fresh engine), 1 a spend with a
	// complete transaction context, 2 scripts only, 3 a call that fails validation (no option at
	// all), 4 a spend with a debugger attached, 5 a pre-genesis P2SH spend
	Warm int `json:"warm,omitempty"`
}

// warmUp makes the calls an engine has seen before the one that counts; whatever they return or
// throw is of no interest here.
func warmUp(eng interpreter.Engine, kind int) {
	defer func() { _ = recover() }()
	one := func() *bscript.Script { return bscript.NewFromBytes([]byte{0x51}) }
	m := ref.Tx{Version: 1, In: []ref.In{{TxID: make(pbt.Hex, 32), Vout: 1, Seq: 0xffffffff, Unlock: pbt.Hex{0x51}}}, Out: []ref.Out{{Sats: 1, Script: pbt.Hex{0x51}}}}
	switch kind {
	case 1:
		_ = eng.Execute(interpreter.WithTx(ref.ToLib(m), 0, &bt.Output{Satoshis: 1, LockingScript: one()}), interpreter.WithForkID(), interpreter.WithAfterGenesis())
	case 2:
		_ = eng.Execute(interpreter.WithScripts(one(), one()))
	case 3:
		_ = eng.Execute()
	case 4:
		_ = eng.Execute(interpreter.WithTx(ref.ToLib(m), 0, &bt.Output{Satoshis: 1, LockingScript: one()}), interpreter.WithDebugger(&libexec.Recorder{}))
	case 5:
		redeem := []byte{0x51}
		lock := append(append([]byte{0xa9, 0x14}, sgen.Hash160(redeem)...), 0x87)
		m.In[0].Unlock = pbt.Hex{0x01, 0x51}
		_ = eng.Execute(interpreter.WithTx(ref.ToLib(m), 0, &bt.Output{Satoshis: 1, LockingScript: bscript.NewFromBytes(lock)}), interpreter.WithP2SH())
	}
}

func (c Case) options(dbg interpreter.Debugger) []interpreter.ExecutionOptionFunc {
	nin := c.NIn
	if nin < 1 {
		nin = 1
	}
	m := ref.Tx{Version: c.Version, LockTime: c.Lock32, Out: []ref.Out{{Sats: c.Amount, Script: pbt.Hex{0x51}}}}
	for i := 0; i < nin; i++ {
		id := make(pbt.Hex, 32)
		id[0] = byte(i + 1)
		in := ref.In{TxID: id, Vout: uint32(i), Seq: c.Seq, Unlock: pbt.Hex{0x51}}
		m.In = append(m.In, in)
	}
	pos := c.Idx
	if pos < 0 || pos >= nin {
		pos = 0
	}
	m.In[pos].Unlock = c.Unlock
	if c.CtxKind == 5 {
		m.In[pos].UnlockNil = true
	}
	tx := ref.ToLib(m)
	lock := bscript.NewFromBytes(append([]byte{}, c.Lock...))
	unlock := bscript.NewFromBytes(append([]byte{}, c.Unlock...))
	var o []interpreter.ExecutionOptionFunc
	switch c.CtxKind {
	case 0:
		o = append(o, interpreter.WithScripts(lock, unlock))
	case 1:
		o = append(o, interpreter.WithTx(tx, c.Idx, &bt.Output{Satoshis: c.Amount, LockingScript: lock}))
	case 2:
		o = append(o, interpreter.WithTx(tx, c.Idx, nil), interpreter.WithScripts(lock, unlock))
	case 3:
		o = append(o, interpreter.WithTx(tx, c.Idx, &bt.Output{Satoshis: c.Amount}), interpreter.WithScripts(lock, unlock))
	case 4:
		o = append(o, interpreter.WithTx(tx, c.Idx, &bt.Output{Satoshis: c.Amount, LockingScript: lock}), interpreter.WithScripts(lock, unlock))
	case 5:
		o = append(o, interpreter.WithTx(tx, c.Idx, &bt.Output{Satoshis: c.Amount, LockingScript: lock}), interpreter.WithScripts(lock, unlock))
	case 6: // explicit scripts that differ from the ones the transaction / previous output carry
		other := bscript.NewFromBytes(append(append([]byte{}, c.Lock...), 0x61))
		o = append(o, interpreter.WithTx(tx, c.Idx, &bt.Output{Satoshis: c.Amount, LockingScript: lock}), interpreter.WithScripts(other, unlock))
	case 7:
		otherU := bscript.NewFromBytes(append(append([]byte{}, c.Unlock...), 0x00))
		o = append(o, interpreter.WithTx(tx, c.Idx, &bt.Output{Satoshis: c.Amount, LockingScript: lock}), interpreter.WithScripts(lock, otherU))
	case 8: // missing scripts
		o = append(o, interpreter.WithScripts(nil, unlock))
	case 9:
		o = append(o, interpreter.WithScripts(lock, nil))
	case 13: // a nil transaction handed over through WithTx, scripts given separately
		o = append(o, interpreter.WithTx(nil, c.Idx, nil), interpreter.WithScripts(lock, unlock))
	case 14: // a nil transaction with a previous output
		o = append(o, interpreter.WithTx(nil, c.Idx, &bt.Output{Satoshis: c.Amount, LockingScript: lock}))
	case 10: // nothing at all
	case 11: // a transaction without inputs
		o = append(o, interpreter.WithTx(&bt.Tx{}, c.Idx, &bt.Output{Satoshis: c.Amount, LockingScript: lock}))
	default:
		o = append(o, interpreter.WithTx(tx, c.Idx, nil))
	}
	o = append(o, libexec.FlagOpts(interp.Flags(c.Flags), len(c.Lock)+len(c.Unlock)+c.CtxKind)...)
	if dbg != nil {
		o = append(o, interpreter.WithDebugger(dbg))
	}
	return o
}

type result struct {
	err    error
	panicS string
	budget string
}

func execute(c Case, dbg interpreter.Debugger) (r result) {
	defer func() {
		if x := recover(); x != nil {
			if be, ok := x.(libexec.BudgetExceeded); ok {
				r.budget = be.Why
				return
			}
			r.panicS = fmt.Sprintf("%v\n%s", x, debug.Stack())
		}
	}()
	eng := interpreter.NewEngine()
	if c.Warm != 0 {
		warmUp(eng, c.Warm)
	}
	r.err = eng.Execute(c.options(dbg)...)
	return r
}

// pcReader is a recording debugger that, like the package's own debugger examples, looks at the
// instruction a snapshot points to: State.Opcode() and State.RemainingScript() before a step and
// around an opcode. Attaching it must not make Execute panic.
type pcReader struct {
	libexec.Recorder
	Seen int
}

func (p *pcReader) look(s *interpreter.State) {
	_ = s.Opcode()
	p.Seen += len(s.RemainingScript())
}
func (p *pcReader) BeforeStep(s *interpreter.State) { p.look(s); p.Recorder.BeforeStep(s) }
func (p *pcReader) BeforeExecuteOpcode(s *interpreter.State) {
	p.look(s)
	p.Recorder.BeforeExecuteOpcode(s)
}
func (p *pcReader) AfterExecuteOpcode(s *interpreter.State) {
	p.look(s)
	p.Recorder.AfterExecuteOpcode(s)
}

const perCaseBound = 60 * time.Second

func growthOps(s []byte) bool {
	for _, b := range s {
		if b == 0x7e || b == 0x80 || b == 0x95 {
			return true
		}
	}
	return false
}

// validationOnly reports errors raised before the first instruction runs.
func validationOnly(err error) bool {
	for _, code := range []errs.ErrorCode{errs.ErrInvalidParams, errs.ErrInvalidIndex, errs.ErrMalformedPush, errs.ErrScriptTooBig, errs.ErrInvalidFlags, errs.ErrNotPushOnly} {
		if errs.IsErrorCode(err, code) {
			return true
		}
	}
	return false
}

func check(ctx *pbt.Ctx, c Case) error {
	// Post-genesis programs that can grow data (CAT, NUM2BIN, MUL) run first under the
	// budget debugger (DESIGN section 2): a step that could blow the memory budget turns the
	// case into a counted discard instead of a crash. Pre-genesis limits (520-byte elements,
	// 1000 items) bound memory by themselves.
	steps := -1
	if interp.Flags(c.Flags).Has(interp.FlagAfterGenesis) && (growthOps(c.Unlock) || growthOps(c.Lock)) {
		bud := libexec.NewBudget()
		r1 := execute(c, bud)
		if r1.budget != "" {
			ctx.Discard("over_budget:" + r1.budget)
			return nil
		}
		if r1.panicS != "" {
			return fmt.Errorf("panic (debugger attached): %s", r1.panicS)
		}
		steps = len(bud.Steps)
		ctx.Label("debugger=budget")
	} else if c.Dbg {
		rec := &pcReader{}
		r1 := execute(c, rec)
		if r1.panicS != "" {
			return fmt.Errorf("panic (debugger attached): %s", r1.panicS)
		}
		steps = len(rec.Steps)
		ctx.Label("debugger=recording")
	}
	// without any debugger, with a generous bound on "fails to return"
	done := make(chan result, 1)
	go func() { done <- execute(c, nil) }()
	var r2 result
	timer := time.NewTimer(perCaseBound)
	select {
	case r2 = <-done:
		timer.Stop()
	case <-timer.C:
		return fmt.Errorf("execution did not return within %v", perCaseBound)
	}
	if r2.panicS != "" {
		return fmt.Errorf("panic (no debugger): %s", r2.panicS)
	}
	ctx.Labelf("ctx=%d", c.CtxKind)
	ctx.Labelf("engine_used_before=%d", c.Warm)
	ctx.Label("level=" + c.Level)
	switch {
	case c.Idx < 0:
		ctx.Label("idx=negative")
	case c.Idx >= c.NIn && c.CtxKind != 0:
		ctx.Label("idx=beyond")
	default:
		ctx.Label("idx=valid")
	}
	if r2.err == nil {
		ctx.Label("result=ok")
	} else {
		ctx.Label("result=error")
	}
	if steps >= 1 || (steps < 0 && (r2.err == nil || !validationOnly(r2.err))) {
		ctx.NonTrivial() // the library got past validation and executed at least one step
		ctx.Label("executed")
	}
	return nil
}

func genFlags(t *rapid.T) uint32 {
	switch rapid.IntRange(0, 5).Draw(t, "fk") {
	case 0:
		return uint32(1) << uint(rapid.IntRange(0, 15).Draw(t, "f1"))
	case 1:
		return uint32(1)<<uint(rapid.IntRange(0, 15).Draw(t, "f1")) | uint32(1)<<uint(rapid.IntRange(0, 15).Draw(t, "f2"))
	case 2:
		return 0
	case 3:
		// typical post-genesis consensus set
		return uint32(interp.FlagAfterGenesis|interp.FlagForkID|interp.FlagStrictEnc|interp.FlagNullFail) | uint32(rapid.Uint16().Draw(t, "fx"))&0x0fff
	default:
		return uint32(rapid.Uint16().Draw(t, "f"))
	}
}

func genCase(t *rapid.T) Case {
	flags := genFlags(t)
	f := interp.Flags(flags)
	var p sgen.Program
	var lc *sgen.LockCtx
	switch rapid.IntRange(0, 13).Draw(t, "level") {
	case 13:
		p = sgen.DegenerateP2SH(t, f)
	case 11:
		p = sgen.P2SHLookalike(t, f)
	case 12:
		lp, c := sgen.LockTimeProgram(t, f)
		p, lc = lp, &c
	case 10:
		// signature-shaped programs: a few pushes (signature / key sized blobs) with an
		// OP_CODESEPARATOR at any instruction offset of the unlocking script, optionally ended
		// by a top-level OP_RETURN, against a very short locking script that checks signatures
		var u []byte
		n := rapid.IntRange(1, 4).Draw(t, "ss_n")
		sep := rapid.IntRange(0, n).Draw(t, "ss_sep")
		for i := 0; i <= n; i++ {
			if i == sep {
				u = append(u, 0xab)
			}
			if i < n {
				l := rapid.SampledFrom([]int{0, 1, 2, 9, 33, 65, 71, 72, 73}).Draw(t, "ss_len")
				d := gen.Bytes(t, l, "ss_blob")
				if l >= 9 && rapid.Bool().Draw(t, "ss_der") {
					d[0], d[1], d[2] = 0x30, byte(l-3), 0x02
				}
				u = append(u, sgen.Push(d, 0)...)
			}
		}
		if rapid.IntRange(0, 2).Draw(t, "ss_ret") != 0 {
			u = append(u, 0x6a)
			f |= interp.FlagAfterGenesis
		}
		l := rapid.SampledFrom([][]byte{{0xac}, {0xad}, {0xae}, {0xaf}, {0x51, 0xae}, {0xac, 0x91}, {0x00, 0xac}, {0x76, 0xac}}).Draw(t, "ss_lock")
		l = append([]byte{}, l...)
		p = sgen.Program{Unlock: u, Lock: l, Flags: f, Level: "L6-sigshape"}
	case 0, 1:
		p = sgen.RawBytes(t, f, 80)
		if rapid.IntRange(0, 9).Draw(t, "longraw") == 0 {
			p.Lock = gen.BytesUpTo(t, 600, "l0_long")
		}
	case 2, 3:
		p = sgen.RandomOps(t, f, nil)
	case 4, 5:
		p = sgen.MutateVector(t, vectors, []interp.Flags{1, 2, 4, 8, 16, 32, 64, 128, 256, 512, 1024, 2048, 4096, 8192, 16384, 32768}, nil)
		if rapid.Bool().Draw(t, "own_flags") {
			p.Flags = f
		}
	default:
		p = sgen.StackAware(t, f, 14)
		// sprinkle signature opcodes and hostile constants
		if rapid.IntRange(0, 2).Draw(t, "sigop") == 0 {
			p.Lock = append(p.Lock, byte(rapid.IntRange(0xac, 0xaf).Draw(t, "sig")))
		}
	}
	// a top-level OP_RETURN followed by a degenerate tail (nothing, a lone push opcode, a push header
	// without its data, one or two stray bytes) behind whatever the script does
	if rapid.IntRange(0, 9).Draw(t, "ret_tail") == 0 {
		tail := rapid.SampledFrom([][]byte{{0x6a}, {0x6a, 0x01}, {0x6a, 0x4c}, {0x6a, 0x4d, 0x01}, {0x6a, 0x4e, 0x01, 0x00}, {0x6a, 0x00}, {0x6a, 0x01, 0x01}, {0x6a, 0x02, 0x01}, {0x6a, 0x4b}, {0x6a, 0xab}}).Draw(t, "ret_tail_v")
		if rapid.Bool().Draw(t, "ret_tail_unlock") {
			p.Unlock = append(append([]byte{}, p.Unlock...), tail...)
		} else {
			p.Lock = append(append([]byte{}, p.Lock...), tail...)
		}
		if rapid.IntRange(0, 3).Draw(t, "ret_tail_post") != 0 {
			p.Flags |= interp.FlagAfterGenesis
		}
	}
	c := Case{Unlock: p.Unlock, Lock: p.Lock, Flags: uint32(p.Flags), Level: p.Level,
		CtxKind: rapid.SampledFrom([]int{0, 0, 1, 1, 1, 1, 1, 2, 3, 4, 5, 6, 7, 8, 9, 10, 11, 12, 13, 14}).Draw(t, "ctx"),
		NIn:     rapid.IntRange(1, 3).Draw(t, "nin"),
		Version: rapid.SampledFrom([]uint32{0, 1, 2, 0xffffffff}).Draw(t, "version"),
		Lock32:  rapid.SampledFrom([]uint32{0, 100, 499999999, 500000000, 0xffffffff}).Draw(t, "locktime"),
		Seq:     rapid.SampledFrom([]uint32{0, 100, 1 << 22, 1 << 31, 0xfffffffe, 0xffffffff}).Draw(t, "seq"),
		Amount:  uint64(rapid.IntRange(0, 2).Draw(t, "amount")),
		Dbg:     rapid.IntRange(0, 4).Draw(t, "dbg") == 0,
		Warm:    rapid.SampledFrom([]int{0, 0, 0, 1, 1, 2, 3, 4, 5}).Draw(t, "warm"),
	}
	if lc != nil {
		c.Version, c.Lock32, c.Seq = lc.Version, lc.LockTime, lc.Seq
	}
	switch rapid.IntRange(0, 9).Draw(t, "idxk") {
	case 0:
		c.Idx = -1
	case 1:
		c.Idx = c.NIn
	case 2:
		c.Idx = rapid.SampledFrom([]int{-1 << 31, 1 << 20, 1<<31 - 1, 1 << 40}).Draw(t, "idx_big")
	default:
		c.Idx = rapid.IntRange(0, c.NIn-1).Draw(t, "idx")
	}
	return c
}

func TestTotal(t *testing.T) {
	pbt.Run(t, pbt.Sub[Case]{
		Name: "total", Quick: 1200000, Thorough: 12000000,
		Gen: genCase, Check: check, Precommit: true,
	})
}

// hostile constants found by reading the handlers (also the fuzz seed corpus)
var hostile = []Case{
	{Unlock: pbt.Hex{0x51}, Lock: pbt.Hex{0x00, 0x51, 0x98}, Flags: uint32(interp.FlagAfterGenesis), CtxKind: 1, NIn: 1},             // empty operand LSHIFT
	{Unlock: pbt.Hex{0x51}, Lock: pbt.Hex{0x02, 0xff, 0xff, 0x59, 0x98}, Flags: uint32(interp.FlagAfterGenesis), CtxKind: 1, NIn: 1}, // shift by 9 on 2 bytes
	{Unlock: pbt.Hex{0x51}, Lock: pbt.Hex{0x02, 0xff, 0xff, 0x59, 0x99}, Flags: 0, CtxKind: 1, NIn: 1},
	{Unlock: pbt.Hex{0x51}, Lock: pbt.Hex{0x51, 0xb1}, Flags: uint32(interp.FlagCLTV), CtxKind: 0, NIn: 1}, // CLTV without a tx
	{Unlock: pbt.Hex{0x51}, Lock: pbt.Hex{0x51, 0xb2}, Flags: uint32(interp.FlagCSV), CtxKind: 0, NIn: 1},
	{Unlock: pbt.Hex{0x51}, Lock: pbt.Hex{0x51}, Flags: 0, CtxKind: 2, NIn: 1}, // nil previous output + scripts
	{Unlock: pbt.Hex{0x51}, Lock: pbt.Hex{0x51}, Flags: 0, CtxKind: 3, NIn: 1},
	{Unlock: pbt.Hex{0x51}, Lock: pbt.Hex{0x51}, Flags: 0, CtxKind: 1, NIn: 1, Idx: -1},
	{Unlock: pbt.Hex{0x51}, Lock: pbt.Hex{0x51}, Flags: 0, CtxKind: 13, NIn: 1, Idx: -1},
	{Unlock: pbt.Hex{0x51}, Lock: pbt.Hex{0x51}, Flags: 0, CtxKind: 14, NIn: 1, Idx: -1},
	{Unlock: pbt.Hex{0x51}, Lock: pbt.Hex{0x51}, Flags: 0, CtxKind: 13, NIn: 1, Idx: 3},
	{Unlock: pbt.Hex{0x51}, Lock: pbt.Hex{0x51}, Flags: 0, CtxKind: 1, NIn: 2, Idx: 2},
	{Unlock: pbt.Hex{0x51}, Lock: pbt.Hex{0x02, 0xab, 0xcd, 0x09, 0, 0, 0, 0, 0, 0, 0, 0, 0x01, 0x7f}, Flags: uint32(interp.FlagAfterGenesis), CtxKind: 1, NIn: 1}, // SPLIT at 2^64
	{Unlock: pbt.Hex{0x51}, Lock: pbt.Hex{0x09, 0, 0, 0, 0, 0, 0, 0, 0x80, 0x00, 0x7f}, Flags: uint32(interp.FlagAfterGenesis), CtxKind: 1, NIn: 1},
	{Unlock: pbt.Hex{}, Lock: pbt.Hex{0x4c}, Flags: 0, CtxKind: 0, NIn: 1},
	{Unlock: pbt.Hex{}, Lock: pbt.Hex{0x6a}, Flags: uint32(interp.FlagAfterGenesis), CtxKind: 0, NIn: 1},
	{Unlock: pbt.Hex{0x51, 0x6a}, Lock: pbt.Hex{}, Flags: uint32(interp.FlagAfterGenesis), CtxKind: 0, NIn: 1},
	{Unlock: pbt.Hex{0x00, 0x00}, Lock: pbt.Hex{0xae}, Flags: 0, CtxKind: 1, NIn: 1},
	{Unlock: pbt.Hex{0x00}, Lock: pbt.Hex{0x05, 0xff, 0xff, 0xff, 0xff, 0x7f, 0xae}, Flags: uint32(interp.FlagAfterGenesis), CtxKind: 1, NIn: 1},
}

func TestHostile(t *testing.T) {
	pbt.Run(t, pbt.Sub[Case]{
		Name:     "hostile",
		EnumDesc: "hand-derived hostile constants (empty shift operand, shift counts 9/16/17, CLTV/CSV without a transaction, nil previous output, invalid input indices, 2^63/2^64 positions, lone 4c / 6a) x all 16 single flags",
		Enum: func(tier string, yield func(Case)) {
			for _, h := range hostile {
				yield(h)
				for b := 0; b < 16; b++ {
					c := h
					c.Flags |= 1 << uint(b)
					yield(c)
				}
			}
		},
		Check: check, Precommit: true,
	})
}

// FuzzExecute is the coverage-guided target used by the thorough tier.
func FuzzExecute(f *testing.F) {
	for _, v := range vectors {
		f.Add(v.Unlock, v.Lock, uint32(v.Flags), uint8(1), int8(0))
	}
	for _, h := range hostile {
		f.Add([]byte(h.Unlock), []byte(h.Lock), h.Flags, uint8(h.CtxKind), int8(h.Idx))
	}
	n := 0
	f.Fuzz(func(t *testing.T, unlock, lock []byte, flags uint32, ctxKind uint8, idx int8) {
		if len(unlock) > 2000 || len(lock) > 2000 {
			t.Skip()
		}
		c := Case{Unlock: unlock, Lock: lock, Flags: flags & 0xffff, CtxKind: int(ctxKind % 15), NIn: 2, Idx: int(idx), Version: 2, Lock32: 100, Seq: 50, Level: "fuzz"}
		if err := check(&pbt.Ctx{}, c); err != nil {
			if dir := os.Getenv("VERIF_FUZZ_OUT"); dir != "" {
				n++
				cb, _ := json.Marshal(c)
				b, _ := json.MarshalIndent(pbt.ReplayFile{Property: "C07", Sub: "total", Error: err.Error(), Case: cb}, "", " ")
				_ = os.WriteFile(filepath.Join(dir, fmt.Sprintf("fuzzfail-%d-%d.json", os.Getpid(), n)), b, 0o644)
			}
			t.Fatalf("%v", err)
		}
	})
}
