package c07

import (
	"fmt"
	"runtime/debug"
	"testing"
	"time"

	"github.com/libsv/go-bt/v2/bscript/interpreter"
	"pgregory.net/rapid"

	"verif/harness/interp"
	"verif/harness/libexec"
	"verif/harness/pbt"
)

// ---------------------------------------------------------------------------
// sub-check: resume (ninth round). Execution started through the exported option WithState from a
// State record a debugger received in BeforeStep (the records the documentation recommends) is
// execution too: it terminates with success or an error value, with or without a debugger on the
// resumed run, in both eras, for every invocation shape and flag set of the `total` sub-check.
// ---------------------------------------------------------------------------

// ResumeCase is a case of `total`, the record to resume from and whether the resumed run is observed.
type ResumeCase struct {
	Case
	At     int  `json:"at"`
	ResDbg bool `json:"resdbg"`
}

func executeFrom(c Case, st *interpreter.State, dbg interpreter.Debugger) (r result) {
	defer func() {
		if x := recover(); x != nil {
			if be, ok := x.(libexec.BudgetExceeded); ok {
				r.budget = be.Why
				return
			}
			r.panicS = fmt.Sprintf("%v\n%s", x, debug.Stack())
		}
	}()
	r.err = interpreter.NewEngine().Execute(append(c.options(dbg), interpreter.WithState(st))...)
	return r
}

func checkResume(ctx *pbt.Ctx, c ResumeCase) error {
	if c.At < 0 {
		ctx.Discard("malformed case")
		return nil
	}
	if interp.Flags(c.Flags).Has(interp.FlagAfterGenesis) && (growthOps(c.Unlock) || growthOps(c.Lock)) {
		// data-growing post-genesis programs need the budget debugger on both runs; they are `total`'s business
		ctx.Discard("growth-capable program")
		return nil
	}
	k := &libexec.Keeper{}
	r1 := execute(c.Case, k)
	if r1.panicS != "" {
		return fmt.Errorf("panic (debugger attached): %s", r1.panicS)
	}
	if len(k.States) == 0 {
		ctx.Discard("no step reached")
		return nil
	}
	at := c.At % len(k.States)
	rec := k.States[at]
	if rec.ScriptIdx < 0 || rec.ScriptIdx >= len(rec.Scripts) {
		ctx.Discard("record without a current script")
		return nil
	}
	st := libexec.CopyState(rec)
	var dbg interpreter.Debugger
	if c.ResDbg {
		dbg = &pcReader{}
	}
	done := make(chan result, 1)
	go func() { done <- executeFrom(c.Case, st, dbg) }()
	var r2 result
	timer := time.NewTimer(perCaseBound)
	select {
	case r2 = <-done:
		timer.Stop()
	case <-timer.C:
		return fmt.Errorf("the resumed execution did not return within %v (record %d of %d)", perCaseBound, at, len(k.States))
	}
	if r2.panicS != "" {
		return fmt.Errorf("panic in the execution resumed from BeforeStep record %d of %d (script %d, opcode %d, conditional stack %v, after genesis: %v), debugger on the resumed run: %v: %s",
			at, len(k.States), rec.ScriptIdx, rec.OpcodeIdx, rec.CondStack, rec.Genesis.AfterGenesis, c.ResDbg, r2.panicS)
	}
	ctx.Labelf("ctx=%d", c.CtxKind)
	ctx.Label("level=" + c.Level)
	ctx.Labelf("resumed_after_genesis=%v", rec.Genesis.AfterGenesis)
	ctx.Labelf("resumed_inside_conditional=%v", len(rec.CondStack) > 0)
	ctx.Labelf("resumed_with_debugger=%v", c.ResDbg)
	ctx.Labelf("resumed_in_script=%d", rec.ScriptIdx)
	if r2.err == nil {
		ctx.Label("result=ok")
	} else {
		ctx.Label("result=error")
	}
	if at > 0 {
		ctx.NonTrivial()
	}
	return nil
}

func TestResume(t *testing.T) {
	pbt.Run(t, pbt.Sub[ResumeCase]{
		Name: "resume", Quick: 60000, Thorough: 1200000, Precommit: true,
		Gen: func(t *rapid.T) ResumeCase {
			return ResumeCase{Case: genCase(t), At: rapid.IntRange(0, 60).Draw(t, "at"), ResDbg: rapid.Bool().Draw(t, "resdbg")}
		},
		Check: checkResume,
	})
}
