package c19

import (
	"fmt"
	"testing"

	"github.com/libsv/go-bt/v2/bscript/interpreter"
	"pgregory.net/rapid"

	"verif/harness/interp"
	"verif/harness/libexec"
	"verif/harness/pbt"
)

// ---------------------------------------------------------------------------
// sub-check: resume (ninth round). A snapshot handed to a callback is the callback's own. The
// library documents one use for it: the records received in BeforeStep / AfterStep can be handed
// back through the exported option WithState to start an execution from there. A program runs once
// with a debugger that keeps the BeforeStep records; from a private copy of one of them the
// execution is resumed three times: without a debugger, with a recording debugger, with a debugger
// that scribbles over every snapshot it receives. Oracle (the property's own clauses, for the
// resumed execution): identical verdict and error in all three; identical snapshot sequence for the
// recording and the scribbling run (the lifecycle grammar is not asserted: the documentation does
// not say where the callbacks of the stack restoration belong); the State value handed to
// WithState reads after every resumption what it read before (it is a snapshot: the running
// execution and it do not share storage), and resuming from it again gives the same result.
// ---------------------------------------------------------------------------

// ResumeCase is a program and the BeforeStep record to resume from.
type ResumeCase struct {
	Case
	At int `json:"at"`
}

func seqOf(ev []event) string {
	b := make([]byte, len(ev))
	for i, e := range ev {
		b[i] = e.kind
	}
	return string(b)
}

func stateDigest(s *interpreter.State) uint64 {
	return digestState(s.DataStack, s.AltStack, append(append([][]byte{}, s.ElseStack...), s.SavedFirstStack...), s.CondStack, s.ScriptIdx, s.OpcodeIdx*1000003+s.LastCodeSeparatorIdx*10007+s.NumOps)
}

func checkResume(ctx *pbt.Ctx, c ResumeCase) error {
	if c.At < 0 {
		ctx.Discard("malformed case")
		return nil
	}
	flags := interp.Flags(c.Flags)
	model := c.Ctx.Model(c.Unlock, c.Lock)
	idx := c.Ctx.Index()
	// memory guard as in `lifecycle`
	if b := libexec.Run(c.Unlock, c.Lock, flags, c.Ctx, libexec.NewBudget()); b.Budget != "" {
		ctx.Discard("over_budget")
		return nil
	}
	whole := &tracer{}
	full := libexec.RunModel(model, idx, c.Lock, c.Ctx.Amount, flags, whole)
	if full.Panic != "" {
		return fmt.Errorf("panic: %s", full.Panic)
	}
	if whole.over {
		ctx.Discard("snapshot_volume_over_budget")
		return nil
	}
	var k struct {
		States []*interpreter.State
		at     []int // index of the BeforeStep event in whole.events
	}
	for i, e := range whole.events {
		if e.kind == 'S' {
			k.States, k.at = append(k.States, whole.kept[i]), append(k.at, i)
		}
	}
	if len(k.States) == 0 {
		ctx.Discard("no step reached")
		return nil
	}
	at := c.At % len(k.States)
	rec0 := k.States[at]
	if rec0.ScriptIdx < 0 || rec0.ScriptIdx >= len(rec0.Scripts) {
		ctx.Discard("record without a current script")
		return nil
	}
	st := libexec.CopyState(rec0)
	before := stateDigest(st)
	id := fmt.Sprintf("unlock=%x lock=%x flags=%#x, resumed from BeforeStep record %d of %d (script %d, opcode %d, data stack %d items, alt stack %d, conditional stack %v)",
		[]byte(c.Unlock), []byte(c.Lock), c.Flags, at, len(k.States), rec0.ScriptIdx, rec0.OpcodeIdx, len(rec0.DataStack), len(rec0.AltStack), rec0.CondStack)
	resume := func(name string, dbg interpreter.Debugger) (libexec.Outcome, error) {
		o := libexec.ResumeModel(model, idx, c.Lock, c.Ctx.Amount, flags, st, dbg)
		if o.Panic != "" {
			return o, fmt.Errorf("panic in the resumed execution (debugger: %s): %s; %s", name, o.Panic, id)
		}
		if d := stateDigest(st); d != before {
			return o, fmt.Errorf("the State value handed to WithState reads differently after the resumed execution (debugger: %s): data %x alt %x cond %v else %x pc %d:%d last separator %d ops %d; %s",
				name, st.DataStack, st.AltStack, st.CondStack, st.ElseStack, st.ScriptIdx, st.OpcodeIdx, st.LastCodeSeparatorIdx, st.NumOps, id)
		}
		return o, nil
	}
	plain, err := resume("none", nil)
	if err != nil {
		return err
	}
	rec := &tracer{}
	withRec, err := resume("recording", rec)
	if err != nil {
		return err
	}
	scr := &tracer{scribble: true}
	withScr, err := resume("scribbling", scr)
	if err != nil {
		return err
	}
	again, err := resume("none, second time", nil)
	if err != nil {
		return err
	}
	if rec.over || scr.over {
		ctx.Discard("snapshot_volume_over_budget")
		return nil
	}
	if (plain.Err == nil) != (full.Err == nil) {
		return fmt.Errorf("the resumed execution returned %v, the uninterrupted one %v; %s", plain.Err, full.Err, id)
	}
	if !sameErr(plain.Err, withRec.Err) || !sameErr(plain.Err, withScr.Err) || !sameErr(plain.Err, again.Err) {
		return fmt.Errorf("resumed executions from one record differ: none=%v recording=%v scribbling=%v none again=%v; %s", plain.Err, withRec.Err, withScr.Err, again.Err, id)
	}
	if len(rec.events) != len(scr.events) {
		return fmt.Errorf("scribbling changed the callback sequence of the resumed execution: %q vs %q; %s", rec.seq(), scr.seq(), id)
	}
	for i := range rec.events {
		a, b := rec.events[i], scr.events[i]
		if a.kind != b.kind || !eqStacks(a.stack, b.stack) || !eqStacks(a.alt, b.alt) || !eqStacks(a.els, b.els) || fmt.Sprint(a.cond) != fmt.Sprint(b.cond) || a.sidx != b.sidx || a.oidx != b.oidx {
			return fmt.Errorf("resumed execution, event %d (%c): snapshot differs after scribbling: stack %x vs %x, alt %x vs %x, cond %v vs %v, pc %d:%d vs %d:%d; %s",
				i, a.kind, a.stack, b.stack, a.alt, b.alt, a.cond, b.cond, a.sidx, a.oidx, b.sidx, b.oidx, id)
		}
	}
	// (tenth round) from its first step on, the resumed execution reports what the uninterrupted one
	// reported from that step on: the same callbacks in the same order with the same snapshots
	rj := 0
	for rj < len(rec.events) && rec.events[rj].kind != 'S' {
		rj++
	}
	rest := whole.events[k.at[at]:]
	got := rec.events[rj:]
	if len(rest) != len(got) {
		return fmt.Errorf("from the resumption point on the uninterrupted execution made %d callbacks (%q), the resumed one %d (%q); %s", len(rest), seqOf(rest), len(got), seqOf(got), id)
	}
	for i := range rest {
		a, b := rest[i], got[i]
		if a.kind != b.kind || !eqStacks(a.stack, b.stack) || !eqStacks(a.alt, b.alt) || !eqStacks(a.els, b.els) || fmt.Sprint(a.cond) != fmt.Sprint(b.cond) || a.sidx != b.sidx || a.oidx != b.oidx || a.lsep != b.lsep || a.nops != b.nops {
			return fmt.Errorf("callback %d after the resumption point: uninterrupted %c {stack %x alt %x cond %v pc %d:%d sep %d ops %d}, resumed %c {stack %x alt %x cond %v pc %d:%d sep %d ops %d}; sequences %q / %q; %s",
				i, a.kind, a.stack, a.alt, a.cond, a.sidx, a.oidx, a.lsep, a.nops, b.kind, b.stack, b.alt, b.cond, b.sidx, b.oidx, b.lsep, b.nops, seqOf(rest), seqOf(got), id)
		}
	}
	if rec.pcBad != "" {
		return fmt.Errorf("resumed execution: snapshot names an instruction it does not contain: %s; %s", rec.pcBad, id)
	}
	if rec.sepBad != "" {
		return fmt.Errorf("resumed execution: snapshot's separator index is not consistent with its own script and program counter: %s; %s", rec.sepBad, id)
	}
	ctx.Label("level=" + c.Level)
	ctx.Labelf("resumed_inside_conditional=%v", len(rec0.CondStack) > 0)
	ctx.Labelf("resumed_in_script=%d", rec0.ScriptIdx)
	ctx.Labelf("resumed_after_genesis=%v", rec0.Genesis.AfterGenesis)
	if at > 0 && (len(rec0.CondStack) > 0 || len(rec0.DataStack)+len(rec0.AltStack) > 0) {
		ctx.NonTrivial()
	}
	return nil
}

func TestResume(t *testing.T) {
	pbt.Run(t, pbt.Sub[ResumeCase]{
		Name: "resume", Quick: 6000, Thorough: 300000,
		Gen: func(t *rapid.T) ResumeCase {
			return ResumeCase{Case: genCase(t), At: rapid.IntRange(0, 60).Draw(t, "at")}
		},
		Check: checkResume,
	})
}
