package c19

import (
	"testing"

	"verif/harness/interp"
	"verif/harness/libexec"
	"verif/harness/pbt"
	"verif/harness/sgen"
)

var nonSigMask = func() uint32 {
	var m interp.Flags
	for _, f := range sgen.FlagPoolNonSig {
		m |= f
	}
	return uint32(m)
}()

func hasSigByte(b []byte) bool {
	for _, x := range b {
		if x >= 0xac && x <= 0xaf {
			return true
		}
	}
	return false
}

// FuzzDebug is the coverage-guided target of the thorough tier: arbitrary signature-free script
// bytes, flag subsets and contexts through the `lifecycle` oracle (no debugger / recording /
// scribbling / debug.NewDebugger runs compared, callback grammar, snapshots against the reference).
func FuzzDebug(f *testing.F) {
	for _, v := range vectors {
		if hasSigByte(v.Unlock) || hasSigByte(v.Lock) || len(v.Unlock)+len(v.Lock) > 200 {
			continue
		}
		f.Add(v.Unlock, v.Lock, uint32(v.Flags), uint32(0), uint32(0xffffffff))
	}
	flim := interp.Limits{MaxElem: 1 << 14}
	f.Fuzz(func(t *testing.T, unlock, lock []byte, flags, locktime, seq uint32) {
		if len(unlock) > 200 || len(lock) > 200 || hasSigByte(unlock) || hasSigByte(lock) {
			t.Skip()
		}
		c := Case{Prog: libexec.Prog{Unlock: unlock, Lock: lock, Flags: flags & nonSigMask,
			Ctx: libexec.TxCtx{Version: 2, LockTime: locktime, Seq: seq, Amount: 1}, Level: "fuzz"}, Ref: true}
		m := c.Ctx.Model(c.Unlock, c.Lock)
		if r := interp.VerifyScript(c.Unlock, c.Lock, interp.Flags(c.Flags), interp.TxChecker{Tx: m, Idx: c.Ctx.Index(), Amount: 1}, false, flim); r.BudgetHit {
			t.Skip()
		}
		pbt.FuzzCheck(t, "C19", "lifecycle", check, c)
	})
}
