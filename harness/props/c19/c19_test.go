// Package c19 decides property C19: attaching a debugger never changes the
// verdict or error, callbacks follow the documented lifecycle, step snapshots
// are consistent with the instruction between them, and scribbling over any
// snapshot has no effect on the running execution.
package c19

import (
	"bytes"
	"fmt"
	"os"
	"strings"
	"testing"

	"github.com/libsv/go-bt/v2/bscript/interpreter"
	"github.com/libsv/go-bt/v2/bscript/interpreter/debug"
	"github.com/libsv/go-bt/v2/bscript/interpreter/errs"
	"pgregory.net/rapid"

	"verif/harness/interp"
	"verif/harness/libexec"
	"verif/harness/pbt"
	"verif/harness/sgen"
)

var vectors []interp.Vector

func TestMain(m *testing.M) {
	c, err := interp.Calibrate()
	if err != nil || c.VerdictAgree != c.Vectors {
		fmt.Printf("CALIBRATION FAILED: %v %+v\n", err, c)
		os.Exit(2)
	}
	pbt.SetExtra("lifecycle", "calibration_vectors", c.Vectors)
	vectors, _ = interp.LoadVectors()
	pbt.Main(m)
}

// event is one callback with the snapshot it was handed (copied before any scribbling).
type event struct {
	kind  byte // see kinds
	stack [][]byte
	alt   [][]byte
	cond  []int
	els   [][]byte
	sidx  int
	oidx  int
	lsep  int // LastCodeSeparatorIdx
	nops  int // NumOps
}

const kinds = "EeSsOoCcPpQqYN" // BeforeExecute AfterExecute BeforeStep AfterStep BeforeOpcode AfterOpcode BeforeScriptChange AfterScriptChange BeforePush AfterPush BeforePop AfterPop success error

type tracer struct {
	events   []event
	kept     []*interpreter.State // the snapshots themselves, looked at again after the execution (recording tracer only)
	scribble bool
	errSeen  error
	pcBad    string // first snapshot whose program counter names no instruction of its own Scripts
	sepBad   string // first snapshot whose LastCodeSeparatorIdx does not name an executed OP_CODESEPARATOR of its current script
	bytes    int    // volume of the copies held so far
	over     bool   // the volume budget was exceeded: later events are counted, not copied (the case is discarded)
}

// traceBudget bounds what one tracer holds (every event copies both stacks: quadratic in the
// stack depth for push-heavy programs).
const traceBudget = 192 << 20

func volume(s *interpreter.State) int {
	n := 64 + 24*(len(s.DataStack)+len(s.AltStack)+len(s.ElseStack)) + 8*len(s.CondStack)
	for _, st := range [][][]byte{s.DataStack, s.AltStack, s.ElseStack} {
		for _, b := range st {
			n += len(b)
		}
	}
	return n
}

func cpAll(s [][]byte) [][]byte {
	o := make([][]byte, len(s))
	for i, b := range s {
		o[i] = append([]byte{}, b...)
	}
	return o
}

func (t *tracer) on(kind byte, s *interpreter.State) {
	if t.over {
		return
	}
	if t.bytes += 2 * volume(s); t.bytes > traceBudget {
		t.over = true
		t.events, t.kept = nil, nil
		return
	}
	t.events = append(t.events, event{kind: kind, stack: cpAll(s.DataStack), alt: cpAll(s.AltStack), cond: append([]int{}, s.CondStack...), els: cpAll(s.ElseStack), sidx: s.ScriptIdx, oidx: s.OpcodeIdx, lsep: s.LastCodeSeparatorIdx, nops: s.NumOps})
	// (ninth round) LastCodeSeparatorIdx is documented by its name: a value above 0 is the index, in
	// the snapshot's current script, of an OP_CODESEPARATOR the program counter has reached
	if (kind == 'S' || kind == 'O' || kind == 'o' || kind == 's') && t.sepBad == "" && s.LastCodeSeparatorIdx != 0 && !s.IsFinished &&
		s.ScriptIdx >= 0 && s.ScriptIdx < len(s.Scripts) {
		sc := s.Scripts[s.ScriptIdx]
		l := s.LastCodeSeparatorIdx
		switch {
		case l < 0 || l >= len(sc):
			t.sepBad = fmt.Sprintf("event %d (%c): LastCodeSeparatorIdx %d, script %d has %d instructions (program counter %d:%d)", len(t.events)-1, kind, l, s.ScriptIdx, len(sc), s.ScriptIdx, s.OpcodeIdx)
		case sc[l].Value() != 0xab:
			t.sepBad = fmt.Sprintf("event %d (%c): LastCodeSeparatorIdx %d names opcode %#02x of script %d, not an OP_CODESEPARATOR (program counter %d:%d)", len(t.events)-1, kind, l, sc[l].Value(), s.ScriptIdx, s.ScriptIdx, s.OpcodeIdx)
		case l > s.OpcodeIdx || (l == s.OpcodeIdx && kind != 'o'):
			t.sepBad = fmt.Sprintf("event %d (%c): LastCodeSeparatorIdx %d is not behind the program counter %d:%d", len(t.events)-1, kind, l, s.ScriptIdx, s.OpcodeIdx)
		}
	}
	// before a step and around an opcode the snapshot's program counter names the instruction
	// concerned: it must exist in the snapshot's own script list, and State.Opcode() must return it
	if (kind == 'S' || kind == 'O' || kind == 'o') && t.pcBad == "" {
		if s.ScriptIdx < 0 || s.ScriptIdx >= len(s.Scripts) || s.OpcodeIdx < 0 || s.OpcodeIdx >= len(s.Scripts[s.ScriptIdx]) {
			n := -1
			if s.ScriptIdx >= 0 && s.ScriptIdx < len(s.Scripts) {
				n = len(s.Scripts[s.ScriptIdx])
			}
			t.pcBad = fmt.Sprintf("event %d (%c): program counter %d:%d, but the snapshot holds %d scripts (script %d has %d instructions)", len(t.events)-1, kind, s.ScriptIdx, s.OpcodeIdx, len(s.Scripts), s.ScriptIdx, n)
		} else {
			func() {
				defer func() {
					if r := recover(); r != nil {
						t.pcBad = fmt.Sprintf("event %d (%c): State.Opcode() panicked: %v", len(t.events)-1, kind, r)
					}
				}()
				_ = s.Opcode()
				_ = s.RemainingScript()
			}()
		}
	}
	if !t.scribble {
		t.kept = append(t.kept, s)
		return
	}
	// overwrite, truncate and append to every stack handed over
	for _, st := range []*[][]byte{&s.DataStack, &s.AltStack, &s.ElseStack, &s.SavedFirstStack} {
		for i := range *st {
			for j := range (*st)[i] {
				// what is written varies with the event: complemented, zeroed (a true item turns
				// false), sign bit only (negative zero), one
				switch len(t.events) % 4 {
				case 0:
					(*st)[i][j] ^= 0xff
				case 1:
					(*st)[i][j] = 0x00
				case 2:
					(*st)[i][j] = 0x80
				default:
					(*st)[i][j] = 0x01
				}
			}
			(*st)[i] = append((*st)[i], 0xde, 0xad)
		}
		if len(*st) > 0 {
			(*st)[0] = (*st)[0][:0]
		}
		*st = append(*st, []byte{0xbe, 0xef}, nil)
		if len(*st) > 3 {
			*st = (*st)[1:]
		}
	}
	for i := range s.CondStack {
		s.CondStack[i] = 7 - s.CondStack[i]
	}
	s.CondStack = append(s.CondStack, 1, 0, 2)
	s.NumOps += 1000
	s.OpcodeIdx += 3
	s.LastCodeSeparatorIdx = 99
}

func (t *tracer) BeforeExecute(s *interpreter.State)       { t.on('E', s) }
func (t *tracer) AfterExecute(s *interpreter.State)        { t.on('e', s) }
func (t *tracer) BeforeStep(s *interpreter.State)          { t.on('S', s) }
func (t *tracer) AfterStep(s *interpreter.State)           { t.on('s', s) }
func (t *tracer) BeforeExecuteOpcode(s *interpreter.State) { t.on('O', s) }
func (t *tracer) AfterExecuteOpcode(s *interpreter.State)  { t.on('o', s) }
func (t *tracer) BeforeScriptChange(s *interpreter.State)  { t.on('C', s) }
func (t *tracer) AfterScriptChange(s *interpreter.State)   { t.on('c', s) }
func (t *tracer) AfterSuccess(s *interpreter.State)        { t.on('Y', s) }
func (t *tracer) AfterError(s *interpreter.State, err error) {
	t.errSeen = err
	t.on('N', s)
}
func (t *tracer) BeforeStackPush(s *interpreter.State, _ []byte) { t.on('P', s) }
func (t *tracer) AfterStackPush(s *interpreter.State, _ []byte)  { t.on('p', s) }
func (t *tracer) BeforeStackPop(s *interpreter.State)            { t.on('Q', s) }
func (t *tracer) AfterStackPop(s *interpreter.State, _ []byte)   { t.on('q', s) }

func (t *tracer) seq() string {
	var b strings.Builder
	for _, e := range t.events {
		b.WriteByte(e.kind)
	}
	return b.String()
}

// grammar checks the documented lifecycle:
//
//	E ( S O X* [o] X* [C c] X* [s] )* e X* (Y|N)      X = Pp | Qq
//
// A step without 's' (or 'o') is only allowed as the last step (it failed).
func grammar(seq string, verdictOK bool) error {
	i := 0
	peek := func() byte {
		if i < len(seq) {
			return seq[i]
		}
		return 0
	}
	stackEvents := func() error {
		for {
			switch peek() {
			case 'P':
				if i+1 >= len(seq) || seq[i+1] != 'p' {
					return fmt.Errorf("BeforeStackPush not followed by AfterStackPush at %d", i)
				}
				i += 2
			case 'Q':
				if i+1 < len(seq) && seq[i+1] == 'e' {
					// a pop that fails (empty stack) announces itself and then the step
					// errors out: allowed only as the very last event of the last step
					i++
					return nil
				}
				if i+1 >= len(seq) || seq[i+1] != 'q' {
					return fmt.Errorf("BeforeStackPop not followed by AfterStackPop at %d", i)
				}
				i += 2
			default:
				return nil
			}
		}
	}
	if peek() != 'E' {
		return fmt.Errorf("first event is %q, want BeforeExecute", string(peek()))
	}
	i++
	for peek() == 'S' {
		i++
		if peek() != 'O' {
			return fmt.Errorf("BeforeStep not followed by BeforeExecuteOpcode at %d", i)
		}
		i++
		if err := stackEvents(); err != nil {
			return err
		}
		complete := true
		if peek() == 'o' {
			i++
		}
		if err := stackEvents(); err != nil {
			return err
		}
		if peek() == 'C' {
			i++
			if peek() != 'c' {
				return fmt.Errorf("BeforeScriptChange not followed by AfterScriptChange at %d", i)
			}
			i++
		}
		if err := stackEvents(); err != nil {
			return err
		}
		if peek() == 's' {
			i++
		} else {
			complete = false
		}
		if !complete && peek() != 'e' {
			return fmt.Errorf("step without AfterStep is not the last step (next %q at %d)", string(peek()), i)
		}
	}
	if peek() != 'e' {
		return fmt.Errorf("expected AfterExecute at %d, got %q", i, string(peek()))
	}
	i++
	if err := stackEvents(); err != nil {
		return err
	}
	switch peek() {
	case 'Y':
		if !verdictOK {
			return fmt.Errorf("AfterSuccess fired but Execute returned an error")
		}
	case 'N':
		if verdictOK {
			return fmt.Errorf("AfterError fired but Execute returned nil")
		}
	default:
		return fmt.Errorf("expected a terminal event at %d, got %q", i, string(peek()))
	}
	i++
	if i != len(seq) {
		return fmt.Errorf("events after the terminal event: %q", seq[i:])
	}
	return nil
}

func firstDiff(a, b []byte) int {
	for i := 0; i < len(a) && i < len(b); i++ {
		if a[i] != b[i] {
			return i
		}
	}
	return min(len(a), len(b))
}

func sameErr(a, b error) bool {
	if (a == nil) != (b == nil) {
		return false
	}
	if a == nil {
		return true
	}
	if a.Error() != b.Error() {
		return false
	}
	var ea, eb errs.Error
	okA, okB := asErr(a, &ea), asErr(b, &eb)
	return okA == okB && (!okA || ea.ErrorCode == eb.ErrorCode)
}

func asErr(e error, out *errs.Error) bool {
	if v, ok := e.(errs.Error); ok {
		*out = v
		return true
	}
	if v, ok := e.(*errs.Error); ok && v != nil {
		*out = *v
		return true
	}
	return false
}

func eqStacks(a, b [][]byte) bool {
	if len(a) != len(b) {
		return false
	}
	for i := range a {
		if string(a[i]) != string(b[i]) {
			return false
		}
	}
	return true
}

// Case adds the comparison mode to a program.
type Case struct {
	libexec.Prog
	Ref bool `json:"ref"` // also compare step snapshots with the reference interpreter (no signature opcodes)
}

var lim = interp.Limits{MaxElem: 1 << 20}

func check(ctx *pbt.Ctx, c Case) error {
	flags := interp.Flags(c.Flags)
	var r interp.Result
	if c.Ref {
		model := c.Ctx.Model(c.Unlock, c.Lock)
		r = interp.VerifyScript(c.Unlock, c.Lock, flags, interp.TxChecker{Tx: model, Idx: c.Ctx.Index(), Amount: c.Ctx.Amount}, true, lim)
		if r.BudgetHit {
			ctx.Discard("over_budget")
			return nil
		}
	} else {
		// guard memory with the budget debugger when there is no reference run
		b := libexec.Run(c.Unlock, c.Lock, flags, c.Ctx, libexec.NewBudget())
		if b.Budget != "" {
			ctx.Discard("over_budget")
			return nil
		}
	}
	plain := libexec.Run(c.Unlock, c.Lock, flags, c.Ctx, nil)
	rec := &tracer{}
	withRec := libexec.Run(c.Unlock, c.Lock, flags, c.Ctx, rec)
	scr := &tracer{scribble: true}
	withScr := libexec.Run(c.Unlock, c.Lock, flags, c.Ctx, scr)
	dd := debug.NewDebugger()
	if (len(c.Lock)+len(c.Unlock))%2 == 1 { // the debugger's documented option; must be as unobtrusive
		dd = debug.NewDebugger(debug.WithRewind())
	}
	// debug.NewDebugger fans every hook out to the handlers attached to it, in the order they were
	// attached. Each hook gets its own number of handlers (1..12, from the shape of the case); a
	// handler logs (hook, its position). The log must be, event by event, the complete run
	// 0..k-1 of that hook's handlers, and the events themselves the recorded callback sequence.
	var ddLog []byte       // pairs: hook character, handler position
	var ddDigests []uint64 // one per pair: what the snapshot handed to that handler said
	var ddSeq strings.Builder
	nh := func(hook byte) int { return 1 + (len(c.Lock)*7+len(c.Unlock)*3+int(c.Flags)+int(hook))%12 }
	for _, hook := range []byte(kinds) {
		hook := hook
		for pos := 0; pos < nh(hook); pos++ {
			pos := pos
			note := func(st *interpreter.State) {
				ddLog = append(ddLog, hook, byte(pos))
				if pos <= 1 || pos == nh(hook)-1 { // first, second and last handler; 0 stands for "not looked at"
					ddDigests = append(ddDigests, digestState(st.DataStack, st.AltStack, st.ElseStack, st.CondStack, st.ScriptIdx, st.OpcodeIdx)|1)
				} else {
					ddDigests = append(ddDigests, 0)
				}
				if pos == 0 {
					ddSeq.WriteByte(hook)
				}
			}
			switch hook {
			case 'E':
				dd.AttachBeforeExecute(func(st *interpreter.State) { note(st) })
			case 'e':
				dd.AttachAfterExecute(func(st *interpreter.State) { note(st) })
			case 'S':
				dd.AttachBeforeStep(func(st *interpreter.State) { note(st) })
			case 's':
				dd.AttachAfterStep(func(st *interpreter.State) { note(st) })
			case 'O':
				dd.AttachBeforeExecuteOpcode(func(st *interpreter.State) { note(st) })
			case 'o':
				dd.AttachAfterExecuteOpcode(func(st *interpreter.State) { note(st) })
			case 'C':
				dd.AttachBeforeScriptChange(func(st *interpreter.State) { note(st) })
			case 'c':
				dd.AttachAfterScriptChange(func(st *interpreter.State) { note(st) })
			case 'Y':
				dd.AttachAfterSuccess(func(st *interpreter.State) { note(st) })
			case 'N':
				dd.AttachAfterError(func(st *interpreter.State, _ error) { note(st) })
			case 'P':
				dd.AttachBeforeStackPush(func(st *interpreter.State, _ []byte) { note(st) })
			case 'p':
				dd.AttachAfterStackPush(func(st *interpreter.State, _ []byte) { note(st) })
			case 'Q':
				dd.AttachBeforeStackPop(func(st *interpreter.State) { note(st) })
			case 'q':
				dd.AttachAfterStackPop(func(st *interpreter.State, _ []byte) { note(st) })
			}
		}
	}
	withDD := libexec.Run(c.Unlock, c.Lock, flags, c.Ctx, dd)
	// the debugger object is the caller's and may be attached to the next execution as well: the
	// same program once more through the same object must be reported in exactly the same way
	firstLog, firstSeq := append([]byte{}, ddLog...), ddSeq.String()
	firstDigests := append([]uint64{}, ddDigests...)
	ddDigests = nil
	ddLog = ddLog[:0]
	ddSeq.Reset()
	withDD2 := libexec.Run(c.Unlock, c.Lock, flags, c.Ctx, dd)
	secondLog := append([]byte{}, ddLog...)
	ddLog = firstLog
	ddSeq.Reset()
	ddSeq.WriteString(firstSeq)
	for name, o := range map[string]libexec.Outcome{"none": plain, "recording": withRec, "scribbling": withScr, "debug.NewDebugger": withDD} {
		if o.Panic != "" {
			return fmt.Errorf("panic with debugger=%s: %s", name, o.Panic)
		}
	}
	id := fmt.Sprintf("unlock=%x lock=%x flags=%#x", []byte(c.Unlock), []byte(c.Lock), c.Flags)
	if rec.over || scr.over {
		// verdicts are still compared; the snapshot relations need the complete record
		if !sameErr(plain.Err, withRec.Err) || !sameErr(plain.Err, withScr.Err) || !sameErr(plain.Err, withDD.Err) {
			return fmt.Errorf("a debugger changed the result: none=%v recording=%v scribbling=%v debug.NewDebugger=%v; %s", plain.Err, withRec.Err, withScr.Err, withDD.Err, id)
		}
		ctx.Discard("snapshot_volume_over_budget")
		return nil
	}
	// (i) same verdict and error
	if !sameErr(plain.Err, withRec.Err) {
		return fmt.Errorf("recording debugger changed the result: none=%v recording=%v; %s", plain.Err, withRec.Err, id)
	}
	if !sameErr(plain.Err, withScr.Err) {
		return fmt.Errorf("scribbling over snapshots changed the result: none=%v scribbling=%v; %s", plain.Err, withScr.Err, id)
	}
	if !sameErr(plain.Err, withDD.Err) {
		return fmt.Errorf("debug.NewDebugger changed the result: none=%v with=%v; %s", plain.Err, withDD.Err, id)
	}
	// (ii) same snapshots whether or not earlier snapshots were scribbled on
	if len(rec.events) != len(scr.events) {
		return fmt.Errorf("scribbling changed the callback sequence: %q vs %q; %s", rec.seq(), scr.seq(), id)
	}
	for i := range rec.events {
		a, b := rec.events[i], scr.events[i]
		if a.kind != b.kind || !eqStacks(a.stack, b.stack) || !eqStacks(a.alt, b.alt) || !eqStacks(a.els, b.els) || fmt.Sprint(a.cond) != fmt.Sprint(b.cond) || a.sidx != b.sidx || a.oidx != b.oidx {
			return fmt.Errorf("event %d (%c): snapshot differs after scribbling: stack %x vs %x, alt %x vs %x, else %x vs %x, cond %v vs %v, pc %d:%d vs %d:%d; %s",
				i, a.kind, a.stack, b.stack, a.alt, b.alt, a.els, b.els, a.cond, b.cond, a.sidx, a.oidx, b.sidx, b.oidx, id)
		}
	}
	for k := 0; k < len(ddLog); {
		hook := ddLog[k]
		want := nh(hook)
		for pos := 0; pos < want; pos++ {
			if k+2*pos+1 >= len(ddLog) || ddLog[k+2*pos] != hook || int(ddLog[k+2*pos+1]) != pos {
				return fmt.Errorf("debug.NewDebugger with %d handlers on hook %c: an event of that hook did not reach its handlers 0..%d in attachment order (log around it: %q); %s", want, hook, want-1, ddLog[k:min(len(ddLog), k+2*want+4)], id)
			}
		}
		k += 2 * want
	}
	if withDD2.Panic != "" {
		return fmt.Errorf("panic when the same debug.NewDebugger object is attached to a second execution: %s", withDD2.Panic)
	}
	if !sameErr(withDD.Err, withDD2.Err) || !bytes.Equal(firstLog, secondLog) {
		return fmt.Errorf("the same debug.NewDebugger object attached to a second execution of the same program reports it differently: result %v then %v, %d then %d handler calls (first difference at call %d); %s",
			withDD.Err, withDD2.Err, len(firstLog)/2, len(secondLog)/2, firstDiff(firstLog, secondLog)/2, id)
	}
	// every handler of one event is handed the same snapshot, and it is the snapshot the recording
	// debugger saw for that event (stacks, conditional and else stack, program counter)
	if len(firstDigests)*2 == len(firstLog) {
		ev := 0
		for k := 0; k < len(firstLog); ev++ {
			hook, want := firstLog[k], nh(firstLog[k])
			for pos := 1; pos < want && k/2+pos < len(firstDigests); pos++ {
				if firstDigests[k/2+pos] != 0 && firstDigests[k/2+pos] != firstDigests[k/2] {
					return fmt.Errorf("debug.NewDebugger with %d handlers on hook %c: handler %d of event %d was handed a snapshot that differs from the one handler 0 got; %s", want, hook, pos, ev, id)
				}
			}
			if ev < len(rec.events) && rec.events[ev].kind == hook {
				e := rec.events[ev]
				if d := digestState(e.stack, e.alt, e.els, e.cond, e.sidx, e.oidx) | 1; d != firstDigests[k/2] {
					return fmt.Errorf("debug.NewDebugger: the snapshot handed to the handlers of event %d (%c) differs from the one a plain debugger receives for the same event (stack %x alt %x else %x cond %v pc %d:%d); %s", ev, hook, e.stack, e.alt, e.els, e.cond, e.sidx, e.oidx, id)
				}
			}
			k += 2 * want
		}
	}
	if rec.seq() != ddSeq.String() {
		return fmt.Errorf("debug.NewDebugger reported a different callback sequence: %q vs %q; %s", ddSeq.String(), rec.seq(), id)
	}
	// (ii-b) a snapshot is the callback's own: one that is kept must still read, after the
	// execution, what it read when it was handed over (later snapshots may not share its storage)
	for i, st := range rec.kept {
		e := rec.events[i]
		if !eqStacks(e.stack, st.DataStack) || !eqStacks(e.alt, st.AltStack) || !eqStacks(e.els, st.ElseStack) || fmt.Sprint(e.cond) != fmt.Sprint(st.CondStack) || e.sidx != st.ScriptIdx || e.oidx != st.OpcodeIdx {
			return fmt.Errorf("event %d (%c): the snapshot kept by the callback reads differently after the execution: stack %x -> %x, alt %x -> %x, cond %v -> %v, else %x -> %x, pc %d:%d -> %d:%d; %s",
				i, e.kind, e.stack, st.DataStack, e.alt, st.AltStack, e.cond, st.CondStack, e.els, st.ElseStack, e.sidx, e.oidx, st.ScriptIdx, st.OpcodeIdx, id)
		}
	}
	if rec.pcBad != "" {
		return fmt.Errorf("snapshot names an instruction it does not contain: %s; %s", rec.pcBad, id)
	}
	if rec.sepBad != "" {
		return fmt.Errorf("snapshot's separator index is not consistent with its own script and program counter: %s; %s", rec.sepBad, id)
	}
	// (ninth round) nothing executes between BeforeStep and BeforeExecuteOpcode of one step: the two
	// snapshots read the same in every field recorded
	for i := 0; i+1 < len(rec.events); i++ {
		a, b := rec.events[i], rec.events[i+1]
		if a.kind != 'S' || b.kind != 'O' {
			continue
		}
		if !eqStacks(a.stack, b.stack) || !eqStacks(a.alt, b.alt) || !eqStacks(a.els, b.els) || fmt.Sprint(a.cond) != fmt.Sprint(b.cond) || a.sidx != b.sidx || a.oidx != b.oidx || a.lsep != b.lsep || a.nops != b.nops {
			return fmt.Errorf("events %d/%d: BeforeStep and BeforeExecuteOpcode of one step differ although nothing ran between them: stack %x vs %x, alt %x vs %x, cond %v vs %v, pc %d:%d vs %d:%d, last separator %d vs %d, ops %d vs %d; %s",
				i, i+1, a.stack, b.stack, a.alt, b.alt, a.cond, b.cond, a.sidx, a.oidx, b.sidx, b.oidx, a.lsep, b.lsep, a.nops, b.nops, id)
		}
	}
	// (iii) lifecycle grammar; no events at all when validation fails before execution
	seq := rec.seq()
	if seq == "" {
		if plain.Err == nil {
			return fmt.Errorf("no callbacks although execution succeeded; %s", id)
		}
		ctx.Label("no_events(validation error)")
		return nil
	}
	if err := grammar(seq, plain.Err == nil); err != nil {
		return fmt.Errorf("lifecycle: %v in %q; %s", err, seq, id)
	}
	if rec.errSeen != nil && !sameErr(rec.errSeen, plain.Err) {
		return fmt.Errorf("AfterError received %v but Execute returned %v; %s", rec.errSeen, plain.Err, id)
	}
	// (iii-b) the documented lifecycle has one more entry: "if bip16 and end of final script:
	// BeforeStackPush / AfterStackPush" - the stack saved before the locking script ran is
	// reinstated for the redeem script, and every item of it arrives through a push callback. The
	// step that ends with the program counter at the start of script 2 must therefore contain,
	// after its script-change callbacks, at least as many completed pushes as the stack it leaves.
	for i := range rec.events {
		e := rec.events[i]
		if e.kind != 's' || e.sidx != 2 || e.oidx != 0 {
			continue
		}
		pushes, j := 0, i-1
		for ; j >= 0 && rec.events[j].kind != 'c' && rec.events[j].kind != 'S'; j-- {
			if rec.events[j].kind == 'p' {
				pushes++
			}
		}
		if j >= 0 && rec.events[j].kind == 'c' {
			if pushes < len(e.stack) {
				return fmt.Errorf("lifecycle: the stack of %d items reinstated for the P2SH redeem script was announced by %d push callbacks (documented: if bip16 and end of final script, BeforeStackPush/AfterStackPush) in %q; %s", len(e.stack), pushes, seq, id)
			}
			ctx.Labelf("p2sh_stack_reinstated:items=%s", map[bool]string{true: "0", false: ">0"}[len(e.stack) == 0])
		}
		break
	}
	// (iv) consecutive step snapshots are consistent with the instruction between them
	var steps []libexec.Step
	var stepEvents []*event
	var beforeStep *event
	for i := range rec.events {
		e := &rec.events[i]
		switch e.kind {
		case 'S':
			if beforeStep != nil && len(steps) > 0 {
				last := steps[len(steps)-1]
				if !eqStacks(last.Stack, e.stack) || !eqStacks(last.Alt, e.alt) {
					return fmt.Errorf("state changed between AfterStep and the next BeforeStep: %x/%x vs %x/%x; %s", last.Stack, last.Alt, e.stack, e.alt, id)
				}
			}
			beforeStep = e
		case 's':
			steps = append(steps, libexec.Step{Stack: e.stack, Alt: e.alt})
			stepEvents = append(stepEvents, e)
		}
	}
	nSteps := strings.Count(seq, "s")
	ctx.Label("level=" + c.Level)
	if plain.Err == nil {
		ctx.Label("accept")
	} else {
		ctx.Label("reject")
	}
	if nSteps >= 3 {
		ctx.NonTrivial()
	}
	if strings.Contains(seq, "Cc") {
		ctx.Label("script_change")
	}
	if c.Ref {
		if (plain.Err == nil) != r.OK {
			// a verdict disagreement is C05's business; do not judge the snapshots then
			ctx.Label("verdict_differs_from_rules(skipped)")
			return nil
		}
		if err := libexec.CompareTraces(steps, plain.Err == nil, r); err != nil {
			return fmt.Errorf("step snapshots inconsistent with the executed instruction: %v; %s", err, id)
		}
		// the conditional state in the snapshots must be the one the rules define after the same
		// instruction: one entry per open conditional, outermost first; the branch is executing
		// exactly when every enclosing condition holds; after genesis the else stack says, per open
		// conditional, whether its OP_ELSE was seen
		for i := 0; i < len(stepEvents) && i < len(r.Trace); i++ {
			e, want := stepEvents[i], r.Trace[i]
			last := i+1 < len(r.Trace) && r.Trace[i+1].Script != want.Script || i == len(r.Trace)-1
			if last {
				continue // a script just ended: both sides start the next one with no open conditional
			}
			if len(e.cond) != len(want.Cond) {
				return fmt.Errorf("step %d (%s): snapshot has %d open conditionals %v, the rules have %d %v; %s", i, want.String(), len(e.cond), e.cond, len(want.Cond), want.Cond, id)
			}
			executing := true
			for _, v := range want.Cond {
				executing = executing && v
			}
			// the library's own reading of its cond stack: the branch executes when the innermost
			// entry is "true" (1) and - after genesis, where a conditional nested in a dead branch
			// is recorded as 0 rather than "skip" (2) - no entry is "false" (0)
			libExec := len(e.cond) == 0 || e.cond[len(e.cond)-1] == 1
			if flags.Has(interp.FlagAfterGenesis) {
				for _, v := range e.cond {
					if v == 0 {
						libExec = false
					}
				}
			}
			if libExec != executing {
				return fmt.Errorf("step %d (%s): snapshot cond stack %v means executing=%v, the rules say %v (%v); %s", i, want.String(), e.cond, libExec, executing, want.Cond, id)
			}
			if flags.Has(interp.FlagAfterGenesis) {
				if len(e.els) != len(want.Else) {
					return fmt.Errorf("step %d (%s): snapshot else stack has %d entries %x, the rules have %v; %s", i, want.String(), len(e.els), e.els, want.Else, id)
				}
				for k := range want.Else {
					if interp.CastToBool(e.els[k]) != want.Else[k] {
						return fmt.Errorf("step %d (%s): snapshot else stack %x (outermost first) does not match the rules' %v; %s", i, want.String(), e.els, want.Else, id)
					}
				}
			}
		}
	}
	return nil
}

func genCase(t *rapid.T) Case {
	withSig := rapid.IntRange(0, 3).Draw(t, "with_sig") == 0
	pool := sgen.FlagPoolNonSig
	var excl func(byte) bool = sgen.IsSigOp
	if withSig {
		pool = append(append([]interp.Flags{}, pool...), interp.FlagStrictEnc, interp.FlagDERSig, interp.FlagLowS, interp.FlagNullDummy, interp.FlagNullFail, interp.FlagForkID)
		excl = nil
	}
	flags := sgen.Flags(t, pool)
	var p sgen.Program
	var lc *sgen.LockCtx
	switch rapid.IntRange(0, 12).Draw(t, "level") {
	case 12:
		p = sgen.DeepStack(t, flags)
	case 10:
		p = sgen.P2SHLookalike(t, flags)
	case 11:
		lp, c := sgen.LockTimeProgram(t, flags)
		p, lc = lp, &c
	case 0:
		p = sgen.RandomOps(t, flags, excl)
	case 1, 2, 3:
		p = sgen.MutateVector(t, vectors, pool, excl)
	default:
		p = sgen.StackAware(t, flags, 10)
	}
	// pre-genesis pay-to-script-hash: the program becomes the redeem script, executed as a third script
	if !flags.Has(interp.FlagAfterGenesis) && len(p.Lock) <= 520 && !strings.Contains(p.Level, "p2sh") && rapid.IntRange(0, 3).Draw(t, "p2sh") == 0 {
		p = sgen.WrapP2SH(p, rapid.IntRange(0, 7).Draw(t, "p2sh_wrong") == 0)
		p.Flags |= interp.FlagP2SH
		p.Level += "+p2sh"
	}
	ctxv := libexec.TxCtx{Version: 2, LockTime: 100, Seq: 50, Amount: uint64(rapid.IntRange(0, 1).Draw(t, "amount"))}
	if lc != nil {
		ctxv.Version, ctxv.LockTime, ctxv.Seq = lc.Version, lc.LockTime, lc.Seq
	}
	return Case{Prog: libexec.Prog{Unlock: p.Unlock, Lock: p.Lock, Flags: uint32(p.Flags), Ctx: ctxv, Level: p.Level}, Ref: !withSig}
}

func TestLifecycle(t *testing.T) {
	pbt.Run(t, pbt.Sub[Case]{
		Name: "lifecycle", Quick: 60000, Thorough: 1500000,
		Gen: genCase, Check: check,
	})
}

// digestState folds what a snapshot says into one number (FNV-1a over the items with their
// boundaries, the conditional stack and the program counter).
func digestState(data, alt, els [][]byte, cond []int, sidx, oidx int) uint64 {
	h := uint64(14695981039346656037)
	mix := func(b byte) { h = (h ^ uint64(b)) * 1099511628211 }
	num := func(n int) {
		for i := 0; i < 8; i++ {
			mix(byte(n >> (8 * i)))
		}
	}
	for _, st := range [][][]byte{data, alt, els} {
		num(len(st))
		for _, it := range st {
			num(len(it))
			for _, b := range it {
				mix(b)
			}
		}
	}
	num(len(cond))
	for _, c := range cond {
		num(c)
	}
	num(sidx)
	num(oidx)
	return h
}
